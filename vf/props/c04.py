"""C04 — auto-escape: untrusted data never reaches the output unescaped.

Monitor: sentinel taint oracle over the text produced by the real engine with
`Environment(auto_escape=True)`.

* every tainted data string is a concatenation of the blocks  Z<Q  Z>Q  Z&Q  Z'Q  Z"Q
  (plus glue that is not HTML-significant); template literals and template text never
  contain an HTML-significant character, nor Z/Q, nor the characters that spell the five
  entities markupsafe produces (l t g a m p # 3 4 9 ;) — so every entity seen in an output
  was made by escaping, and every raw `< > ' "` that is not an exact engine markup
  (`<br />`, tablerow's tr/td) is data that came through unescaped;
* a raw `&` (one not followed by a complete entity) is only a *candidate*: it is
  confirmed by a counterfactual re-render in which the data's `&` are `<` at the same
  positions — raw `<` there means data reached the output unescaped, no raw `<` means
  the engine fabricated the `&` out of an entity (slicing `&lt;` …) and nothing is
  reported;
* `env.filters` entries are wrapped: the wrapper notes which filters saw tainted input
  (filters on the data path) and which filter was the first to return `Markup` text
  with a raw significant character although none of its inputs was such a Markup (the
  culprit named in the mechanism key).
"""

from __future__ import annotations

import random
import re
from typing import Any
from typing import Callable

from ..core import Ctx
from ..instr.sched import drive
from ..minimize import ddmin

ID = "C04"
LEVEL = "exploration"
RULE = (
    "case = (program, data, sync|async, profile std|shopify, catalog on|off). Programs: "
    "1-3 self-contained statements, each a construct (output, echo, liquid tag, assign, "
    "capture + re-filter, include/render with args and for, macro/call, for over lists and "
    "dict items, ternary with branch/tail filters, array literal, template string, "
    "translate block (plural, context), block.super in a 3-level inheritance chain, cycle, "
    "increment, with, if/case, tablerow) around chains of 1-5 filters drawn from ALL "
    "filters registered in env.filters except `safe`, with tainted data in every argument "
    "position; plus a systematic sweep filter x argument pattern x input pre-state (plain, "
    "escaped Markup, literal+data, captured, joined, translated, url-encoded, <br />) x "
    "sink; plus date-filter cache sequences; plus the undefined policy as a configuration "
    "axis (Undefined, DebugUndefined, a custom subclass whose __str__ echoes path/hint/obj, "
    "FalsyStrictUndefined): paths that fail at a tainted segment or root (a[k], a[k].b, [k], "
    "a[b[k]], a.b[k]) put data into the undefined object's text, which is then sent through "
    "13 sinks (output, echo, capture, assign, liquid, ternary, cycle, include/render/macro/"
    "with/translate arguments, join) x every filter (undefined as input and in every "
    "argument position) and through the general random programs with half of their "
    "variables undefined. distinct = hash(sources, data, mode, profile+policy); "
    "non-trivial = an escaped sentinel block (Z&lt;Q ...) is present in the output, i.e. "
    "tainted data really flowed to the output. Further families: containers at boundary "
    "nesting depths; a caching loader shared by an escaping and a non-escaping environment "
    "(auto_reload, capacity, sync/async loads); history on one environment (plain twins of "
    "earlier safe values, every filter, both orders); the data-source axis (11 ways of "
    "supplying the same tainted data, general random programs); 14 translation-catalog "
    "behaviours x 24 translate-tag / translation-filter programs."
)
ASSUMPTIONS = [
    "markupsafe (escape, Markup methods) and CPython are the trusted base",
    "template literals/text are drawn from an alphabet without < > & ' \" Z Q z q and "
    "without l t g a m p # 3 4 9 ; (checked by an assertion in the generator), the `safe` "
    "filter, Markup data and __html__ objects are never used",
    "default environment registration of the translation filters "
    "(auto_escape_message = env.auto_escape). liquid2.builtin.register_translation_filters("
    "env) with its documented default autoescape_message=False is an explicit integrator "
    "configuration that declares message text trusted: it is outside the statement's "
    "quantifier (ruled by the coordinator) and is deliberately NOT part of the `config` "
    "shard, which covers only a caching loader shared by two environments",
    "filters that cut or rewrite text are not applied *after* newline_to_br (nor to a "
    "capture containing its result): a mangled `<br />` is engine markup, not data, and "
    "would be indistinguishable from a raw `<` by text alone",
    "the text of an undefined object (hint built by the engine from the path, including "
    "the quotes of repr()) is judged as one data-derived string: an Undefined subclass that "
    "legitimately returns engine markup through __html__ is not part of the workload",
    "history family: the twin of a safe value is a plain str with the same text, so it "
    "spells entities; a `&` of the twin is counted raw when it directly follows the twin "
    "sentinel W and is not `&amp;`, and is reported only if an environment that never saw "
    "the safe value escapes it (filters such as escape_once that keep existing entities by "
    "design are thereby not reported). The safe values of the PRIMING renders include "
    "Markup data; judged renders never do",
    "data are plain str (and int/bool/None) in lists, tuples, dicts, keys and filter "
    "arguments, as the property's quantifier says; strings hidden inside other Python "
    "objects (e.g. the tzname of a datetime's tzinfo reached through `date: '%Z'`) are "
    "outside it and not generated",
    "translation catalogs are translator-authored: like a template author they may add "
    "text/markup of their own (own text obeys the literal alphabet; the exact tags <i></i> of "
    "the `html` catalog are removed before the scan like engine markup). What the engine "
    "HANDS to a catalog (message id, context, count) and interpolates afterwards may be data "
    "and must arrive escaped even when the catalog merely echoes it back (the t/gettext "
    "filter family escapes message and context before the lookup for exactly this reason)",
    "data sources: render() arguments, Environment globals, template globals, overlay_data, "
    "and loader matter (dictionary and JSON front-matter file-system loaders written for this "
    "check after docs/loading_templates.md, with and without the caching mixin, sync and "
    "async loads) are all render-context data; none is marked safe",
    "a raw `&` is reported only when the counterfactual (`&` -> `<` in the data) shows a "
    "raw `<`; a defect that leaves only `&` unescaped and no other character is outside "
    "the oracle's reach",
]

# ---------------------------------------------------------------------------
# alphabet discipline
# ---------------------------------------------------------------------------

BLOCKS = ["Z<Q", "Z>Q", "Z&Q", "Z'Q", 'Z"Q']
FORBIDDEN = set("<>&'\"ZQzqltgampLTGAMP#349;")

LITS = ["hi", "bye", "no", "x", "b c", "--", "yes no", "0", "12", "o.k", " ", ",", "-",
        "_", "b,c", "xy y", "%Y", "%d-%H", "x%j", "y e s", "5", "", "k", "v", "b", "+", "%"]
TEXTS = ["", "", " ", "hi ", "[", "]", " - ", ":", "\n", "b=", " ok ", "()", "x\ny", ". "]
MSGS = ["hi %(x)s yo", "%(x)s", "b %(x)s c %(x)s", "u"]
for _s in LITS + TEXTS + MSGS:
    assert not (set(_s) & FORBIDDEN), _s


def _clean(s: str) -> str:
    assert not (set(s) & FORBIDDEN), f"literal {s!r} breaks the alphabet discipline"
    return s


# ---------------------------------------------------------------------------
# the oracle
# ---------------------------------------------------------------------------

ENT_RE = re.compile(r"&(?:lt|gt|amp|#39|#34);", re.I)
RAW_AMP_RE = re.compile(r"&(?!(?:lt|gt|amp|#39|#34);)", re.I)
BR_RE = re.compile(r"<br />", re.I)
TR_RE = re.compile(r'<tr class="row\d+">|<td class="col\d+">|</td>|</tr>')
SENT_RE = re.compile(
    r"Z(?:[<>&'\"]|&(?:lt|gt|amp|#39|#34);|%(?:3C|3E|26|27|22))Q", re.I
)
# an escaped sentinel block: tainted data that really reached the output
FLOW_RE = re.compile(r"Z&(?:lt|gt|amp|#39|#34);Q", re.I)
# the text of a Debug/Echo undefined carrying an escaped sentinel block
UNDEF_TEXT_RE = re.compile(r"(?:undefined|\?)[^\n]{0,120}?Z&(?:lt|gt|amp|#39|#34);Q", re.I)
POLICIES = ("default", "debug", "echo", "falsy-strict")
CLASSES = (("<", "raw-lt"), (">", "raw-gt"), ('"', "raw-quote"), ("'", "raw-apos"))


def strip_engine_markup(out: str, profile: str) -> str:
    s = BR_RE.sub("", out)
    if profile.startswith("shopify"):
        s = TR_RE.sub("", s)
    return s


def scan(out: str, profile: str, author_markup: Any = None) -> tuple[dict[str, int], int, bool]:
    """(raw significant characters, raw-& candidates, data-flowed?) of one output."""
    s = strip_engine_markup(out, profile)
    if author_markup is not None:
        s = author_markup.sub("", s)
    raw = {c: s.count(c) for c in "<>'\"" if c in s}
    amp = len(RAW_AMP_RE.findall(s)) if "&" in s else 0
    return raw, amp, bool(FLOW_RE.search(s))


def has_raw(text: str) -> bool:
    s = BR_RE.sub("", text)
    return any(c in s for c in "<>'\"") or bool(RAW_AMP_RE.search(s))


def tainted(v: Any, depth: int = 0) -> bool:
    if isinstance(v, str):
        return bool(SENT_RE.search(v))
    if depth > 3:
        return False
    if isinstance(v, (list, tuple)):
        return any(tainted(x, depth + 1) for x in v[:12])
    if isinstance(v, dict):
        return any(
            tainted(k, depth + 1) or tainted(x, depth + 1) for k, x in list(v.items())[:12]
        )
    return False


def _is_markup(v: Any) -> bool:
    return isinstance(v, str) and hasattr(v, "__html__")


def raw_markup(v: Any, depth: int = 0) -> bool:
    """v is (or contains) a Markup whose text has a raw significant character."""
    if isinstance(v, str):
        return hasattr(v, "__html__") and has_raw(v)
    if depth > 2:
        return False
    if isinstance(v, (list, tuple)):
        return any(raw_markup(x, depth + 1) for x in v[:12])
    return False


def any_markup(v: Any, depth: int = 0) -> bool:
    if isinstance(v, str):
        return hasattr(v, "__html__")
    if depth > 2:
        return False
    if isinstance(v, (list, tuple)):
        return any(any_markup(x, depth + 1) for x in v[:12])
    return False


class Rec:
    """What the filter wrappers saw during one render."""

    __slots__ = ("on_path", "trail", "markup_from_plain", "capture", "calls")

    def __init__(self, capture: str | None = None) -> None:
        self.on_path: set[str] = set()
        self.trail: list[dict[str, Any]] = []
        self.markup_from_plain: list[str] = []
        self.capture = capture      # filter whose call values are to be recorded
        self.calls: list[tuple[Any, tuple[Any, ...], dict[str, Any]]] = []


class FilterWrap:
    """Stands in for env.filters[name]; attribute reads fall through to the original
    (with_context, with_environment, validate, …)."""

    def __init__(self, name: str, func: Callable[..., Any], box: list[Rec]):
        self._name = name
        self._func = func
        self._box = box

    def __getattr__(self, attr: str) -> Any:
        return getattr(self._func, attr)

    def __call__(self, left: Any, *args: Any, **kwargs: Any) -> Any:
        rv = self._func(left, *args, **kwargs)
        rec = self._box[0]
        ins = [left, *args]
        ins.extend(v for k, v in kwargs.items() if k not in ("context", "environment"))
        if rec.capture == self._name and len(rec.calls) < 6:
            rec.calls.append((left, args, {k: v for k, v in kwargs.items()
                                           if k not in ("context", "environment")}))
        if any(tainted(x) for x in ins):
            rec.on_path.add(self._name)
            if any_markup(rv) and not any(any_markup(x) for x in ins):
                if len(rec.markup_from_plain) < 12:
                    rec.markup_from_plain.append(self._name)
        if raw_markup(rv) and not any(raw_markup(x) for x in ins):
            if len(rec.trail) < 8:
                rec.trail.append({"filter": self._name, "returned": _short(rv)})
        return rv


def _short(v: Any) -> str:
    s = repr(v)
    return s if len(s) <= 160 else s[:160] + "…"


# Translation catalogs.  A catalog is written by the translator: like a template author
# it may contribute text and markup of its own (the engine stamps what it returns as
# safe).  Its OWN text obeys the literal alphabet, except the exact tags <i> </i> of the
# "html" catalog, which the scan removes like engine markup.  What it is GIVEN (message
# ids, contexts, counts, and the variables the engine interpolates afterwards) can be
# data, and data characters must still arrive escaped.  Behaviours: echo the message
# context, stray / trailing %, %%, positional specifiers, %(name)s for a message
# variable, an unknown name, another context variable, conversions with precision / %r.
CATALOGS: dict[str, Callable[[str, Any], str]] = {
    "bracket": lambda m, c: "[" + m + "]",
    "echo-context": lambda m, c: "[" + ("" if c is None else str(c)) + "] " + m,
    "stray-percent": lambda m, c: m + " 100%",
    "percent-word": lambda m, c: "50% off " + m,
    "double-percent": lambda m, c: m + " 100%%",
    "positional-s": lambda m, c: m + " %s",
    "positional-d": lambda m, c: "%d " + m,
    "known-name": lambda m, c: m + " %(x)s",
    "unknown-name": lambda m, c: m + " %(uu)s",
    "other-variable": lambda m, c: m + " %(d1)s %(ls)s",
    "precision": lambda m, c: m + " %(x)5.2s",
    "repr": lambda m, c: m + " %(x)r",
    "html": lambda m, c: "<i>" + str(m) + "</i>",
    "drop-variables": lambda m, c: "ok",
}
RAND_CATALOGS = [k for k in CATALOGS if k not in ("echo-context", "html")]
HTML_CAT_RE = re.compile(r"</?i>", re.I)


class Catalog:
    """A translations catalog of the given behaviour (see CATALOGS)."""

    def __init__(self, kind: str = "bracket"):
        self.f = CATALOGS[kind]

    def gettext(self, m: str) -> str:
        return self.f(m, None)

    def ngettext(self, s: str, p: str, n: int) -> str:
        return self.f(s if n == 1 else p, None)

    def pgettext(self, c: str, m: str) -> str:
        return self.f(m, c)

    def npgettext(self, c: str, s: str, p: str, n: int) -> str:
        return self.f(s if n == 1 else p, c)


def catalog_kind(catalog: Any) -> str | None:
    if not catalog:
        return None
    return catalog if isinstance(catalog, str) else "bracket"


def counterfactual(o: Any) -> Any:
    """The data with every `&` replaced by `<` at the same position."""
    if isinstance(o, str):
        return o.replace("&", "<").replace("%26", "%3C")
    if isinstance(o, list):
        return [counterfactual(x) for x in o]
    if isinstance(o, tuple):
        return tuple(counterfactual(x) for x in o)
    if isinstance(o, dict):
        return {counterfactual(k): counterfactual(v) for k, v in o.items()}
    return o


def profile_key(base: str, policy: str) -> str:
    """Configuration key: environment flavour + undefined policy ("std", "std+debug")."""
    return base if policy == "default" else f"{base}+{policy}"


def policy_of(profile: str) -> str:
    return profile.split("+", 1)[1] if "+" in profile else "default"


def undefined_policies() -> dict[str, Any]:
    from liquid2.undefined import UNDEFINED
    from liquid2.undefined import DebugUndefined
    from liquid2.undefined import FalsyStrictUndefined
    from liquid2.undefined import Undefined

    class EchoUndefined(Undefined):
        """A custom policy whose text echoes everything it was told (no __html__)."""

        __slots__ = ()

        def __str__(self) -> str:
            obj = "" if self.obj is UNDEFINED else f"{self.obj}"
            return f"?{self.path}|{self.hint}|{obj}?"

    return {"default": Undefined, "debug": DebugUndefined, "echo": EchoUndefined,
            "falsy-strict": FalsyStrictUndefined}


class Engine:
    """Renders with the real engine and applies the oracle."""

    def __init__(self, ctx: Ctx):
        from liquid2 import DictLoader
        from liquid2 import Environment
        from liquid2.shopify import Environment as ShopifyEnvironment

        self.ctx = ctx
        self.minimised = 0
        self.box = [Rec()]
        self.envs: dict[str, Any] = {}
        self.tables: dict[str, dict[str, str]] = {}
        pol = undefined_policies()
        for base, cls in (("std", Environment), ("shopify", ShopifyEnvironment)):
            for pname in POLICIES:
                profile = profile_key(base, pname)
                table: dict[str, str] = {}
                env = cls(auto_escape=True, undefined=pol[pname], loader=DictLoader(table))
                assert env.auto_escape is True and env.undefined is pol[pname]
                for name in list(env.filters):
                    env.filters[name] = FilterWrap(name, env.filters[name], self.box)
                self.envs[profile] = env
                self.tables[profile] = table
        self.filter_names = {p: sorted(e.filters) for p, e in self.envs.items()}

    def add_env(self, key: str) -> None:
        """A brand-new standard auto-escaping environment (wrapped) under *key*."""
        from liquid2 import DictLoader
        from liquid2 import Environment

        table: dict[str, str] = {}
        env = Environment(auto_escape=True, loader=DictLoader(table))
        for name in list(env.filters):
            env.filters[name] = FilterWrap(name, env.filters[name], self.box)
        self.envs[key] = env
        self.tables[key] = table

    def date_cache_clear(self) -> bool:
        f = self.envs["std"].filters["date"]
        cc = getattr(f, "cache_clear", None)
        if cc is None:
            return False
        cc()
        return True

    def render(
        self, main: str, templates: dict[str, str], data: dict[str, Any], mode: str,
        profile: str, catalog: Any, capture: str | None = None,
    ) -> tuple[str | None, str | None, Rec]:
        env = self.envs[profile]
        table = self.tables[profile]
        table.clear()
        table.update(templates)
        rec = Rec(capture)
        self.box[0] = rec
        d = dict(data)
        if catalog:
            d["translations"] = Catalog(catalog_kind(catalog) or "bracket")
        self.ctx.ev()
        try:
            t = env.from_string(main)
            if mode == "async":
                out = drive(t.render_async(**d))
            else:
                out = t.render(**d)
        except Exception as e:  # noqa: BLE001  (totality is C02's subject)
            return None, type(e).__name__, rec
        return out, None, rec

    def verdict(self, case: dict[str, Any]) -> dict[str, Any]:
        """Apply the oracle to one case = {main, templates, data, mode, profile, catalog,
        pre: [{main, templates, data}]} (pre = renders executed first, not judged)."""
        profile = case.get("profile", "std")
        catalog = case.get("catalog") or False
        mode = case.get("mode", "sync")

        def render_fn(data: dict[str, Any], is_cf: bool) -> tuple[str | None, str | None, Rec]:
            for p in case.get("pre") or ():
                pd = p.get("data") or {}
                self.render(p["main"], p.get("templates") or {},
                            counterfactual(pd) if is_cf else pd, "sync", profile, catalog)
            return self.render(case["main"], case.get("templates") or {}, data, mode, profile,
                               catalog)

        return self.judge(render_fn, case["data"], profile,
                          HTML_CAT_RE if catalog == "html" else None, case.get("cf_data"))

    def judge(self, render_fn: Callable[[dict[str, Any], bool], tuple[str | None, str | None, Rec]],
              data: dict[str, Any], profile: str = "std", am: Any = None,
              cf_data: Any = None) -> dict[str, Any]:
        """The oracle proper: raw-character scan of render_fn(data), and for a raw `&`
        the counterfactual re-render render_fn(data with & -> <)."""
        out, err, rec = render_fn(data, False)
        v: dict[str, Any] = {"cls": None, "out": out, "err": err, "rec": rec, "flow": False,
                             "amp": 0, "cf_out": None}
        if out is None:
            return v
        raw, amp, flow = scan(out, profile, am)
        v["flow"] = flow
        v["amp"] = amp
        for ch, nm in CLASSES:
            if raw.get(ch):
                v["cls"] = nm
                return v
        if amp:
            self.ctx.count("amp_candidates")
            cf = cf_data
            if callable(cf):
                cf = cf()
            if cf is None:
                cf = counterfactual(data)
            out2, err2, _ = render_fn(cf, True)
            self.ctx.count("counterfactual_runs")
            if out2 is not None and scan(out2, profile, am)[0].get("<"):
                v["cls"] = "raw-amp"
                v["cf_out"] = out2
            else:
                self.ctx.count("amp_fabricated_by_engine")
                if err2:
                    self.ctx.count("counterfactual_errors")
        return v


# ---------------------------------------------------------------------------
# program model (small, purpose-built)
# ---------------------------------------------------------------------------


class Chain:
    __slots__ = ("head", "filters", "br", "t")

    def __init__(self, head: str, filters: list[str] | None = None, br: bool = False,
                 t: str = "str"):
        self.head = head
        self.filters = list(filters or [])
        self.br = br
        self.t = t

    def src(self) -> str:
        return " | ".join([self.head, *self.filters])


def _src(parts: list[Any]) -> str:
    return "".join(p if isinstance(p, str) else p.src() for p in parts)


class Stmt:
    def __init__(self, kind: str, parts: list[Any],
                 partials: dict[str, list[Any]] | None = None):
        self.kind = kind
        self.parts = parts
        self.partials = partials or {}

    def chains(self) -> list[Chain]:
        cs = [p for p in self.parts if isinstance(p, Chain)]
        for ps in self.partials.values():
            cs.extend(p for p in ps if isinstance(p, Chain))
        return cs


def build(stmts: list[Stmt]) -> tuple[str, dict[str, str]]:
    main = "".join(_src(s.parts) for s in stmts)
    templates: dict[str, str] = {}
    for s in stmts:
        for name, parts in s.partials.items():
            templates[name] = _src(parts)
    return main, templates


# filter table: name -> (category, output type or None = unchanged, argument patterns)
# argument kinds: D tainted string expr, B single block var, S clean literal, N int,
# L list var, K item key, LAM lambda, T bool; "k=KIND" keyword argument.
FT: dict[str, tuple[str, str | None, tuple[tuple[str, ...], ...]]] = {}


def _reg(cat: str, names: str, out: str | None, *alts: tuple[str, ...]) -> None:
    for n in names.split():
        FT[n] = (cat, out, alts or ((),))


_reg("str", "append prepend", "str", ("D",))
_reg("str", "capitalize downcase upcase lstrip rstrip strip strip_newlines strip_html "
            "escape escape_once url_encode url_decode newline_to_br", "str")
_reg("str", "remove remove_first remove_last", "str", ("B",), ("D",), ("S",))
_reg("str", "replace replace_first", "str", ("B", "D"), ("D", "D"), ("S", "D"), ("B", "S"), ("B",))
_reg("str", "replace_last", "str", ("B", "D"), ("D", "D"), ("S", "D"), ("B", "S"))
_reg("str", "slice", None, ("N",), ("N", "N"))
_reg("str", "truncate truncatewords", "str", (), ("N",), ("N", "D"), ("N", "S"))
_reg("str", "split", "list", ("B",), ("S",), ("D",))
_reg("str", "default", None, ("D",), ("D", "allow_false=T"), ("S",))
_reg("str", "date", "str", ("D",), ("S",), ("F",))
_reg("str", "json", "str", (), ("N",))
_reg("str", "size", "num")
_reg("str", "t", "str", (), ("D",), ("x=D",), ("D", "x=D"), ("plural=D", "count=N", "x=D"),
     ("D", "plural=D", "count=N"))
_reg("str", "gettext", "str", (), ("x=D",))
_reg("str", "ngettext", "str", ("D", "N"), ("D", "N", "x=D"))
_reg("str", "pgettext", "str", ("D",), ("D", "x=D"))
_reg("str", "npgettext", "str", ("D", "D", "N"), ("D", "D", "N", "x=D"))
_reg("str", "base64_encode base64_decode base64_url_safe_encode base64_url_safe_decode", "str")
_reg("list", "join", "str", (), ("D",), ("S",), ("B",))
_reg("list", "first last", "str")
_reg("list", "reverse", "list")
_reg("list", "sort sort_natural sort_numeric uniq compact", "list", (), ("K",))
_reg("list", "concat", "list", ("L",))
_reg("list", "map", "list", ("K",), ("LAM",))
_reg("list", "where reject", "list", ("K",), ("K", "D"), ("LAM",))
_reg("list", "find", "str", ("K", "D"), ("LAM",))
_reg("list", "find_index", "num", ("K", "D"), ("LAM",))
_reg("list", "has", "num", ("K", "D"), ("K",), ("LAM",))
_reg("list", "sum", "num", (), ("K",))
_reg("num", "abs ceil floor", "num")
_reg("num", "round", "num", (), ("N",))
_reg("num", "at_least at_most divided_by minus modulo plus times", "num", ("N",), ("D",))
_reg("num", "currency money money_with_currency money_without_currency "
            "money_without_trailing_zeros decimal", "str", (), ("group_separator=T",))
_reg("num", "unit", "str", ("U",), ("D",), ("U", "denominator=N", "denominator_unit=U"),
     ("U", "format=D"), ("U", "length=D"))
_reg("num", "datetime", "str", (), ("format=D",), ("format=S",))

TRANSLATE = ("t", "gettext", "ngettext", "pgettext", "npgettext")
# filters that keep an engine-made `<br />` intact (or escape it as a whole)
BR_SAFE = ["upcase", "downcase", "capitalize", "strip", "lstrip", "rstrip", "append",
           "prepend", "default", "escape", "escape_once", "url_encode", "strip_html", "size",
           "json", "strip_newlines", "newline_to_br", "t", "gettext", "base64_encode"]

STR_VARS = ["d0", "d1", "d2", "d3", "b0", "b1", "b2", "b3", "b4", "nl", "sp", "pe", "hb", "pf"]
STR_PATHS = ["ls[0]", "ls.first", "ls.last", "ls[1]", "ln[0][1]", "ln.first.first",
             "lm[0].k", "lm[1]['v']", "lm[0][b0]", "m[mk]", "lm.first.v", "ln[1][0]"]
STR_PATHS_NOQ = [p for p in STR_PATHS if "'" not in p]
BLOCK_VARS = ["b0", "b1", "b2", "b3", "b4"]
# paths that do NOT resolve and whose failing segment (or root) is tainted data: the
# undefined object's path/hint then carries the sentinel text
U_ATOMS = ["ua[d0]", "ua[b0].x", "[d1]", "ua[m[mk]]", "ua.in[d2]", "ua[ls[0]]", "ua[d0][d1]",
           "[b3].y", "ua[b2]", "ua[b4]", "[b1]", "ua[lm[0].k].o", "ua.in[ua[d3]]", "uu[d0]"]
LIST_VARS = ["ls", "ls", "ln", "lm", "ls2", "m"]


def gen_data(rng: random.Random) -> dict[str, Any]:
    def ts(lo: int = 1, hi: int = 3, glue: tuple[str, ...] = ("", "", " ", "-", ",")) -> str:
        n = rng.randint(lo, hi)
        s = rng.choice(BLOCKS)
        for _ in range(n - 1):
            s += rng.choice(glue) + rng.choice(BLOCKS)
        return s

    d: dict[str, Any] = {f"d{i}": ts() for i in range(4)}
    for i, b in enumerate(BLOCKS):
        d[f"b{i}"] = b
    d["nl"] = ts(2, 3, ("\n", "\r\n", "\n "))
    d["sp"] = ts(3, 5, (" ", " ", "  "))
    d["pe"] = rng.choice(["Z%3CQ", "Z%26Q", "Z%22Q+Z%3EQ", "Z%27Q%20"]) + ts(1, 2)
    d["hb"] = "Z<Q " + ts(1, 2) + " Z>Q" + rng.choice(["", ts(1, 1)])
    d["pf"] = rng.choice(["%Y ", "%d", "%H:", ""]) + ts(1, 2) + rng.choice(["", " %j", "%y"])
    d["ls"] = [ts() for _ in range(rng.randint(2, 4))]
    d["ls2"] = [ts(1, 1), ts(1, 2)]
    d["ln"] = [[ts(1, 2), ts(1, 1)], [ts(1, 2)]]
    d["lm"] = [
        {"k": ts(1, 2), "v": ts(1, 2), "n": rng.randint(0, 5), "Z<Q": ts(1, 1)},
        {"k": "Z<Q", "v": ts(1, 2), "n": 2, "Z<Q": ts(1, 1)},
    ]
    k1, k2 = ts(1, 2), ts(1, 1)
    d["m"] = {k1: ts(1, 2), k2 + "x": ts(1, 1)}
    d["mk"] = k1
    d.update(n0=0, n1=1, n2=2, n5=5, n9=-1, tr=True, no=False, cl="hi", kk="k",
             dt=rng.choice(["2001-02-05", "1999-12-31 10:20", "now"]), ts=981331200,
             un="length-meter", nn=1250.5, ua={"in": {"o": "hi"}, "o": "x"})
    if rng.random() < 0.3:
        d["currency_format"] = ts(1, 1) + " #,##0.00"
    if rng.random() < 0.3:
        d["datetime_format"] = ts(1, 1) + " yyyy"
    if rng.random() < 0.15:
        d["currency_code"] = ts(1, 1)
    return d


class Gen:
    def __init__(self, rng: random.Random, profile: str, names: list[str],
                 urate: float = 0.0):
        self.rng = rng
        self.profile = profile.split("+")[0]
        self.urate = urate
        self.uatoms = U_ATOMS
        avail = [n for n in names if n in FT]
        self.cats: dict[str, list[str]] = {"str": [], "list": [], "num": []}
        for n in avail:
            self.cats[FT[n][0]].append(n)
        self.br_safe = [n for n in BR_SAFE if n in avail]
        self.unmodelled = sorted(set(names) - set(FT) - {"safe"})

    # -- atoms -----------------------------------------------------------------
    def lit(self, q: str | None = None) -> str:
        q = q or self.rng.choice("'\"")
        return q + _clean(self.rng.choice(LITS)) + q

    def txt(self) -> str:
        return _clean(self.rng.choice(TEXTS))

    def var(self, nolit: bool = False) -> str:
        if self.urate and self.rng.random() < self.urate:
            return self.rng.choice(self.uatoms)
        r = self.rng.random()
        if r < 0.6:
            return self.rng.choice(STR_VARS)
        return self.rng.choice(STR_PATHS_NOQ if nolit else STR_PATHS)

    def atom(self, nolit: bool = False) -> str:
        r = self.rng.random()
        if nolit or r < 0.85:
            return self.var(nolit)
        # template string with an inner expression (inner part uses no literals)
        q = self.rng.choice("'\"")
        inner = self.chain(lo=0, hi=2, nolit=True)
        if inner.br or q in inner.src():
            return self.var()
        return f"{q}{_clean(self.rng.choice(['c', 'x ', '', 'b-']))}${{{inner.src()}}}" \
               f"{_clean(self.rng.choice(['e', '', ' y']))}{q}"

    def arg(self, kind: str, nolit: bool = False) -> str:
        r = self.rng
        if kind == "D":
            x = r.random()
            if x < 0.75:
                return self.atom(nolit)
            if x < 0.88:
                return "cl" if nolit else self.lit()
            return r.choice(BLOCK_VARS)
        if kind == "B":
            return r.choice(BLOCK_VARS)
        if kind == "S":
            return "cl" if nolit else self.lit()
        if kind == "F":
            return "pf"
        if kind == "N":
            if r.random() < 0.08:
                return self.var(nolit)
            return r.choice(["0", "1", "2", "5", "7", "8", "-1", "-2", "n1", "n2", "n5", "10",
                             "15", "20", "n9"])
        if kind == "L":
            if self.urate >= 1.0:
                return r.choice(self.uatoms)
            return r.choice(LIST_VARS)
        if kind == "K":
            return r.choice(["kk", "b0", "kk"] if nolit else ["'k'", "'v'", "'n'", "b0", "kk"])
        if kind == "LAM":
            return r.choice(["x => x.k", "x => x.v", "x => x", "x => x.k == b0",
                             "x => x.k != b1", "(x, i) => x.v", "x => x[b0]", "x => x.v == d0"])
        if kind == "T":
            return r.choice(["true", "tr", "false", "no"])
        if kind == "U":
            return "un"
        raise AssertionError(kind)

    def filt(self, name: str, nolit: bool = False) -> str:
        alts = FT[name][2]
        alt = self.rng.choice(alts)
        if not alt:
            return name
        out = []
        for a in alt:
            if "=" in a:
                k, kind = a.split("=")
                out.append(f"{k}: {self.arg(kind, nolit)}")
            else:
                out.append(self.arg(a, nolit))
        return f"{name}: " + ", ".join(out)

    def pick(self, t: str, br: bool) -> str:
        r = self.rng
        if br:
            return r.choice(self.br_safe)
        x = r.random()
        if t == "str":
            cat = "str" if x < 0.85 else ("list" if x < 0.95 else "num")
        elif t == "list":
            cat = "list" if x < 0.75 else "str"
        else:
            cat = "num" if x < 0.5 else "str"
        return r.choice(self.cats[cat])

    def head_for(self, t: str, nolit: bool = False) -> str:
        r = self.rng
        if t == "list":
            return r.choice(LIST_VARS)
        if t == "num":
            return r.choice(["n5", "nn", "dt", "ts", "n2"])
        if not nolit and r.random() < 0.1:
            return self.lit()
        return self.atom(nolit)

    def chain(self, head: str | None = None, t: str = "str", lo: int = 1, hi: int = 5,
              br: bool = False, nolit: bool = False) -> Chain:
        r = self.rng
        n = r.randint(lo, hi)
        ch = Chain(head if head is not None else self.head_for(t, nolit), [], br, t)
        for i in range(n):
            name = self.pick(ch.t, ch.br)
            if i == 0 and head is None and not nolit and name in TRANSLATE and r.random() < 0.6:
                q = r.choice("'\"")
                ch.head = q + _clean(r.choice(MSGS)) + q
            ch.filters.append(self.filt(name, nolit))
            if name == "newline_to_br":
                ch.br = True
            out = FT[name][1]
            if out:
                ch.t = out
        return ch

    def rechain(self, var: str, src: Chain, lo: int = 1, hi: int = 3) -> Chain:
        return self.chain(head=var, t=src.t, lo=lo, hi=hi, br=src.br)

    def cond(self) -> str:
        return self.rng.choice(["tr", "no", "d0 == b0", "d0 contains b0", "nil", "d1 != d2",
                                "b0 in d0", "ls contains d0", "d0"])

    # -- statements --------------------------------------------------------------
    def stmt(self, i: int) -> Stmt:
        kinds = list(STMT_KINDS)
        if self.profile != "shopify":
            kinds = [k for k in kinds if k != "tablerow"]
        kind = self.rng.choice(kinds)
        return getattr(self, "s_" + kind.replace("-", "_"))(i)

    def s_output(self, i: int) -> Stmt:  # noqa: ARG002
        t = self.rng.choice(["str", "str", "str", "list", "num"])
        return Stmt("output", [self.txt(), "{{ ", self.chain(t=t), " }}", self.txt()])

    def s_echo(self, i: int) -> Stmt:  # noqa: ARG002
        return Stmt("echo", ["{% echo ", self.chain(), " %}"])

    def s_liquid(self, i: int) -> Stmt:
        c1 = self.chain()
        v = f"v{i}"
        return Stmt("liquid", [f"{{% liquid\nassign {v} = ", c1, f"\necho {v}\necho ",
                               self.rechain(v, c1), "\necho ", self.chain(), "\n%}"])

    def s_assign(self, i: int) -> Stmt:
        c1 = self.chain(t=self.rng.choice(["str", "str", "list"]))
        v = f"v{i}"
        return Stmt("assign", [f"{{% assign {v} = ", c1, " %}", self.txt(), f"{{{{ {v} }}}}",
                               "{{ ", self.rechain(v, c1), " }}"])

    def s_capture(self, i: int) -> Stmt:
        c1 = self.chain()
        c2 = self.chain(lo=0, hi=2)
        v = f"c{i}"
        cap = Chain(v, [], c1.br or c2.br, "str")
        parts: list[Any] = [f"{{% capture {v} %}}", self.txt(), "{{ ", c1, " }}", self.txt(),
                            "{{ ", c2, " }}", "{% endcapture %}", f"{{{{ {v} }}}}", self.txt(),
                            "{{ ", self.rechain(v, cap), " }}"]
        if self.rng.random() < 0.4:
            w = f"e{i}"
            inner = self.rechain(v, cap, 0, 2)
            cap2 = Chain(w, [], cap.br or inner.br, "str")
            parts += [f"{{% capture {w} %}}", f"{{{{ {v} }}}}", "{{ ", inner,
                      " }}", "{% endcapture %}", "{{ ", self.rechain(w, cap2, 0, 2), " }}"]
        return Stmt("capture", parts)

    def _partial(self, c1: Chain) -> list[Any]:
        x = Chain("x", [], c1.br, c1.t)
        return ["[", "{{ x }}", self.txt(), "{{ ", self.rechain("x", x, 0, 3), " }}",
                "{{ y }}", "{% capture z %}{{ x }}{% endcapture %}", "{{ ",
                self.rechain("z", Chain("z", [], c1.br, "str"), 0, 2), " }}", "]"]

    def s_include(self, i: int) -> Stmt:
        c1 = self.chain(lo=0, hi=3)
        v, p = f"v{i}", f"p{i}"
        form = self.rng.choice([f"{{% include '{p}', x: {v}, y: {self.var()} %}}",
                                f"{{% include '{p}' with {v} as x %}}",
                                f"{{% include '{p}' with {v} as x, y: {self.var()} %}}"])
        return Stmt("include", [f"{{% assign {v} = ", c1, " %}", form], {p: self._partial(c1)})

    def s_render(self, i: int) -> Stmt:
        c1 = self.chain(lo=0, hi=3)
        v, p = f"v{i}", f"p{i}"
        form = self.rng.choice([f"{{% render '{p}', x: {v}, y: {self.var()} %}}",
                                f"{{% render '{p}' with {v} as x %}}",
                                f"{{% render '{p}' with {v} as x, y: {self.var()} %}}"])
        return Stmt("render", [f"{{% assign {v} = ", c1, " %}", form], {p: self._partial(c1)})

    def s_partial_for(self, i: int) -> Stmt:
        p = f"p{i}"
        tag = self.rng.choice(["include", "render"])
        return Stmt(f"{tag}-for", [f"{{% {tag} '{p}' for ls as x, y: {self.var()} %}}"],
                    {p: self._partial(Chain("x"))})

    def s_macro(self, i: int) -> Stmt:
        f = f"f{i}"
        a = Chain("a")
        return Stmt("macro", [
            f"{{% macro {f} a, b: {self.var()} %}}(", "{{ ", self.rechain("a", a, 0, 3), " }}",
            "{{ b }}{{ args }}{{ kwargs }}", "{{ ", self.rechain("b", a, 0, 2), " }}",
            "){% endmacro %}",
            f"{{% call {f} {self.var()}, {self.var()}, k: {self.var()} %}}",
            self.rng.choice(["", f"{{% call {f} %}}", f"{{% call {f} b: {self.var()}, a: {self.var()} %}}"]),
        ])

    def s_for_list(self, i: int) -> Stmt:
        r = self.rng
        which = r.choice(["ls", "ls", "ln", "lm", "split"])
        if self.urate and r.random() < 0.3:
            u = r.choice(U_ATOMS)
            return Stmt("for-undefined", [
                f"{{% for x in {u} %}}", "{{ x }}", "{% else %}", self.txt(), "{{ ",
                self.chain(head=u, lo=0, hi=2), " }}", "{% endfor %}",
                f"{{% assign w{i} = {u} | default: ls %}}{{% for x in w{i} %}}", "{{ x }}",
                "{% endfor %}"])
        pre: list[Any] = []
        if which == "split":
            v = f"v{i}"
            pre = [f"{{% assign {v} = ", Chain(r.choice(["sp", "d0", "nl"]),
                                                [f"split: {r.choice(['b0', 'b2', self.lit()])}"]),
                   " %}"]
            it, head, t = v, "x", "str"
        elif which == "ln":
            it, head, t = "ln", "x", "list"
        elif which == "lm":
            it, head, t = "lm", r.choice(["x.k", "x.v", "x[b0]"]), "str"
        else:
            it, head, t = "ls", "x", "str"
        mods = r.choice(["", "", " reversed", " limit: 2", " offset: 1"])
        body: list[Any] = [self.txt(), "{{ ", self.chain(head=head, t=t, lo=0, hi=3), " }}"]
        if r.random() < 0.3:
            body.append(f"{{% cycle {self.var()}, {self.var()} %}}")
        if r.random() < 0.2:
            body.append("{{ forloop.index }}{{ x }}")
        return Stmt("for-list", [*pre, f"{{% for x in {it}{mods} %}}", *body, "{% endfor %}"])

    def s_for_dict(self, i: int) -> Stmt:  # noqa: ARG002
        return Stmt("for-dict", ["{% for kv in m %}", "{{ ", self.chain(head="kv[0]", lo=0, hi=3),
                                 " }}", "=", "{{ ", self.chain(head="kv[1]", lo=0, hi=2), " }}",
                                 self.rng.choice(["", "{{ kv }}", "{{ kv | join: b1 }}"]),
                                 "{% endfor %}", self.rng.choice(["", "{{ m }}", "{{ m[mk] }}"])])

    def s_ternary(self, i: int) -> Stmt:  # noqa: ARG002
        c1 = self.chain(lo=0, hi=2)
        c2 = self.chain(lo=0, hi=2)
        tail = Chain("", [], c1.br or c2.br, "str")
        tl = self.rechain("", tail, 0, 2)
        parts: list[Any] = ["{{ ", c1, f" if {self.cond()} else ", c2]
        if tl.filters:
            parts += [" || ", Chain(tl.filters[0], tl.filters[1:], tl.br)]
        parts.append(" }}")
        return Stmt("ternary", parts)

    def s_array_literal(self, i: int) -> Stmt:
        r = self.rng
        items = ", ".join(self.var() for _ in range(r.randint(2, 3)))
        v = f"v{i}"
        return Stmt("array-literal", [
            "{{ ", Chain(items, self.chain(head="", t="list", lo=0, hi=3).filters), " }}",
            f"{{% assign {v} = {items} %}}", "{{ ", self.chain(head=v, t="list", lo=1, hi=3), " }}",
            f"{{% for x in {items} %}}{{{{ x }}}}{{% endfor %}}"])

    def s_template_string(self, i: int) -> Stmt:  # noqa: ARG002
        q = self.rng.choice("'\"")
        inner = self.chain(lo=0, hi=3, nolit=True)
        if q in inner.src() or inner.br:
            inner = Chain(self.rng.choice(STR_VARS))
        head = f"{q}{_clean(self.rng.choice(['c', 'x ', '']))}${{{inner.src()}}}" \
               f"{_clean(self.rng.choice(['e', '', ' y']))}${{{self.rng.choice(STR_VARS)}}}{q}"
        return Stmt("template-string", ["{{ ", self.chain(head=head, lo=0, hi=3), " }}"])

    def s_translate(self, i: int) -> Stmt:  # noqa: ARG002
        r = self.rng
        args = [f"x: {self.var()}"]
        if r.random() < 0.5:
            args.append(f"y: {self.var()}")
        if r.random() < 0.3:
            args.append(f"context: {self.var()}")
        plural = r.random() < 0.4
        if plural:
            args.append(f"count: {r.choice(['n1', 'n2', 'n0', '2', 'ls.size'])}")
        r.shuffle(args)
        hi, sep = _clean("hi "), _clean(" - ")
        body = hi + "{{ x }}" + sep + "{{ y }}" if any(a.startswith("y:") for a in args) \
            else hi + "{{ x }}" + _clean(".")
        parts: list[Any] = ["{% translate " + ", ".join(args) + " %}", body]
        if plural:
            parts += ["{% plural %}", _clean("his ") + "{{ x }} {{ count }} {{ x }}"]
        parts.append("{% endtranslate %}")
        return Stmt("translate-plural" if plural else "translate", parts)

    def s_block_super(self, i: int) -> Stmt:
        n0, n1, n2 = f"k{i}0", f"k{i}1", f"k{i}2"
        c0 = self.chain(lo=0, hi=3)
        sup = Chain("block.super", [], c0.br, "str")
        c1 = self.chain(lo=0, hi=2)
        r1 = self.rechain("block.super", sup, 0, 3)
        sup2 = Chain("block.super", [], c0.br or c1.br or r1.br, "str")
        partials = {
            n0: ["[{% block k %}", self.txt(), "{{ ", c0, " }}", "{% endblock %}]"],
            n1: [f"{{% extends '{n0}' %}}{{% block k %}}(", "{{ block.super }}", "{{ ",
                 r1, " }}", "{{ ", c1, " }}",
                 "){% endblock %}"],
            n2: [f"{{% extends '{n1}' %}}{{% block k %}}", "{{ ",
                 self.rechain("block.super", sup2, 0, 2), " }}", "{{ block.super }}",
                 "{% endblock %}"],
        }
        leaf = self.rng.choice([n1, n2, n2])
        return Stmt("block-super", [f"{{% include '{leaf}' %}}"], partials)

    def s_cycle(self, i: int) -> Stmt:  # noqa: ARG002
        r = self.rng
        items = ", ".join(self.var() for _ in range(r.randint(2, 3)))
        grp = r.choice(["", f"{r.choice(STR_VARS)}: "])
        return Stmt("cycle", [f"{{% for x in ls %}}{{% cycle {grp}{items} %}}{{% endfor %}}",
                              f"{{% cycle {items} %}}"])

    def s_increment(self, i: int) -> Stmt:  # noqa: ARG002
        a, b = self.rng.choice(STR_VARS), self.rng.choice(STR_VARS)
        return Stmt("increment", [f"{{% increment {a} %}}{{% decrement {b} %}}", "{{ ",
                                  self.chain(head=a, lo=0, hi=2), " }}", f"{{{{ {b} }}}}",
                                  f"{{% increment {a} %}}"])

    def s_with(self, i: int) -> Stmt:  # noqa: ARG002
        return Stmt("with", [f"{{% with a: {self.var()}, b: {self.rng.choice(LIST_VARS)} %}}",
                             "{{ ", self.chain(head="a", lo=0, hi=3), " }}", "{{ ",
                             self.chain(head="b", t="list", lo=0, hi=3), " }}", "{% endwith %}"])

    def s_tablerow(self, i: int) -> Stmt:  # noqa: ARG002
        return Stmt("tablerow", [f"{{% tablerow x in ls cols: {self.rng.choice(['1', '2'])} %}}",
                                 self.txt(), "{{ ", self.chain(head="x", lo=0, hi=3), " }}",
                                 "{% endtablerow %}"])

    def s_container_output(self, i: int) -> Stmt:  # noqa: ARG002
        v = self.rng.choice(["ls", "m", "lm", "ln", "lm[0]", "ln[0]", "m | first", "lm | last"])
        return Stmt("container-output", [f"{{{{ {v} }}}}", self.txt(), "{% echo ",
                                         self.chain(t="list", lo=1, hi=3), " %}"])

    def s_branch(self, i: int) -> Stmt:  # noqa: ARG002
        r = self.rng
        if r.random() < 0.5:
            return Stmt("if", [f"{{% if {self.cond()} %}}", "{{ ", self.chain(lo=0, hi=3), " }}",
                               "{% else %}", "{{ ", self.chain(lo=0, hi=3), " }}", "{% endif %}"])
        return Stmt("case", [f"{{% case {self.var()} %}}{{% when {self.var()}, b0 %}}", "{{ ",
                             self.chain(lo=0, hi=3), " }}", "{% else %}", "{{ ",
                             self.chain(lo=0, hi=3), " }}", "{% endcase %}"])


STMT_KINDS = ["output", "output", "output", "echo", "liquid", "assign", "capture", "capture",
              "include", "render", "partial-for", "macro", "for-list", "for-dict", "ternary",
              "array-literal", "template-string", "translate", "block-super", "cycle",
              "increment", "with", "tablerow", "tablerow", "container-output", "branch"]


# ---------------------------------------------------------------------------
# judging, minimising, classifying
# ---------------------------------------------------------------------------


def _case(stmts: list[Stmt], data: dict[str, Any], mode: str, profile: str, catalog: bool,
          pre: list[dict[str, Any]] | None = None) -> dict[str, Any]:
    main, templates = build(stmts)
    return {"main": main, "templates": templates, "data": data, "mode": mode,
            "profile": profile, "undefined": policy_of(profile), "catalog": catalog,
            "pre": pre or []}


_WORD = re.compile(r"[A-Za-z_][A-Za-z0-9_]*")


def minimise(eng: Engine, stmts: list[Stmt], data: dict[str, Any], mode: str, profile: str,
             catalog: bool, cls: str, full: bool = True) -> tuple[list[Stmt], dict[str, Any]]:
    budget = [260 if full else 14]

    def bad(ss: list[Stmt], d: dict[str, Any]) -> bool:
        if budget[0] <= 0:
            return False
        budget[0] -= 1
        return eng.verdict(_case(ss, d, mode, profile, catalog))["cls"] == cls

    cur = ddmin(stmts, lambda ss: bad(ss, data), max_calls=40) if len(stmts) > 1 else stmts
    if not full:
        return cur, data
    for s in cur:
        for ch in s.chains():
            if not ch.filters:
                continue
            saved = list(ch.filters)
            ch.filters = []
            if bad(cur, data):
                continue
            ch.filters = saved
            if len(saved) > 1:
                def t(fs: list[str], ch: Chain = ch, saved: list[str] = saved) -> bool:
                    ch.filters = fs
                    ok = bad(cur, data)
                    ch.filters = saved
                    return ok
                ch.filters = ddmin(saved, t, max_calls=30)
    # data: one block per string, one item per list, then drop unreferenced names
    want = {"raw-lt": "Z<Q", "raw-gt": "Z>Q", "raw-amp": "Z&Q", "raw-apos": "Z'Q",
            "raw-quote": 'Z"Q'}[cls]
    d = dict(data)
    for k in sorted(d):
        v = d[k]
        cands: list[Any] = []
        if isinstance(v, str) and tainted(v) and v not in BLOCKS:
            cands = [want, "Z<Q"]
        elif isinstance(v, list) and len(v) > 1:
            cands = [v[:1]]
        for c in cands:
            d2 = dict(d)
            d2[k] = c
            if bad(cur, d2):
                d = d2
                break
    main, templates = build(cur)
    words = set(_WORD.findall(main + " " + " ".join(templates.values())))
    keep = {k: v for k, v in d.items()
            if k in words or k in ("currency_format", "datetime_format", "currency_code")}
    if bad(cur, keep):
        d = keep
    return cur, d


def classify(v: dict[str, Any], stmts: list[Stmt] | None, fallback: str) -> str:
    rec: Rec = v["rec"]
    if rec.trail:
        return f"{v['cls']}:{rec.trail[0]['filter']}"
    if stmts:
        return f"{v['cls']}:" + "+".join(sorted({s.kind for s in stmts}))
    return f"{v['cls']}:{fallback}"


def report(eng: Engine, ctx: Ctx, stmts: list[Stmt], data: dict[str, Any], mode: str,
           profile: str, catalog: bool, v: dict[str, Any]) -> None:
    cls = v["cls"]
    orig = _case(stmts, data, mode, profile, catalog)
    # full minimisation for the first violations of a shard; later ones (a pervasive
    # break) are only reduced to a single statement so the run stays within budget
    eng.minimised += 1
    try:
        ms, md = minimise(eng, stmts, data, mode, profile, catalog, cls,
                          full=eng.minimised <= 12)
        mv = eng.verdict(_case(ms, md, mode, profile, catalog))
        if mv["cls"] != cls:
            ms, md, mv = stmts, data, v
    except Exception:  # noqa: BLE001
        ms, md, mv = stmts, data, v
    key = classify(mv, ms, "program")
    policy = policy_of(profile)
    if policy != "default":
        # same program under the default policy (undefined renders nothing): clean there
        # means the raw text is the undefined object's own text
        v0 = eng.verdict(_case(ms, md, mode, profile.split("+")[0], catalog))
        if v0["cls"] != cls:
            culprit = mv["rec"].trail[0]["filter"] if mv["rec"].trail else "stringify"
            key = f"{cls}:undefined[{policy}]:{culprit}"
    wit = _case(ms, md, mode, profile, catalog)
    wit.update(output=mv["out"], counterfactual_output=mv["cf_out"],
               markup_trail=mv["rec"].trail, markup_from_plain=mv["rec"].markup_from_plain,
               constructs=[s.kind for s in ms], minimised_from=orig["main"])
    what = (f"{cls.replace('raw-', 'raw ')} from tainted data in the output of an "
            f"auto-escaping render: {_short(mv['out'])}")
    ctx.violation(key, what, wit)


def observe(eng: Engine, ctx: Ctx, stmts: list[Stmt], data: dict[str, Any], mode: str,
            profile: str, catalog: bool) -> dict[str, Any]:
    case = _case(stmts, data, mode, profile, catalog)
    v = eng.verdict(case)
    if v["err"]:
        ctx.count("render_errors")
        ctx.seen("error_classes", v["err"])
        return v
    ctx.count("renders_ok")
    if v["flow"]:
        ctx.count("renders_with_flow")
        ctx.nt(case["main"], sorted(case["templates"].items()), repr(data), mode, profile)
        for n in v["rec"].on_path:
            ctx.seen("filters", n)
        for s in stmts:
            ctx.seen("constructs", s.kind)
        for n in v["rec"].markup_from_plain:
            ctx.seen("filters_returning_markup_for_plain_tainted_input", n)
        ctx.seen("undefined_policies", policy_of(profile))
    if policy_of(profile) in ("debug", "echo") and UNDEF_TEXT_RE.search(v["out"]):
        # the text of an undefined object built from tainted path segments is in the output
        ctx.count("undefined_text_with_taint_in_output")
        for s in stmts:
            ctx.seen("undefined_text_constructs", s.kind)
    if v["cls"]:
        report(eng, ctx, stmts, data, mode, profile, catalog, v)
    return v


# ---------------------------------------------------------------------------
# shards
# ---------------------------------------------------------------------------


def shards(tier: str, seed: int) -> list[dict[str, Any]]:  # noqa: ARG001
    n = 10 if tier == "quick" else 16
    per = 1800 if tier == "quick" else 60000
    specs: list[dict[str, Any]] = [{"kind": "rand", "i": i, "n": n, "count": per}
                                   for i in range(n)]
    ns = 2 if tier == "quick" else 8
    specs += [{"kind": "sys", "i": i, "n": ns, "reps": 1 if tier == "quick" else 6}
              for i in range(ns)]
    specs.append({"kind": "datecache", "i": 0, "n": 1})
    nd = 3 if tier == "quick" else 8
    specs += [{"kind": "deep", "i": i, "n": nd, "reps": 1 if tier == "quick" else 4}
              for i in range(nd)]
    specs.append({"kind": "config", "i": 0, "n": 1})
    specs.append({"kind": "catalog", "i": 0, "n": 1, "reps": 1 if tier == "quick" else 6})
    nso = 2 if tier == "quick" else 6
    specs += [{"kind": "source", "i": i, "n": nso, "count": 800 if tier == "quick" else 6000}
              for i in range(nso)]
    nh = 2 if tier == "quick" else 6
    specs += [{"kind": "history", "i": i, "n": nh, "reps": 3 if tier == "quick" else 12}
              for i in range(nh)]
    nu = 2 if tier == "quick" else 8
    specs += [{"kind": "undef", "i": i, "n": nu, "count": 1500 if tier == "quick" else 30000}
              for i in range(nu)]
    return specs


def floors(tier: str) -> dict[str, int]:
    k = 1 if tier == "quick" else 20
    return {
        "evaluations": 10_000 * k,
        "renders_with_flow": 2_000 * k,
        "distinct_nontrivial": 2_000 * k,
        "set:filters": 30,
        "set:constructs": 15,
        "sys_programs": 1_000,
        "datecache_sequences": 6,
        "undefined_text_with_taint_in_output": 500 * k,
        "undef_sweep_programs": 1_000,
        "set:undefined_policies": 4,
        "deep_renders_with_flow": 3_000,
        "set:deep_depths_with_flow": 11,
        "set:deep_shapes_with_flow": 7,
        "set:deep_sinks_with_flow": 14,
        "history_twins_judged": 1_500,
        "history_twins_with_flow": 700,
        "set:history_filters": 35,
        "set:history_prestates": 12,
        "catalog_renders_with_flow": 1_000,
        "set:catalog_kinds_with_flow": 10,
        "set:catalog_sites_with_flow": 6,
        "source_renders_with_flow": 400 * k,
        "set:sources_with_flow": 11,
        "set:source_constructs": 20,
        "partials_with_own_matter": 20,
        "config_sequences": 200,
        "config_renders_with_flow": 200,
        "set:loader_options_with_flow": 8,
        "set:undefined_text_constructs": 20,
    }


def run_shard(spec: dict[str, Any], ctx: Ctx) -> None:
    eng = Engine(ctx)
    kind = spec["kind"]
    if kind == "rand":
        _rand(eng, spec, ctx)
    elif kind == "sys":
        _sys(eng, spec, ctx)
    elif kind == "datecache":
        _datecache(eng, spec, ctx)
    elif kind == "undef":
        _undef(eng, spec, ctx)
    elif kind == "deep":
        _deep(eng, spec, ctx)
    elif kind == "config":
        _config(eng, spec, ctx)
    elif kind == "history":
        _history(eng, spec, ctx)
    elif kind == "catalog":
        _catalog(eng, spec, ctx)
    elif kind == "source":
        _source(eng, spec, ctx)


def _rand(eng: Engine, spec: dict[str, Any], ctx: Ctx) -> None:
    rng = random.Random(f"{spec['seed']}:rand:{spec['i']}")
    gens = {p: Gen(rng, p, eng.filter_names[p], urate=0.04) for p in ("std", "shopify")}
    for g in gens.values():
        for n in g.unmodelled:
            ctx.note(f"filter {n!r} is registered but not in the C04 filter table")
    data = gen_data(rng)
    last = None
    for j in range(spec["count"]):
        if j % 4 == 0:
            data = gen_data(rng)
        base = "shopify" if rng.random() < 0.25 else "std"
        g = gens[base]
        stmts = [g.stmt(k) for k in range(rng.choice([1, 1, 2, 2, 3]))]
        mode = "async" if j % 2 else "sync"
        catalog = rng.choice(RAND_CATALOGS) if rng.random() < 0.3 else False
        profile = profile_key(base, rng.choice(RAND_POLICIES))
        v = observe(eng, ctx, stmts, data, mode, profile, catalog)
        if v["flow"]:
            last = (stmts, mode, profile)
    if last:
        main, templates = build(last[0])
        ctx.sample({"kind": "rand", "main": main, "templates": templates, "mode": last[1],
                    "profile": last[2]})


RAND_POLICIES = ["default"] * 6 + ["debug", "debug", "echo", "falsy-strict"]

# filters that stringify (or pass on) their input / arguments: the undefined sweep puts an
# undefined object in the input and in every argument position of each
UNDEF_SINKS = [
    ("output", "{{ %s }}"),
    ("echo", "{%% echo %s %%}"),
    ("capture", "{%% capture s %%}[{{ %s }}]{%% endcapture %%}{{ s }}{{ s | upcase }}"),
    ("assign", "{%% assign s = %s %%}{{ s }}{{ s | append: b1 }}"),
    ("liquid", "{%% liquid\nassign s = %s\necho s\n%%}"),
    ("ternary", "{{ %s if tr else b0 }}"),
    ("cycle", "{%% assign s = %s %%}{%% cycle s, s %%}"),
    ("include-arg", "{%% assign s = %s %%}{%% include 'pu', x: s %%}"),
    ("render-arg", "{%% assign s = %s %%}{%% render 'pu', x: s %%}"),
    ("macro-arg", "{%% assign s = %s %%}{%% macro fu a %%}({{ a }}{{ a | prepend: b2 }}){%% endmacro %%}"
                  "{%% call fu s %%}"),
    ("with", "{%% assign s = %s %%}{%% with a: s %%}{{ a }}{%% endwith %%}"),
    ("translate-arg", "{%% assign s = %s %%}{%% translate x: s %%}hi {{ x }}{%% endtranslate %%}"),
    ("join-item", "{%% assign s = %s %%}{{ s, b0 | join: b1 }}{{ ls | join: s }}"),
]
UNDEF_PARTIAL = {"pu": "[{{ x }}{{ x | downcase }}{% capture z %}{{ x }}{% endcapture %}{{ z }}]"}


def _undef(eng: Engine, spec: dict[str, Any], ctx: Ctx) -> None:
    """Tainted data reaches the *undefined object* (path segments, roots), under every
    undefined policy, through every sink and every filter position."""
    rng = random.Random(f"{spec['seed']}:undef:{spec['i']}")
    last = None
    # (a) sweep: undefined atom x (no filter | every filter, undefined as input and as
    # argument) x sink (rotating) x policy
    g0 = Gen(rng, "std", eng.filter_names["std"], urate=0.0)
    gu = Gen(rng, "std", eng.filter_names["std"], urate=1.0)
    names = [None] + [n for n in eng.filter_names["std"] if n in FT]
    k = 0
    data = gen_data(rng)
    for fi, name in enumerate(names):
        if fi % spec["n"] != spec["i"]:
            continue
        for ui, u in enumerate(U_ATOMS):
            for pos in ("input", "argument"):
                if name is None:
                    if pos == "argument":
                        continue
                    ch = Chain(u)
                elif pos == "input":
                    ch = Chain(u, [g0.filt(name)])
                else:
                    if not any(a for a in FT[name][2]):
                        continue
                    ch = Chain(rng.choice(["d0", "ls", "'hi'", "nn"]), [gu.filt(name)])
                k += 1
                sink_name, sink = UNDEF_SINKS[k % len(UNDEF_SINKS)]
                st = Stmt(f"undef:{sink_name}", _split_sink(sink, ch), {
                    n: [t] for n, t in UNDEF_PARTIAL.items()} if "pu" in sink else None)
                for pi, policy in enumerate(POLICIES):
                    if policy == "falsy-strict" and (k + ui) % 3:
                        continue
                    mode = "async" if (k + pi) % 2 else "sync"
                    ctx.count("undef_sweep_programs")
                    v = observe(eng, ctx, [st], data, mode, profile_key("std", policy), False)
                    if v["flow"] and policy == "debug":
                        last = ([st], mode, profile_key("std", policy))
        if fi % 8 == 0:
            data = gen_data(rng)
    # (b) random programs of the general generator with most variables undefined
    gens = {p: Gen(rng, p, eng.filter_names[p], urate=0.5) for p in ("std", "shopify")}
    for j in range(spec["count"]):
        if j % 4 == 0:
            data = gen_data(rng)
        base = "shopify" if rng.random() < 0.2 else "std"
        stmts = [gens[base].stmt(i) for i in range(rng.choice([1, 1, 2]))]
        policy = rng.choice(["debug", "debug", "echo", "echo", "default", "falsy-strict"])
        observe(eng, ctx, stmts, data, "async" if j % 2 else "sync",
                profile_key(base, policy), rng.random() < 0.3)
    if last:
        main, templates = build(last[0])
        ctx.sample({"kind": "undef", "main": main, "templates": templates, "mode": last[1],
                    "profile": last[2]})



# ---------------------------------------------------------------------------
# containers at boundary nesting depths
# ---------------------------------------------------------------------------

DEEP_DEPTHS = [0, 1, 2, 8, 31, 32, 33, 64, 200]
DEEP_SHAPES = ["list", "tuple", "mixed", "single", "dag", "with-ranges", "dict-values"]
DEEP_SINKS = UNDEF_SINKS + [
    ("for", "{%% assign s = %s %%}{%% for x in s %%}{{ x }}{%% endfor %%}"),
    ("template-string", "{%% assign s = %s %%}{{ 'c${s}e' }}{{ \"${s | upcase}\" }}"),
    ("path", "{%% assign s = %s %%}{{ s[0] }}{{ s.first }}{{ s | first }}{{ s.last }}"),
]
DEEP_HEADS = ["a", "o.items", "a[0]"]
# chains that stringify / pass on / re-wrap the container
DEEP_CORE = [[], ["reverse"], ["append: b1"], ["join: b2"], ["default: b0"], ["upcase"],
             ["compact"], ["concat: ls"], ["t"], ["slice: 0, 2"], ["first"], ["escape"]]


def build_deep(shape: str, depth: int, leaves: list[str]) -> Any:
    """A hostile string wrapped in `depth` containers of the given shape (built
    iteratively), with a sibling hostile string at every level; acyclic."""
    i = [0]

    def leaf() -> str:
        i[0] += 1
        return leaves[(i[0] - 1) % len(leaves)]

    v: Any = leaf()
    lvl0 = 0
    if shape == "dag":
        # self-similar: the same sub-array object referenced twice (first 4 levels)
        lvl0 = min(depth, 4)
        for _ in range(lvl0):
            v = [v, v]
    for lvl in range(lvl0, depth):
        s = leaf()
        if shape in ("list", "dag"):
            v = [v, s]
        elif shape == "tuple":
            v = (v, s)
        elif shape == "mixed":
            v = [v, s] if lvl % 2 else (s, v)
        elif shape == "single":
            v = [v]
        elif shape == "with-ranges":
            v = [range(1, 3), v, s]
        elif shape == "dict-values":
            v = [v, s] if lvl % 3 else [{"v": s, "n": lvl}, v]
        else:
            raise AssertionError(shape)
    return v


def _deep_data(base: dict[str, Any], spec: dict[str, Any], cf: bool = False) -> dict[str, Any]:
    leaves = [counterfactual(x) for x in spec["leaves"]] if cf else spec["leaves"]
    a = build_deep(spec["shape"], spec["depth"], leaves)
    d = counterfactual(base) if cf else dict(base)
    d["a"] = a
    d["o"] = {"items": a}
    return d


def _deep_verdict(eng: Engine, st: Stmt, base: dict[str, Any], spec: dict[str, Any],
                  mode: str, data: dict[str, Any] | None = None) -> dict[str, Any]:
    main, templates = build([st])
    case = {"main": main, "templates": templates,
            "data": data if data is not None else _deep_data(base, spec),
            "cf_data": lambda: _deep_data(base, spec, cf=True), "mode": mode,
            "profile": "std", "catalog": False, "pre": []}
    return eng.verdict(case)


def _max_depth(eng: Engine) -> int:
    """Largest nesting depth `{{ a }}` still renders at under the worker's recursion
    limit (bisection on the real engine)."""
    def ok(n: int) -> bool:
        out, _err, _rec = eng.render("{{ a }}", {}, {"a": build_deep("list", n, ["Z<Q"])},
                                     "sync", "std", False)
        return out is not None

    lo, hi = 200, 6000
    if not ok(lo):
        return lo
    if ok(hi):
        return hi
    while hi - lo > 1:
        mid = (lo + hi) // 2
        if ok(mid):
            lo = mid
        else:
            hi = mid
    return lo


def _deep_report(eng: Engine, ctx: Ctx, st: Stmt, base: dict[str, Any], spec: dict[str, Any],
                 mode: str, v: dict[str, Any]) -> None:
    cls = v["cls"]
    want = {"raw-lt": "Z<Q", "raw-gt": "Z>Q", "raw-amp": "Z&Q", "raw-apos": "Z'Q",
            "raw-quote": 'Z"Q'}[cls]

    def bad(depth: int, leaves: list[str]) -> dict[str, Any] | None:
        sp = dict(spec, depth=depth, leaves=leaves)
        r = eng.verdict({**_case_of(st, base, sp, mode)})
        return r if r["cls"] == cls else None

    leaves = [want] if bad(spec["depth"], [want]) else spec["leaves"]
    # smallest violating depth: first hit on an ascending ladder, then linear refinement
    ladder = [x for x in (0, 1, 2, 3, 4, 6, 8, 12, 16, 24, 31, 32, 33, 48, 64, 100, 200, 400, 800)
              if x < spec["depth"]] + [spec["depth"]]
    prev, hit = -1, spec["depth"]
    for x in ladder:
        if bad(x, leaves):
            hit = x
            break
        prev = x
    for x in range(prev + 1, hit):
        if hit - prev > 40:
            break
        if bad(x, leaves):
            hit = x
            break
    sp = dict(spec, depth=hit, leaves=leaves)
    mv = bad(hit, leaves) or v
    culprit = mv["rec"].trail[0]["filter"] if mv["rec"].trail else "stringify"
    shallow = eng.verdict(_case_of(st, base, dict(sp, depth=min(1, hit)), mode))
    if shallow["cls"] == cls:
        key = f"{cls}:{culprit if mv['rec'].trail else st.kind}"
    else:
        key = f"{cls}:nested-container:{culprit}"
    main, templates = build([st])
    words = set(_WORD.findall(main + " " + " ".join(templates.values())))
    wit = {"deep": sp, "main": main, "templates": templates,
           "data": {k: x for k, x in base.items() if k in words}, "mode": mode,
           "profile": "std", "catalog": False, "output": _short(mv["out"]),
           "markup_trail": mv["rec"].trail, "constructs": [st.kind],
           "first_violating_depth": hit, "deepest_clean_depth_tried": prev}
    ctx.violation(key, f"{cls.replace('raw-', 'raw ')} from a tainted string inside "
                       f"{sp['shape']} containers nested {hit} deep: {_short(mv['out'])}", wit)


def _case_of(st: Stmt, base: dict[str, Any], spec: dict[str, Any], mode: str) -> dict[str, Any]:
    main, templates = build([st])
    return {"main": main, "templates": templates, "data": _deep_data(base, spec),
            "cf_data": lambda: _deep_data(base, spec, cf=True), "mode": mode,
            "profile": "std", "catalog": False, "pre": []}


def _deep(eng: Engine, spec: dict[str, Any], ctx: Ctx) -> None:
    rng = random.Random(f"{spec['seed']}:deep:{spec['i']}")
    dmax = _max_depth(eng)
    ctx.mx("max:deep_depth_rendered", dmax)
    depths = DEEP_DEPTHS + [max(201, dmax - 8), dmax]
    g0 = Gen(rng, "std", eng.filter_names["std"])
    ga = Gen(rng, "std", eng.filter_names["std"], urate=1.0)
    ga.uatoms = DEEP_HEADS
    fnames = [n for n in eng.filter_names["std"] if n in FT]
    combos = [(d, sh) for d in depths for sh in DEEP_SHAPES]
    k = 0
    reported = 0
    for rep_i in range(spec["reps"]):
        base = gen_data(rng)
        for ci, (depth, shape) in enumerate(combos):
            if ci % spec["n"] != spec["i"]:
                continue
            leaves = [rng.choice(BLOCKS) for _ in range(5)] if rep_i or ci % 2 else list(BLOCKS)
            dspec = {"shape": shape, "depth": depth, "leaves": leaves}
            near_limit = depth > 200
            progs: list[tuple[str, Chain]] = []
            sinks = DEEP_SINKS[:3] if near_limit else DEEP_SINKS
            for si, (sink_name, sink) in enumerate(sinks):
                for hi_, head in enumerate(DEEP_HEADS[:2]):
                    # the bare container always, plus core chains taking turns
                    nrot = 1 if near_limit else (3 if depth <= 64 else 2)
                    cores = [DEEP_CORE[0]] + [
                        DEEP_CORE[1 + (ci + si * 3 + hi_ * 5 + j) % (len(DEEP_CORE) - 1)]
                        for j in range(nrot)]
                    for chn in cores:
                        progs.append((sink_name + "|" + sink, Chain(head, list(chn))))
            if not near_limit:
                # every filter takes its turn on this container: as input and as argument
                for t in range(14 if depth <= 64 else 6):
                    name = fnames[(ci * 14 + t + rep_i * 7) % len(fnames)]
                    sn = DEEP_SINKS[(ci + t) % len(DEEP_SINKS)]
                    progs.append((sn[0] + "|" + sn[1], Chain(rng.choice(DEEP_HEADS), [g0.filt(name)])))
                    if any(a for a in FT[name][2]):
                        progs.append((sn[0] + "|" + sn[1],
                                      Chain(rng.choice(["d0", "ls", "'hi'"]), [ga.filt(name)])))
            ddata = _deep_data(base, dspec)
            for sk, ch in progs:
                sink_name, sink = sk.split("|", 1)
                st = Stmt(f"deep:{sink_name}", _split_sink(sink, ch),
                          {n: [t] for n, t in UNDEF_PARTIAL.items()} if "pu" in sink else None)
                k += 1
                mode = "async" if k % 2 else "sync"
                v = _deep_verdict(eng, st, base, dspec, mode, ddata)
                ctx.count("deep_programs")
                if v["err"]:
                    ctx.count("render_errors")
                    ctx.seen("error_classes", v["err"])
                    continue
                ctx.count("renders_ok")
                if v["flow"]:
                    ctx.count("renders_with_flow")
                    ctx.count("deep_renders_with_flow")
                    ctx.nt("deep", build([st]), shape, depth, leaves, mode)
                    ctx.seen("deep_depths_with_flow", "near-limit" if depth == dmax else
                             ("near-limit-8" if near_limit else depth))
                    ctx.seen("deep_shapes_with_flow", shape)
                    ctx.seen("deep_sinks_with_flow", sink_name)
                    ctx.seen("constructs", st.kind)
                    for n in v["rec"].on_path:
                        ctx.seen("filters", n)
                if v["cls"]:
                    reported += 1
                    if reported <= 10:
                        _deep_report(eng, ctx, st, base, dspec, mode, v)
                    else:
                        culprit = v["rec"].trail[0]["filter"] if v["rec"].trail else "stringify"
                        ctx.violation(f"{v['cls']}:nested-container:{culprit}",
                                      "tainted string inside nested containers reached the "
                                      f"output raw: {_short(v['out'])}",
                                      {"deep": dspec, "main": build([st])[0],
                                       "templates": build([st])[1],
                                       "data": {n: x for n, x in base.items() if n in set(
                                           _WORD.findall(" ".join(build([st])[0:1])
                                                         + " ".join(build([st])[1].values())))},
                                       "mode": mode,
                                       "profile": "std", "catalog": False,
                                       "constructs": [st.kind], "unminimised": True})
    ctx.sample({"kind": "deep", "depths": [str(d) for d in depths], "shapes": DEEP_SHAPES,
                "example": "{{ a }} with a = build_deep(shape, depth, blocks); o = {'items': a}"})


# ---------------------------------------------------------------------------
# environment configurations other than a single default environment
# ---------------------------------------------------------------------------

CONFIG_TEMPLATES = {
    "p": "[{{ x }}{{ x | upcase }}]",
    "q": "{% capture c %}{{ x }}{% endcapture %}({{ c }}{{ ls | join: x }})",
    "base": "b-{% block b %}{{ x }}{% endblock %}-{{ ls }}",
    "child": "{% extends 'base' %}{% block b %}c{{ block.super }}{{ x }}{% endblock %}",
}
CONFIG_SITES = [
    ("get_template", None, "p"),
    ("get_template", None, "q"),
    ("get_template", None, "base"),
    ("get_template", None, "child"),
    ("render", "{% render 'p', x: d0 %}", None),
    ("render", "{% render 'q', x: b2, ls: ls %}", None),
    ("render-for", "{% render 'p' for ls as x %}", None),
    ("include", "{% include 'p', x: d0 %}", None),
    ("include", "{% include 'q', x: b3 %}", None),
    ("extends", "{% extends 'base' %}{% block b %}({{ block.super }}{{ d0 }}){% endblock %}", None),
    ("include-child", "{% assign x = d1 %}{% include 'child' %}", None),
]

def _config_run(eng: Engine, what: str, site: tuple[Any, ...] | None, main: str | None,
                data: dict[str, Any], mode: str, primed: bool, **opt: Any) -> tuple[str | None, str | None]:
    """One configuration sequence on freshly built environments (not the shard's
    shared ones).  Returns (output in the auto-escaping environment, error)."""
    from liquid2 import CachingDictLoader
    from liquid2 import DictLoader
    from liquid2 import Environment

    eng.ctx.ev()
    try:
        if what == "shared-loader":
            lopt = opt.get("loader") or {}
            if opt.get("caching", True):
                loader: Any = CachingDictLoader(
                    dict(CONFIG_TEMPLATES), auto_reload=lopt.get("auto_reload", True),
                    capacity=lopt.get("capacity", 300))
            else:
                loader = DictLoader(dict(CONFIG_TEMPLATES))
            plain = Environment(auto_escape=False, loader=loader)
            esc = Environment(auto_escape=True, loader=loader)
            assert site is not None
            aload = bool(lopt.get("async_load"))
            if primed:
                # the template the site will ask for is loaded last (capacity 1 keeps it)
                target = site[2] or _site_target(site[1])
                order = [n for n in CONFIG_TEMPLATES if n != target] + [target]
                for name in order:
                    pt = (drive(plain.get_template_async(name)) if aload
                          else plain.get_template(name))
                    pt.render(x="hi", ls=["x"])
            if site[1] is None:
                t = drive(esc.get_template_async(site[2])) if aload else esc.get_template(site[2])
            else:
                t = esc.from_string(site[1])
            d = dict(data, x=data["d0"])
        else:
            raise AssertionError(what)
        out = drive(t.render_async(**d)) if mode == "async" else t.render(**d)
    except Exception as e:  # noqa: BLE001
        return None, type(e).__name__
    return out, None


def _site_target(src: str) -> str:
    m = re.search(r"'(\w+)'", src)
    return m.group(1) if m else "p"


LOADER_OPTIONS = [
    {"auto_reload": ar, "capacity": cap, "async_load": al}
    for ar in (True, False) for cap in (300, 1) for al in (False, True)
]


def _config_cls(out: str | None) -> str | None:
    if out is None:
        return None
    raw, amp, _flow = scan(out, "std")
    for ch, nm in CLASSES:
        if raw.get(ch):
            return nm
    # these tiny programs never cut Markup: a raw `&` can only be the data's
    return "raw-amp" if amp else None


def _config(eng: Engine, spec: dict[str, Any], ctx: Ctx) -> None:
    rng = random.Random(f"{spec['seed']}:config")
    k = 0
    for blk in BLOCKS:
        data = gen_data(rng)
        data.update(d0=blk, d1=blk + " " + blk, ls=[blk, blk], b1=blk, b2=blk, b3=blk, b4=blk)
        small = {n: data[n] for n in ("d0", "d1", "b1", "b2", "b3", "b4", "ls")}
        # (a) one caching loader shared by a non-escaping and an escaping environment
        for site, lopt in [(s_, o_) for s_ in CONFIG_SITES for o_ in LOADER_OPTIONS]:
            k += 1
            # async loads of partials happen in async renders
            mode = "async" if (lopt["async_load"] or k % 2) else "sync"
            ctx.count("config_sequences")
            out, err = _config_run(eng, "shared-loader", site, None, small, mode, True,
                                   loader=lopt)
            if out is not None and FLOW_RE.search(out):
                ctx.count("renders_with_flow")
                ctx.count("config_renders_with_flow")
                ctx.nt("config", "shared-loader", site, repr(small), mode, repr(lopt))
                ctx.seen("constructs", f"shared-loader:{site[0]}")
                ctx.seen("loader_options_with_flow",
                         f"auto_reload={lopt['auto_reload']},capacity={lopt['capacity']},"
                         f"async_load={lopt['async_load']}")
            cls = _config_cls(out)
            if cls is None:
                continue
            fresh, _ = _config_run(eng, "shared-loader", site, None, small, mode, False,
                                   loader=lopt)
            plain_loader, _ = _config_run(eng, "shared-loader", site, None, small, mode, True,
                                          caching=False, loader=lopt)
            culprit = ("shared-caching-loader" if _config_cls(fresh) is None
                       and _config_cls(plain_loader) is None else "loader")
            ctx.violation(
                f"{cls}:{culprit}:{site[0]}",
                "a caching loader shared with an auto_escape=False environment hands the "
                f"auto_escape=True environment a non-escaping template: {_short(out)} "
                f"(same sequence without priming: {_short(fresh)})",
                {"config": "shared-loader", "site": list(site), "templates": CONFIG_TEMPLATES,
                 "loader": lopt, "data": small, "mode": mode, "output": out,
                 "output_unprimed": fresh,
                 "output_with_non_caching_loader": plain_loader})
    ctx.sample({"kind": "config", "sites": [s[0] for s in CONFIG_SITES]})


# ---------------------------------------------------------------------------
# history on one environment: untrusted twins of earlier SAFE values
# ---------------------------------------------------------------------------

TWIN_BLOCKS = ["W<K", "W>K", "W&K", "W'K", 'W"K']
# a `&` of the twin data that is not escaped (the twin's text spells entities, so
# `W&lt;K` in the output is the data's own `&` left raw; escaped it is `W&amp;lt;K`)
TWIN_AMP_RE = re.compile(r"W&(?!amp;)", re.I)
HFLOW_RE = re.compile(r"W&(?:amp;)?(?:lt|gt|amp|#39|#34);K", re.I)
HISTORY_SEP = "~~~"

# how a SAFE value with data-derived text comes about (head expression, statements before)
SAFE_PRESTATES = [
    ("escape", "", "w | escape"),
    ("literal+data", "", "'hi ' | append: w"),
    ("capture", "{% capture c %}{{ w }} {{ w2 }}{% endcapture %}", "c"),
    ("markup-data-escaped", "", "mw"),
    ("markup-data-raw", "", "mr"),
    ("url_encode", "", "w | url_encode"),
    ("newline_to_br", "", "wn | newline_to_br"),
    ("strip_html-of-escaped", "", "w | escape | strip_html"),
    ("strip_newlines", "", "wn | strip_newlines"),
    ("translated", "", "'hi %(x)s' | t: x: w"),
    ("joined", "", "wl | join"),
    ("split-of-escaped", "", "w3 | escape | split: ' '"),
    ("upcase-of-escaped", "", "w | escape | upcase"),
]


class _Unsupported(Exception):
    pass


def _plainify(v: Any, depth: int = 0) -> Any:
    """The same value with every Markup replaced by a plain str of equal text."""
    if isinstance(v, str):
        return str.__str__(v) if hasattr(v, "__html__") else v
    if v is None or isinstance(v, (bool, int, float)):
        return v
    if depth > 4:
        raise _Unsupported
    if isinstance(v, (list, tuple)):
        return [_plainify(x, depth + 1) for x in v]
    if isinstance(v, dict):
        return {_plainify(k, depth + 1): _plainify(x, depth + 1) for k, x in v.items()}
    raise _Unsupported


def _realise(d: dict[str, Any]) -> dict[str, Any]:
    from markupsafe import Markup

    return {k: (Markup(v["__markup__"]) if isinstance(v, dict) and "__markup__" in v else v)
            for k, v in d.items()}


def _history_data(rng: random.Random) -> dict[str, Any]:
    from markupsafe import escape

    def tw(lo: int, hi: int, glue: tuple[str, ...] = ("", " ", "-")) -> str:
        x = rng.choice(TWIN_BLOCKS)
        for _ in range(rng.randint(lo, hi) - 1):
            x += rng.choice(glue) + rng.choice(TWIN_BLOCKS)
        return x

    d = gen_data(rng)
    w = tw(1, 2)
    d.update(w=w, w2=tw(1, 2), w3=tw(2, 3, (" ",)), wn=tw(2, 3, ("\n",)),
             wl=[tw(1, 1), tw(1, 2)],
             mw={"__markup__": str.__str__(escape(w))}, mr={"__markup__": w})
    return d


def _twin_program(name: str, call: tuple[Any, tuple[Any, ...], dict[str, Any]]
                  ) -> tuple[str, dict[str, Any]] | None:
    """`{{ p0 | F: p1, …, k: pN }}` with the recorded values as PLAIN data."""
    left, args, kwargs = call
    if not (any_markup(left) or any(any_markup(a) for a in args)
            or any(any_markup(v) for v in kwargs.values())):
        return None
    try:
        data: dict[str, Any] = {"p0": _plainify(left)}
        parts = []
        for i, a in enumerate(args, 1):
            data[f"p{i}"] = _plainify(a)
            parts.append(f"p{i}")
        for j, (k, v) in enumerate(kwargs.items(), len(args) + 1):
            data[f"p{j}"] = _plainify(v)
            parts.append(f"{k}: p{j}")
    except _Unsupported:
        return None
    return "p0 | " + name + (": " + ", ".join(parts) if parts else ""), data


def _history_judge(out: str | None) -> tuple[str | None, int]:
    if out is None:
        return None, 0
    raw, _amp, _flow = scan(out, "std")
    cls = None
    for ch, nm in CLASSES:
        if raw.get(ch):
            cls = nm
            break
    return cls, len(TWIN_AMP_RE.findall(strip_engine_markup(out, "std")))


def _history_case(eng: Engine, name: str, prime_main: str, prime_data: dict[str, Any],
                  expr: str, jdata: dict[str, Any], mode: str, same_template: bool,
                  env_key: str = "std") -> dict[str, Any]:
    """twin before priming, priming, twin after priming — all on ONE environment; and
    the twin alone on an environment that has never seen a safe value (baseline)."""
    if len(expr) % 2:
        jmain = "{{ " + expr + " }}"
    else:
        jmain = "{% capture s %}{{ " + expr + " }}{% endcapture %}[{{ s }}]"
    pd = _realise(prime_data)
    res: dict[str, Any] = {"jmain": jmain}
    base, _e, _r = eng.render(jmain, {}, jdata, mode, "fresh", False)
    res["baseline"] = base
    outs = []
    o, _e, _r = eng.render(jmain, {}, jdata, mode, env_key, False)
    outs.append(("before-priming", o))
    if same_template:
        o, _e, _r = eng.render(prime_main + HISTORY_SEP + jmain, {}, {**pd, **jdata}, mode,
                               env_key, False)
        outs.append(("same-template", o.rsplit(HISTORY_SEP, 1)[1] if o is not None else None))
    else:
        eng.render(prime_main, {}, pd, "sync", env_key, False)
        o, _e, _r = eng.render(jmain, {}, jdata, mode, env_key, False)
        outs.append(("after-priming", o))
    _bc, bt = _history_judge(base)
    res["outs"] = outs
    res["cls"] = None
    for label, o in outs:
        cls, t = _history_judge(o)
        if cls is None and t > bt:
            cls = "raw-amp"
        if cls:
            if label == "before-priming":
                label += " (history left by earlier sequences on this environment)"
            res.update(cls=cls, where=label, out=o,
                       history=_history_judge(base)[0] != cls or cls == "raw-amp")
            break
    return res


def _history(eng: Engine, spec: dict[str, Any], ctx: Ctx) -> None:
    rng = random.Random(f"{spec['seed']}:history:{spec['i']}")
    eng.add_env("scratch")
    g0 = Gen(rng, "std", eng.filter_names["std"])
    ge = Gen(rng, "std", eng.filter_names["std"], urate=1.0)
    ge.uatoms = ["e1", "e2"]
    fnames = [n for n in eng.filter_names["std"] if n in FT]
    k = 0
    sample = None
    for fi, name in enumerate(fnames):
        if fi % spec["n"] != spec["i"]:
            continue
        eng.add_env("fresh")    # never sees a safe value: the baseline for this filter
        cat, _o, alts = FT[name]
        for rep_i in range(spec["reps"]):
            data = _history_data(rng)
            primes: list[tuple[str, str]] = []
            for label, pre, head in SAFE_PRESTATES:
                primes.append((label, pre + "{{ " + head + " | " + g0.filt(name) + " }}"))
            if any(a for a in alts):
                esafe = ("{% assign e1 = w | escape %}{% capture e2 %}{{ w2 }}{% endcapture %}")
                for left in ("d0", "dt", "ls", "w"):
                    primes.append(("safe-argument", esafe + "{{ " + left + " | " + ge.filt(name)
                                   + " }}"))
            for label, pmain in primes:
                k += 1
                mode = "async" if k % 2 else "sync"
                ctx.count("history_sequences")
                words = set(_WORD.findall(pmain))
                pdata = {n: v for n, v in data.items() if n in words}
                _o2, _e2, rec = eng.render(pmain, {}, _realise(pdata), "sync", "scratch", False,
                                           capture=name)
                twins = [t for t in (_twin_program(name, c) for c in rec.calls) if t][:2]
                for expr, jdata in twins:
                    same = (k + len(expr)) % 3 == 0
                    r = _history_case(eng, name, pmain, pdata, expr, jdata, mode, same)
                    ctx.count("history_twins_judged")
                    flow = any(o is not None and HFLOW_RE.search(o) for _l, o in r["outs"])
                    if flow:
                        ctx.count("renders_with_flow")
                        ctx.count("history_twins_with_flow")
                        ctx.nt("history", name, pmain, r["jmain"], repr(jdata), mode, same)
                        ctx.seen("history_filters", name)
                        ctx.seen("history_prestates", label)
                        ctx.seen("filters", name)
                        ctx.seen("constructs", "history:" + ("same-template" if same else "two-templates"))
                        sample = {"kind": "history", "prime": pmain, "twin": r["jmain"],
                                  "twin_data": jdata}
                    if r["cls"]:
                        culprit = f"safe-twin-history:{name}" if r["history"] else name
                        ctx.violation(
                            f"{r['cls']}:{culprit}",
                            f"an untrusted plain string whose text equals a SAFE value that "
                            f"went through `{name}` earlier on the same environment is written "
                            f"unescaped ({r['where']}): {_short(r['out'])} (environment without "
                            f"that history: {_short(r['baseline'])})",
                            {"history": True, "filter": name, "prestate": label,
                             "prime": {"main": pmain, "data": pdata}, "main": r["jmain"],
                             "data": jdata, "mode": mode, "same_template": same,
                             "where": r["where"], "output": r["out"], "baseline": r["baseline"]})
    if sample:
        ctx.sample(sample)


# ---------------------------------------------------------------------------
# translation catalogs as a hostile input
# ---------------------------------------------------------------------------

CATALOG_PROGRAMS = [
    ("translate-tag", "{% translate x: d0 %}hi {{ x }}.{% endtranslate %}"),
    ("translate-tag", "{% translate x: d0, y: d1 %}hi {{ x }} - {{ y }}{% endtranslate %}"),
    ("translate-tag", "{% translate x: d0, context: d1 %}hi {{ x }}{% endtranslate %}"),
    ("translate-tag", "{% translate context: d1 %}hi{% endtranslate %}"),
    ("translate-tag", "{% translate x: d0, count: n2 %}hi {{ x }}{% plural %}his {{ x }} {{ count }}"
                      "{% endtranslate %}"),
    ("translate-tag", "{% translate x: d0, count: d1, context: b1 %}hi {{ x }}{% plural %}his "
                      "{{ x }} {{ count }}{% endtranslate %}"),
    ("translate-tag", "{% capture c %}{% translate x: ls[0], context: d0 %}hi {{ x }}"
                      "{% endtranslate %}{% endcapture %}{{ c }}{{ c | upcase }}"),
    ("translate-tag", "{% for x in ls %}{% translate x: x, y: d1 %}{{ x }}:{{ y }}{% endtranslate %}"
                      "{% endfor %}"),
    ("t", "{{ 'hi %(x)s' | t: x: d0 }}"),
    ("t", "{{ 'hi %(x)s' | t: d1, x: d0 }}"),
    ("t", "{{ 'hi %(x)s' | t: d1, plural: 'his %(x)s', count: n2, x: d0 }}"),
    ("t", "{{ d0 | t }}"), ("t", "{{ d0 | t: d1 }}"), ("t", "{{ d0 | t: x: d1 | upcase }}"),
    ("t", "{{ 'hi %(x)s' | t: x: d0, count: d1, plural: d1 }}"),
    ("gettext", "{{ 'hi %(x)s' | gettext: x: d0 }}"), ("gettext", "{{ d0 | gettext: x: d1 }}"),
    ("ngettext", "{{ 'hi %(x)s' | ngettext: 'his %(x)s', n2, x: d0 }}"),
    ("ngettext", "{{ d0 | ngettext: d1, n1 }}"),
    ("pgettext", "{{ 'hi %(x)s' | pgettext: d1, x: d0 }}"), ("pgettext", "{{ d0 | pgettext: d1 }}"),
    ("npgettext", "{{ 'hi %(x)s' | npgettext: d1, 'his %(x)s', n2, x: d0 }}"),
    ("npgettext", "{{ d0 | npgettext: d1, b1, d1, x: d0 }}"),
    ("t", "{% capture c %}{{ 'hi %(x)s' | t: d1, x: d0 }}{% endcapture %}{{ c }}{{ c | downcase }}"),
]
for _k, _p in CATALOG_PROGRAMS:
    for _lit in re.findall(r"'([^']*)'", _p):
        _clean(_lit)


def _catalog(eng: Engine, spec: dict[str, Any], ctx: Ctx) -> None:
    rng = random.Random(f"{spec['seed']}:catalog")
    k = 0
    for _rep in range(spec["reps"]):
        datasets = []
        for blk in BLOCKS:
            d = gen_data(rng)
            d.update(d0=blk, d1=blk + (" " + blk if _rep else ""), b1=blk, ls=[blk, blk])
            datasets.append(d)
        datasets.append(gen_data(rng))
        for data in datasets:
            small = {n: data[n] for n in ("d0", "d1", "b1", "ls", "n1", "n2")}
            for kind in CATALOGS:
                for site, main in CATALOG_PROGRAMS:
                    k += 1
                    mode = "async" if k % 2 else "sync"
                    ctx.count("catalog_programs")
                    case = {"main": main, "templates": {}, "data": small, "mode": mode,
                            "profile": "std", "catalog": kind, "pre": []}
                    v = eng.verdict(case)
                    if v["err"]:
                        ctx.count("render_errors")
                        ctx.seen("error_classes", v["err"])
                        ctx.seen("catalog_kinds_raising", kind)
                        continue
                    ctx.count("renders_ok")
                    if v["flow"]:
                        ctx.count("renders_with_flow")
                        ctx.count("catalog_renders_with_flow")
                        ctx.nt("catalog", kind, main, repr(small), mode)
                        ctx.seen("catalog_kinds_with_flow", kind)
                        ctx.seen("catalog_sites_with_flow", site)
                        ctx.seen("constructs", "catalog:" + site)
                        for n in v["rec"].on_path:
                            ctx.seen("filters", n)
                    if not v["cls"]:
                        continue
                    ref = eng.verdict(dict(case, catalog="bracket"))
                    culprit = f"catalog[{kind}]" if ref["cls"] != v["cls"] else "catalog[any]"
                    ctx.violation(
                        f"{v['cls']}:{culprit}:{site}",
                        f"data characters reach the output raw through a translation whose "
                        f"catalog behaviour is `{kind}`: {_short(v['out'])} (same program with "
                        f"the plain catalog: {_short(ref['out'])})",
                        dict(case, output=v["out"], counterfactual_output=v["cf_out"],
                             output_with_plain_catalog=ref["out"], constructs=[site],
                             markup_trail=v["rec"].trail))
    ctx.sample({"kind": "catalog", "catalogs": list(CATALOGS), "program": CATALOG_PROGRAMS[2][1]})


# ---------------------------------------------------------------------------
# the data-source axis: where the tainted strings come from
# ---------------------------------------------------------------------------

SOURCES = ["render-args", "env-globals", "template-globals", "overlay", "split",
           "matter-dict", "matter-dict-async", "matter-fs", "matter-fs-async",
           "matter-caching-fs", "matter-caching-dict"]
_FRONT = re.compile(r"\A---\n(.*?)\n---\n", re.S)


def _loader_classes() -> dict[str, Any]:
    """Loaders that return `matter` with the source (the documented extension point):
    a dictionary ("database") loader and a file-system front-matter loader, each also
    with the caching mixin."""
    import json as _json

    from liquid2 import CachingFileSystemLoader
    from liquid2 import CachingLoaderMixin
    from liquid2 import FileSystemLoader
    from liquid2 import TemplateSource
    from liquid2.exceptions import TemplateNotFoundError
    from liquid2.loader import BaseLoader

    class MatterDictLoader(BaseLoader):
        def __init__(self, templates: dict[str, str], matter: dict[str, dict[str, Any]]):
            super().__init__()
            self.templates = templates
            self.matter = matter

        def get_source(self, env: Any, template_name: str, *, context: Any = None,  # noqa: ARG002
                       **kwargs: object) -> Any:  # noqa: ARG002
            try:
                src = self.templates[template_name]
            except KeyError as err:
                raise TemplateNotFoundError(template_name) from err
            return TemplateSource(src, template_name, None, self.matter.get(template_name))

    class CachingMatterDictLoader(CachingLoaderMixin, MatterDictLoader):
        def __init__(self, templates: dict[str, str], matter: dict[str, dict[str, Any]]):
            super().__init__(auto_reload=True, namespace_key="", capacity=300)
            MatterDictLoader.__init__(self, templates, matter)

    def split_front(ts: Any) -> Any:
        source, name, uptodate, matter = ts
        m = _FRONT.match(source)
        if m:
            matter = _json.loads(m.group(1))
            source = source[m.end():]
        return TemplateSource(source, name, uptodate, matter)

    class FrontMatterLoader(FileSystemLoader):
        def get_source(self, env: Any, template_name: str, *, context: Any = None,
                       **kwargs: object) -> Any:
            return split_front(super().get_source(env, template_name, context=context, **kwargs))

        async def get_source_async(self, env: Any, template_name: str, *, context: Any = None,
                                   **kwargs: object) -> Any:
            return split_front(await super().get_source_async(env, template_name,
                                                              context=context, **kwargs))

    class CachingFrontMatterLoader(CachingFileSystemLoader):
        def get_source(self, env: Any, template_name: str, *, context: Any = None,
                       **kwargs: object) -> Any:
            return split_front(super().get_source(env, template_name, context=context, **kwargs))

        async def get_source_async(self, env: Any, template_name: str, *, context: Any = None,
                                   **kwargs: object) -> Any:
            return split_front(await super().get_source_async(env, template_name,
                                                              context=context, **kwargs))

    return {"dict": MatterDictLoader, "caching-dict": CachingMatterDictLoader,
            "fs": FrontMatterLoader, "caching-fs": CachingFrontMatterLoader}


def _source_render(eng: Engine, kind: str, main: str, templates: dict[str, str],
                   data: dict[str, Any], pmatter: dict[str, Any], mode: str, tmpdir: str,
                   loaders: dict[str, Any]) -> tuple[str | None, str | None, Rec]:
    """Render `main` (+ partials) with `data` supplied through the given source, on a
    freshly built auto-escaping environment with wrapped filters."""
    import asyncio
    import json as _json
    import os

    from liquid2 import DictLoader
    from liquid2 import Environment

    rec = Rec()
    eng.box[0] = rec
    eng.ctx.ev()
    all_t = dict(templates, main=main)
    args: dict[str, Any] = {}
    env_globals: dict[str, Any] | None = None
    tpl_globals: dict[str, Any] | None = None
    real_loop = False
    try:
        if kind.startswith("matter"):
            matter = {n: dict(pmatter) for n in templates}
            matter["main"] = data
            if "fs" in kind:
                for fn in os.listdir(tmpdir):
                    os.unlink(os.path.join(tmpdir, fn))
                for n, src in all_t.items():
                    with open(os.path.join(tmpdir, n), "w", encoding="utf-8", newline="") as f:
                        f.write("---\n" + _json.dumps(matter.get(n) or {}) + "\n---\n" + src)
                loader = loaders["caching-fs" if "caching" in kind else "fs"](tmpdir)
                real_loop = True
            else:
                loader = loaders["caching-dict" if "caching" in kind else "dict"](all_t, matter)
        else:
            loader = DictLoader(all_t)
            if kind == "render-args":
                args = data
            elif kind == "env-globals":
                env_globals = data
            elif kind == "template-globals":
                tpl_globals = data
            elif kind == "split":
                names = sorted(data)
                env_globals = {n: data[n] for n in names[0::3]}
                tpl_globals = {n: data[n] for n in names[1::3]}
                args = {n: data[n] for n in names[2::3]}
        env = Environment(auto_escape=True, loader=loader, globals=env_globals)
        for name in list(env.filters):
            env.filters[name] = FilterWrap(name, env.filters[name], eng.box)
        aload = kind.endswith("-async")

        async def go() -> str:
            if kind == "overlay":
                t = env.from_string(main, overlay_data=data)
            elif aload:
                t = await env.get_template_async("main", globals=tpl_globals)
            else:
                t = env.get_template("main", globals=tpl_globals)
            if mode == "async" or aload:
                return await t.render_async(**args)
            return t.render(**args)

        out = asyncio.run(go()) if real_loop else drive(go())
    except Exception as e:  # noqa: BLE001
        return None, type(e).__name__, rec
    return out, None, rec


def _source(eng: Engine, spec: dict[str, Any], ctx: Ctx) -> None:
    import shutil
    import tempfile

    rng = random.Random(f"{spec['seed']}:source:{spec['i']}")
    loaders = _loader_classes()
    tmpdir = tempfile.mkdtemp(prefix="vf-c04-src-")
    g = Gen(rng, "std", eng.filter_names["std"])
    sample = None
    reported = 0
    try:
        for j in range(spec["count"]):
            data = gen_data(rng)
            stmts = [g.stmt(i) for i in range(rng.choice([1, 2, 2, 3]))]
            kind = SOURCES[(j + spec["i"]) % len(SOURCES)]
            mode = "async" if (j // len(SOURCES)) % 2 else "sync"
            pmatter = {"pm": data["d3"], "pl": data["ls2"]}

            def case_of(ss: list[Stmt], kd: str = kind, dd: dict[str, Any] = data,
                        pmm: dict[str, Any] = pmatter, md: str = mode) -> dict[str, Any]:
                main, templates = build(ss)
                # every partial also reads the matter that comes with it
                templates = {n: t + "{{ pm }}{{ pm | upcase }}{{ pl | join: pm }}"
                             if n.startswith("p") else t for n, t in templates.items()}
                return {"source": kd, "main": main, "templates": templates, "data": dd,
                        "partial_matter": pmm, "mode": md}

            def verdict_of(c: dict[str, Any]) -> dict[str, Any]:
                return eng.judge(
                    lambda d, _cf: _source_render(
                        eng, c["source"], c["main"], c["templates"], d,
                        counterfactual(c["partial_matter"]) if _cf else c["partial_matter"],
                        c["mode"], tmpdir, loaders),
                    c["data"])

            case = case_of(stmts)
            v = verdict_of(case)
            ctx.count("source_programs")
            if v["err"]:
                ctx.count("render_errors")
                ctx.seen("error_classes", v["err"])
                continue
            ctx.count("renders_ok")
            if v["flow"]:
                ctx.count("renders_with_flow")
                ctx.count("source_renders_with_flow")
                ctx.nt("source", kind, case["main"], sorted(case["templates"].items()),
                       repr(data), mode)
                ctx.seen("sources_with_flow", kind)
                for st in stmts:
                    ctx.seen("source_constructs", st.kind)
                    ctx.seen("constructs", st.kind)
                for n in v["rec"].on_path:
                    ctx.seen("filters", n)
                if case["templates"] and kind.startswith("matter"):
                    from markupsafe import escape as _esc

                    if str.__str__(_esc(pmatter["pm"])).lower() in (v["out"] or "").lower():
                        ctx.count("partials_with_own_matter")
                sample = {"kind": "source", "source": kind, "main": case["main"]}
            if not v["cls"]:
                continue
            reported += 1
            cls = v["cls"]
            ms = stmts
            if len(stmts) > 1 and reported <= 15:
                ms = ddmin(stmts, lambda ss: verdict_of(case_of(ss))["cls"] == cls, max_calls=12)
            if reported <= 15:
                tries = 0
                for st in ms:
                    for ch in st.chains():
                        if ch.filters and tries < 12:
                            tries += 1
                            saved = ch.filters
                            ch.filters = []
                            if verdict_of(case_of(ms))["cls"] != cls:
                                ch.filters = saved
            mc = case_of(ms)
            mv = verdict_of(mc)
            if mv["cls"] != cls:
                mc, mv, ms = case, v, stmts
            ref = verdict_of(dict(mc, source="render-args"))
            culprit = mv["rec"].trail[0]["filter"] if mv["rec"].trail else "stringify"
            if ref["cls"] != cls:
                key = f"{cls}:data-source[{kind}]:{culprit}"
            else:
                key = classify(mv, ms, "program")
            words = set(_WORD.findall(mc["main"] + " " + " ".join(mc["templates"].values())))
            mc["data"] = {n: x for n, x in mc["data"].items()
                          if n in words or n in ("currency_format", "datetime_format",
                                                 "currency_code")}
            mc.update(output=mv["out"], output_as_render_arguments=ref["out"],
                      constructs=[st.kind for st in ms], markup_trail=mv["rec"].trail)
            ctx.violation(key, f"{cls.replace('raw-', 'raw ')} from tainted data supplied as "
                               f"{kind}: {_short(mv['out'])} (same data as render() arguments: "
                               f"{_short(ref['out'])})", mc)
    finally:
        shutil.rmtree(tmpdir, ignore_errors=True)
    if sample:
        ctx.sample(sample)


# input pre-states for the systematic sweep: (label, statements before, head, br?, type)
def _prestates(t: str) -> list[tuple[str, str, str, bool]]:
    if t == "str":
        return [
            ("plain", "", "d0", False),
            ("escaped", "", "d0 | escape", False),
            ("literal+data", "", "'hi ' | append: d1", False),
            ("captured", "{% capture c %}{{ d0 }} {{ b2 }}{% endcapture %}", "c", False),
            ("joined-default-sep", "", "ls | join", False),
            ("joined-data-sep", "", "ls | join: b2", False),
            ("translated", "", "'hi %(x)s' | t: x: d0", False),
            ("url-encoded", "", "d0 | url_encode", False),
            ("br", "", "nl | newline_to_br", True),
            ("stripped-newlines", "", "nl | strip_newlines", False),
            ("template-string", "", "'c${d0}e'", False),
            ("path", "", "lm[0].k", False),
        ]
    if t == "list":
        return [
            ("list", "", "ls", False),
            ("split-of-escaped", "", "sp | escape | split: ' '", False),
            ("dicts", "", "lm", False),
            ("split-plain", "", "sp | split: ' '", False),
            ("nested", "", "ln", False),
            ("mapping", "", "m", False),
            ("array-literal", "", "d0, b2, d1", False),
        ]
    return [("number", "", "nn", False), ("date", "", "dt", False), ("tainted", "", "d0", False)]


SINKS = [
    ("output", "{{ %s }}"),
    ("output+upcase", "{{ %s | upcase }}"),
    ("capture-refilter", "{%% capture s %%}{{ %s }}{%% endcapture %%}{{ s }}{{ s | downcase }}"),
    ("join-tail", "{%% assign s = %s %%}{{ s | join: b1 }}{{ ls | join: s }}"),
    ("echo", "{%% echo %s %%}"),
]


def _sys(eng: Engine, spec: dict[str, Any], ctx: Ctx) -> None:
    rng = random.Random(f"{spec['seed']}:sys:{spec['i']}")
    last = None
    for profile in ("std", "shopify"):
        g = Gen(rng, profile, eng.filter_names[profile])
        names = [n for n in eng.filter_names[profile] if n in FT]
        if profile == "shopify":
            names = [n for n in names if n.startswith("base64")]
        for fi, name in enumerate(names):
            if fi % spec["n"] != spec["i"]:
                continue
            cat, _out, alts = FT[name]
            for _rep in range(spec["reps"]):
                data = gen_data(rng)
                for ai in range(len(alts)):
                    for label, pre, head, br in _prestates(cat):
                        if br and name not in BR_SAFE:
                            continue
                        for sink_name, sink in SINKS:
                            if br and sink_name == "join-tail":
                                continue
                            # argument pattern ai, kinds resolved at random
                            saved = FT[name]
                            FT[name] = (cat, saved[1], (alts[ai],))
                            try:
                                f = g.filt(name)
                            finally:
                                FT[name] = saved
                            ch = Chain(head, [f], br, cat)
                            st = Stmt(f"sys:{sink_name}", [pre, *_split_sink(sink, ch)])
                            mode = "async" if (ai + len(label)) % 2 else "sync"
                            ctx.count("sys_programs")
                            v = observe(eng, ctx, [st], data, mode, profile, False)
                            ctx.seen("sys_prestates", label)
                            if v["flow"]:
                                last = ([st], mode, profile)
    if last:
        main, templates = build(last[0])
        ctx.sample({"kind": "sys", "main": main, "mode": last[1], "profile": last[2]})


def _split_sink(sink: str, ch: Chain) -> list[Any]:
    a, b = sink.split("%s")
    return [a.replace("%%", "%"), ch, b.replace("%%", "%")]


# ---------------------------------------------------------------------------
# date filter cache sequences
# ---------------------------------------------------------------------------


def _date_sequences(rng: random.Random) -> list[dict[str, Any]]:
    """Each sequence: `prime` is rendered first (its output is not judged; it is the only
    place where a literal may spell a sentinel block), then `main` — whose literals obey
    the alphabet discipline — is judged.  `lookalike` sequences use a data string that
    spells an entity, so for them a raw `&` is one not followed by `amp;`."""
    seqs = []
    for dat, dv in (("dt", "2001-02-05"), ("dt", "now"), ("ts", 981331200), ("dt", "today")):
        for blk in BLOCKS:
            if blk == "Z'Q":
                lit = '"' + blk + ' %Y"'
            else:
                lit = "'" + blk + " %Y'"
            fmt = blk + " %Y"
            seqs.append({
                "label": "literal-format-then-tainted-format",
                "prime": {"main": f"{{{{ {dat} | date: {lit} }}}}", "data": {dat: dv}},
                "main": f"[{{{{ {dat} | date: f }}}}]", "data": {dat: dv, "f": fmt},
                "lookalike": False,
            })
            esc = {"Z<Q": "Z&lt;Q", "Z>Q": "Z&gt;Q", "Z&Q": "Z&amp;Q", "Z'Q": "Z&#39;Q",
                   'Z"Q': "Z&#34;Q"}[blk]
            seqs.append({
                "label": "escaped-markup-format-then-lookalike-data-format",
                "prime": {"main": f"{{% assign e = x | escape | append: ' %d' %}}{{{{ {dat} | date: e }}}}",
                          "data": {dat: dv, "x": blk}},
                "main": f"[{{{{ {dat} | date: f }}}}]", "data": {dat: dv, "f": esc + " %d"},
                "lookalike": True,
            })
            seqs.append({
                "label": "same-template-markup-then-lookalike",
                "prime": None,
                "main": f"{{% assign e = x | escape | append: ' %d' %}}{{{{ {dat} | date: e }}}}:"
                        f"{{{{ {dat} | date: f | upcase }}}}",
                "data": {dat: dv, "x": blk, "f": esc + " %d"},
                "lookalike": True,
            })
    rng.shuffle(seqs)
    return seqs


LOOKALIKE_AMP = re.compile(r"&(?!amp;)", re.I)


def _judge_date(eng: Engine, seq: dict[str, Any], mode: str, primed: bool) -> tuple[str | None, str | None]:
    eng.date_cache_clear()
    if primed and seq["prime"]:
        eng.render(seq["prime"]["main"], {}, seq["prime"]["data"], "sync", "std", False)
    out, err, _rec = eng.render(seq["main"], {}, seq["data"], mode, "std", False)
    if out is None:
        return None, None
    if seq["lookalike"]:
        # data has `&` as its only significant character: every `&` must be `&amp;`.
        # In the same-template form the first output is the escaped Markup itself;
        # only the part after ':' is from the lookalike data.
        judged = out.split(":", 1)[1] if seq["prime"] is None else out
        cls = "raw-amp" if LOOKALIKE_AMP.search(judged) else None
        return cls, out
    raw, _amp, _flow = scan(out, "std")
    for ch, nm in CLASSES:
        if raw.get(ch):
            return nm, out
    if _amp:
        return "raw-amp", out  # data is the only source of `&` in these tiny programs
    return None, out


def _datecache(eng: Engine, spec: dict[str, Any], ctx: Ctx) -> None:
    rng = random.Random(f"{spec['seed']}:datecache")
    for k, seq in enumerate(_date_sequences(rng)):
        mode = "async" if k % 2 else "sync"
        ctx.count("datecache_sequences")
        cls, out = _judge_date(eng, seq, mode, primed=True)
        if out is not None and (ENT_RE.search(out) or cls):
            ctx.count("renders_with_flow")
            ctx.nt("datecache", seq["label"], seq["main"], repr(seq["data"]), mode)
            ctx.seen("filters", "date")
            ctx.seen("constructs", "date-cache-sequence")
        if cls is None:
            continue
        base_cls, base_out = _judge_date(eng, seq, mode, primed=False) if seq["prime"] else (cls, out)
        culprit = "date" if base_cls == cls and seq["prime"] else "date-lru-cache"
        if seq["prime"] is None:
            # same template: history is inside the template; decide by clearing the
            # cache between the two outputs being impossible -> compare with a render of
            # the second half alone
            alone = "{{ " + seq["main"].split(":{{ ", 1)[1]
            eng.date_cache_clear()
            o2, _e, _r = eng.render(alone, {}, seq["data"], mode, "std", False)
            culprit = "date" if (o2 is not None and LOOKALIKE_AMP.search(o2)) else "date-lru-cache"
            base_out = o2
        eng.date_cache_clear()
        wit = {"datecache": True, "label": seq["label"], "prime": seq["prime"],
               "main": seq["main"], "data": seq["data"], "lookalike": seq["lookalike"],
               "mode": mode, "output_after_priming": out, "output_with_clean_cache": base_out}
        ctx.violation(
            f"{cls}:{culprit}",
            f"date filter result for a plain (tainted) format string comes back as Markup: "
            f"{_short(out)} (clean cache: {_short(base_out)})", wit)
    eng.date_cache_clear()
    ctx.sample({"kind": "datecache", "sequence": _date_sequences(random.Random(0))[0]})


# ---------------------------------------------------------------------------
# replay
# ---------------------------------------------------------------------------


def replay(wit: dict[str, Any], ctx: Ctx) -> None:
    eng = Engine(ctx)
    if wit.get("config"):
        mode = wit.get("mode", "sync")
        print(f"replay C04 configuration sequence [{wit['config']}]")
        if wit["config"] == "shared-loader":
            site = tuple(wit["site"])
            lo = wit.get("loader") or {}
            out, err = _config_run(eng, "shared-loader", site, None, wit["data"], mode, True,
                                   loader=lo)
            fresh, _ = _config_run(eng, "shared-loader", site, None, wit["data"], mode, False,
                                   loader=lo)
            print(f"  loader options: {lo}")
            print(f"  site {site}; escaping env output after priming: {out!r} (error {err});"
                  f" unprimed: {fresh!r}")
            cls = _config_cls(out)
            if cls:
                culprit = "shared-caching-loader" if _config_cls(fresh) is None else "loader"
                ctx.violation(f"{cls}:{culprit}:{site[0]}", f"reproduced: {_short(out)}", wit)
        return
    if wit.get("source"):
        import shutil
        import tempfile

        tmpdir = tempfile.mkdtemp(prefix="vf-c04-src-")
        try:
            loaders = _loader_classes()

            def vd(kind: str) -> dict[str, Any]:
                return eng.judge(
                    lambda d, _cf: _source_render(
                        eng, kind, wit["main"], wit.get("templates") or {}, d,
                        counterfactual(wit.get("partial_matter") or {}) if _cf
                        else (wit.get("partial_matter") or {}),
                        wit.get("mode", "sync"), tmpdir, loaders), wit["data"])

            v = vd(wit["source"])
            ref = vd("render-args")
        finally:
            shutil.rmtree(tmpdir, ignore_errors=True)
        print(f"replay C04 data source = {wit['source']}")
        print(f"  main : {wit['main']!r}")
        for n, t in (wit.get("templates") or {}).items():
            print(f"  template {n}: {t!r} (+ matter {wit.get('partial_matter')!r})")
        print(f"  data : {wit['data']!r}")
        print(f"  output: {v['out']!r} error={v['err']} -> {v['cls']}")
        print(f"  same data as render() arguments: {ref['out']!r} -> {ref['cls']}")
        if v["cls"]:
            culprit = v["rec"].trail[0]["filter"] if v["rec"].trail else "stringify"
            key = (f"{v['cls']}:data-source[{wit['source']}]:{culprit}" if ref["cls"] != v["cls"]
                   else f"{v['cls']}:" + "+".join(sorted(set(wit.get("constructs") or ["program"]))))
            ctx.violation(key, f"reproduced: {_short(v['out'])}", wit)
        return
    if wit.get("history"):
        eng.add_env("fresh")
        expr = wit["main"]
        r = None
        for same in ([True] if wit.get("same_template") else [False]):
            # re-run the exact twin program (its sink is part of wit["main"])
            pd = _realise(wit["prime"]["data"])
            base, _e, _r = eng.render(expr, {}, wit["data"], wit.get("mode", "sync"), "fresh", False)
            if same:
                o, _e, _r = eng.render(wit["prime"]["main"] + HISTORY_SEP + expr, {},
                                       {**pd, **wit["data"]}, wit.get("mode", "sync"), "std", False)
                o = o.rsplit(HISTORY_SEP, 1)[1] if o is not None else None
            else:
                eng.render(wit["prime"]["main"], {}, pd, "sync", "std", False)
                o, _e, _r = eng.render(expr, {}, wit["data"], wit.get("mode", "sync"), "std", False)
            cls, t = _history_judge(o)
            bcls, bt = _history_judge(base)
            if cls is None and t > bt:
                cls = "raw-amp"
            r = (cls, o, base, bcls)
        print(f"replay C04 history: filter {wit['filter']}, safe value via {wit.get('prestate')}")
        print(f"  prime : {wit['prime']['main']!r}  data={wit['prime']['data']!r}")
        print(f"  twin  : {expr!r}  data={wit['data']!r}")
        print(f"  output after the safe value was seen: {r[1]!r} -> {r[0]}")
        print(f"  output on an environment without that history: {r[2]!r}")
        if r[0]:
            hist = r[3] != r[0] or r[0] == "raw-amp"
            culprit = f"safe-twin-history:{wit['filter']}" if hist else wit["filter"]
            ctx.violation(f"{r[0]}:{culprit}", f"reproduced: {_short(r[1])}", wit)
        return
    if wit.get("deep"):
        sp = wit["deep"]
        case = {"main": wit["main"], "templates": wit.get("templates") or {},
                "data": _deep_data(wit.get("data") or {}, sp),
                "cf_data": _deep_data(wit.get("data") or {}, sp, cf=True),
                "mode": wit.get("mode", "sync"), "profile": "std", "catalog": False, "pre": []}
        v = eng.verdict(case)
        print(f"replay C04 nested containers: shape={sp['shape']} depth={sp['depth']} "
              f"leaves={sp['leaves']}")
        print(f"  main   : {wit['main']!r}")
        print(f"  output : {_short(v['out'])}  error={v['err']}")
        print(f"  filters that produced raw Markup: {v['rec'].trail}")
        print(f"  verdict: {v['cls']}")
        if v["cls"]:
            culprit = v["rec"].trail[0]["filter"] if v["rec"].trail else "stringify"
            ctx.violation(f"{v['cls']}:nested-container:{culprit}",
                          f"reproduced: {_short(v['out'])}", wit)
        return
    if wit.get("datecache"):
        seq = {"prime": wit.get("prime"), "main": wit["main"], "data": wit["data"],
               "lookalike": wit.get("lookalike", False), "label": wit.get("label")}
        cls, out = _judge_date(eng, seq, wit.get("mode", "sync"), primed=True)
        bcls, bout = _judge_date(eng, seq, wit.get("mode", "sync"), primed=False)
        print(f"replay C04 datecache [{seq['label']}]")
        if seq["prime"]:
            print(f"  prime : {seq['prime']['main']}  data={seq['prime']['data']}")
        print(f"  main  : {seq['main']}  data={seq['data']}")
        print(f"  output after priming  : {out!r} -> {cls}")
        print(f"  output, clean cache   : {bout!r} -> {bcls}")
        if cls:
            culprit = "date" if (bcls == cls and seq["prime"]) else "date-lru-cache"
            if seq["prime"] is None:
                alone = "{{ " + seq["main"].split(":{{ ", 1)[1]
                eng.date_cache_clear()
                o2, _e, _r = eng.render(alone, {}, seq["data"], wit.get("mode", "sync"), "std", False)
                culprit = "date" if (o2 is not None and LOOKALIKE_AMP.search(o2)) else "date-lru-cache"
            ctx.violation(
                f"{cls}:{culprit}",
                f"date filter result for a plain (tainted) format string comes back as Markup: "
                f"{_short(out)} (clean cache: {_short(bout)})", wit)
        return
    case = {k: wit.get(k) for k in ("main", "templates", "data", "mode", "profile", "catalog", "pre")}
    case["profile"] = case["profile"] or "std"
    case["mode"] = case["mode"] or "sync"
    v = eng.verdict(case)
    print("replay C04")
    print(f"  main      : {case['main']!r}")
    for n, s in (case.get("templates") or {}).items():
        print(f"  template {n}: {s!r}")
    print(f"  data      : {case['data']!r}")
    print(f"  mode/profile/catalog: {case['mode']}/{case['profile']}/{bool(case['catalog'])}"
          f"  undefined policy: {policy_of(case['profile'])}")
    print(f"  output    : {v['out']!r}  error={v['err']}")
    if v["out"] is not None:
        raw, amp, flow = scan(v["out"], case["profile"])
        print(f"  raw significant characters outside engine markup: {raw}; raw-& candidates: {amp};"
              f" data flowed: {flow}")
    if v["cf_out"] is not None:
        print(f"  counterfactual (&-><) output: {v['cf_out']!r}")
    print(f"  filters that produced raw Markup: {v['rec'].trail}")
    print(f"  filters returning Markup for plain tainted input: {v['rec'].markup_from_plain}")
    print(f"  verdict   : {v['cls']}")
    if v["cls"]:
        kinds = wit.get("constructs") or ["program"]
        key = (f"{v['cls']}:{v['rec'].trail[0]['filter']}" if v["rec"].trail
               else f"{v['cls']}:" + "+".join(sorted(set(kinds))))
        if "output_with_plain_catalog" in wit:
            ref = eng.verdict(dict(case, catalog="bracket"))
            culprit = (f"catalog[{case['catalog']}]" if ref["cls"] != v["cls"]
                       else "catalog[any]")
            key = f"{v['cls']}:{culprit}:{kinds[0]}"
        ctx.violation(key, f"{v['cls'].replace('raw-', 'raw ')} from tainted data in the output of "
                           f"an auto-escaping render: {_short(v['out'])}", wit)
