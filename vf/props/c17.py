"""C17 — tokens tile the source; every reported position lies inside it.

Monitor: structural invariants asserted on the token list returned by the real
lexer (`Environment.tokenize`), on every token reachable from the syntax tree
(`Environment.parse`) and on the token carried by every LiquidError raised while
parsing / rendering.
"""

from __future__ import annotations

import random
from typing import Any
from typing import Iterator

from ..core import Ctx
from ..gen import corpus
from ..minimize import ddmin

ID = "C17"
LEVEL = "exploration"
RULE = (
    "sources = compliance-corpus templates, their prefixes / single-character deletions / "
    "substitutions (sampled), programs from the shared typed grammar emitted in noisy layouts, the same templates with comments of the three kinds, raw "
    "blocks and unicode whitespace inserted at top-level token boundaries, and random "
    "concatenations of markup fragments (outputs, tags, liquid tags, comments, raw, text "
    "with unicode line separators). distinct = hash of source; non-trivial = the lexer "
    "produced >= 3 top-level tokens, or raised an error carrying a position."
)
ASSUMPTIONS = [
    "a position equal to len(source) (end of input) counts as inside the source; -1 on an "
    "error token is the library's 'no position' sentinel and is not a position",
    "span convention of nested string tokens (start after the opening quote) is not "
    "constrained beyond nesting and order, which is all the statement requires",
]


def _env():
    from liquid2 import DictLoader
    from liquid2 import Environment

    return Environment, DictLoader


# ---------------------------------------------------------------------------
# invariants
# ---------------------------------------------------------------------------


def _expr_tokens(tok) -> Iterator[Any]:  # noqa: ANN001
    """Direct sub-tokens of a token (expression items, nested paths, …)."""
    from liquid2.token import LinesToken
    from liquid2.token import OutputToken
    from liquid2.token import PathToken
    from liquid2.token import RangeToken
    from liquid2.token import TagToken
    from liquid2.token import TemplateStringToken

    if isinstance(tok, (OutputToken, TagToken)):
        yield from tok.expression
    elif isinstance(tok, LinesToken):
        yield from tok.statements
    elif isinstance(tok, PathToken):
        for seg in tok.path:
            if isinstance(seg, PathToken):
                yield seg
    elif isinstance(tok, RangeToken):
        yield tok.range_start
        yield tok.range_stop
    elif isinstance(tok, TemplateStringToken):
        yield from tok.template


def check_tiling(src: str, toks: list[Any]) -> tuple[str, str] | None:
    """T1: top-level tokens partition the source."""
    pos = 0
    prev = "START"
    for t in toks:
        if t.start != pos:
            return (f"tiling:after-{prev}",
                    f"{type(t).__name__} starts at {t.start}, previous token ended at {pos}")
        if t.stop < t.start:
            return (f"tiling:negative-span-{type(t).__name__}", f"{t.start}..{t.stop}")
        pos = t.stop
        prev = type(t).__name__
    if pos != len(src):
        return (f"tiling:end-after-{prev}", f"last stop {pos} != len {len(src)}")
    return None


def _sig(t) -> tuple:  # noqa: ANN001
    """Position-free signature of a top-level token."""
    d = [type(t).__name__, t.type_.name]
    for a in ("text", "name", "wc", "hashes"):
        if hasattr(t, a):
            d.append((a, str(getattr(t, a))))
    if hasattr(t, "expression"):
        d.append(tuple((type(e).__name__, e.type_.name, str(e)) for e in t.expression))
    if hasattr(t, "statements"):
        d.append(tuple(_sig(s) for s in t.statements))
    return tuple(d)


def check_retokenize(env, src: str, toks: list[Any]) -> tuple[str, str] | None:  # noqa: ANN001
    """T2: each token's span is precisely the text it was scanned from."""
    from liquid2.exceptions import LiquidError

    for t in toks:
        if not (0 <= t.start <= t.stop <= len(src)):
            continue  # reported by tiling
        piece = src[t.start : t.stop]
        try:
            again = env.tokenize(piece)
        except LiquidError as e:
            return (f"span-text:{type(t).__name__}:does-not-relex",
                    f"{piece!r} -> {type(e).__name__}")
        if type(t).__name__ == "ContentToken":
            # text alone at end of input may be scanned as several content tokens
            # ('$' also matches before a final newline); together they must be the text
            ok = all(type(a).__name__ == "ContentToken" for a in again) and \
                "".join(a.text for a in again) == t.text == piece
            if not ok:
                return ("span-text:ContentToken:relexes-differently",
                        f"{piece!r} -> {[type(a).__name__ for a in again]}")
            continue
        if len(again) != 1 or _sig(again[0]) != _sig(t):
            return (f"span-text:{type(t).__name__}:relexes-differently",
                    f"{piece!r} -> {[type(a).__name__ for a in again]}")
    return None


def _relex_path(env, piece: str):  # noqa: ANN001, ANN202
    """The expression tokens obtained by scanning *piece* alone as an output expression."""
    from liquid2.exceptions import LiquidError

    try:
        toks = env.tokenize("{{ " + piece + " }}")
    except LiquidError as e:
        return type(e).__name__
    if len(toks) != 1 or not hasattr(toks[0], "expression"):
        return [type(t).__name__ for t in toks]
    return [(type(e).__name__, str(e)) for e in toks[0].expression]


def _relex_statement(env, piece: str):  # noqa: ANN001, ANN202
    """The signature of the statement obtained by scanning *piece* as the one line of a liquid tag."""
    from liquid2.exceptions import LiquidError

    try:
        toks = env.tokenize("{% liquid\n" + piece + "\n%}")
    except LiquidError as e:
        return type(e).__name__
    if len(toks) != 1 or not hasattr(toks[0], "statements"):
        return [type(t).__name__ for t in toks]
    sts = [x for x in toks[0].statements]
    if len(sts) != 1:
        return [type(x).__name__ for x in sts]
    return _sig(sts[0])


def check_nesting(src: str, tok, lo: int, hi: int, where: str, env=None) -> tuple[str, str] | None:  # noqa: ANN001
    """T3: sub-tokens nest inside their parent's span, in order."""
    last = lo
    for e in _expr_tokens(tok):
        cls = type(e).__name__
        s, p = e.start, e.stop
        if not (0 <= s <= p <= len(src)):
            return (f"expr-span:{cls}:outside-source@{where}", f"{s}..{p} len={len(src)}")
        if s < lo or p > hi:
            return (f"expr-span:{cls}:outside-parent@{where}", f"{s}..{p} not in {lo}..{hi}")
        if s < last:
            return (f"expr-span:{cls}:out-of-order@{where}", f"starts {s} before {last}")
        last = p
        # simple tokens: the span text is the token's value
        if cls == "Token" and src[s:p] != e.value:
            return (f"expr-span:Token:{e.type_.name}:text-mismatch@{where}",
                    f"{src[s:p]!r} != {e.value!r}")
        # paths and ranges start and end with their own characters, not with the white space
        # around them
        if cls in ("PathToken", "RangeToken") and src[s:p] != src[s:p].strip(" \t\r\n"):
            return (f"expr-span:{cls}:includes-surrounding-whitespace@{where}",
                    f"{src[s:p]!r} ({s}..{p})")
        # a line statement of a liquid tag spans its own text: that text alone, as the only
        # line of a liquid tag, scans to the same statement
        if cls == "TagToken" and where == "LinesToken" and env is not None:
            again = _relex_statement(env, src[s:p])
            if again != _sig(e):
                return ("expr-span:line-statement:relexes-differently",
                        f"{src[s:p]!r} ({s}..{p}) scanned alone gives {again!r}, the statement is {_sig(e)!r}")
        # a path's span is precisely the text it was scanned from: alone, that text
        # scans to the same path
        if cls == "PathToken" and env is not None:
            again = _relex_path(env, src[s:p])
            # (a one-word path scans as a WORD token when it stands alone: compare the text)
            # (and a keyword followed by a dot is a path root - `and.x` - but a keyword alone)
            one_word = len(e.path) == 1 and e.path[0] == src[s:p]
            if one_word and again == [("Token", src[s:p])]:
                pass
            elif not isinstance(again, list) or [x[1] for x in again if isinstance(x, tuple)] != [str(e)]:
                return (f"expr-span:PathToken:relexes-differently@{where}",
                        f"{src[s:p]!r} scanned alone gives {again!r}, the token is {str(e)!r}")
        r = check_nesting(src, e, s, p, cls, env)
        if r:
            return r
    return None


def _walk_nodes(nodes) -> Iterator[Any]:  # noqa: ANN001
    """Every token reachable from a syntax tree (nodes + expressions)."""
    stack = list(nodes)
    seen = 0
    while stack and seen < 20000:
        n = stack.pop()
        seen += 1
        tok = getattr(n, "token", None)
        if tok is not None:
            yield type(n).__name__, tok
        for attr in ("nodes", "block", "default", "alternatives", "whens", "blocks"):
            v = getattr(n, attr, None)
            if v is None:
                continue
            if isinstance(v, (list, tuple)):
                stack.extend(x for x in v if hasattr(x, "token"))
            elif hasattr(v, "token"):
                stack.append(v)
        try:
            exprs = list(n.expressions()) if hasattr(n, "expressions") else []
        except Exception:  # noqa: BLE001
            exprs = []
        for e in exprs:
            stack.append(e)
        if hasattr(n, "children") and not hasattr(n, "expressions"):
            try:
                stack.extend(n.children())
            except Exception:  # noqa: BLE001
                pass


def check_positions_in(src_by_id: dict[int, str], name: str, tok) -> tuple[str, str] | None:  # noqa: ANN001
    src = getattr(tok, "source", None)
    if not isinstance(src, str):
        return None
    s, p = tok.start, tok.stop
    cls = type(tok).__name__
    if s == -1 and cls in ("Token", "ErrorToken") and getattr(tok, "type_", None) is not None \
            and tok.type_.name in ("EOI", "ERROR"):
        return None  # sentinel: no position
    if not (0 <= s <= len(src)):
        return (f"position:{cls}:start-outside@{name}", f"start={s} len={len(src)}")
    if not (s <= p <= len(src)):
        return (f"position:{cls}:stop-outside@{name}", f"start={s} stop={p} len={len(src)}")
    return None


_LINE_BREAKS = "\n\r\x0b\x0c\x1c\x1d\x1e\x85\u2028\u2029"


def _line_count(prefix: str) -> int:
    """Number of complete lines in *prefix* (which ends at a line start), str.splitlines rules."""
    return len(prefix.splitlines())


def check_error(err) -> tuple[str, str] | None:  # noqa: ANN001
    """T5: an error's position lies in its token's source and context() describes it."""
    tok = err.token
    if tok is None:
        return None
    src = getattr(tok, "source", None)
    if not isinstance(src, str):
        return None
    s = tok.start
    if type(tok).__name__ == "ErrorToken":
        # a lexer error token spans exactly the text it is about
        val = getattr(tok, "value", "")
        if val and not (0 <= tok.start <= tok.stop <= len(src) and src[tok.start : tok.stop] == val):
            return ("error-position:ErrorToken:span-is-not-its-text",
                    f"span {tok.start}..{tok.stop} holds {src[max(tok.start, 0) : max(tok.stop, 0)]!r}, the token's text is {val!r}")
        ms, me = getattr(tok, "markup_start", None), getattr(tok, "markup_stop", None)
        if isinstance(ms, int) and isinstance(me, int) and ms >= 0 and tok.start >= 0 and not (ms <= tok.start <= max(me, ms)):
            return ("error-position:ErrorToken:outside-its-markup",
                    f"error at {tok.start}, the markup being scanned spans {ms}..{me}")
    # an error that names the kind of token it found points at a token of that kind
    import re as _re

    m = _re.search(r"\bfound ([A-Z][A-Z_]+)\b", str(getattr(err, "message", "") or ""))
    ty = getattr(getattr(tok, "type_", None), "name", None)
    if m and ty and m.group(1) != ty and type(tok).__name__ in ("Token", "PathToken", "RangeToken", "TemplateStringToken"):
        return ("error-position:points-at-another-token-than-it-names",
                f"message says found {m.group(1)}, the error's token is {ty} {src[max(tok.start, 0) : max(tok.stop, 0)][:30]!r}")
    # ... an error about an escape sequence found while scanning points at the escape
    if str(getattr(err, "message", "") or "") == "invalid escape sequence" and type(tok).__name__ == "ErrorToken" \
            and 0 <= tok.start <= len(src) and "\\" not in src[max(0, tok.start - 1) : tok.start + 1]:
        return ("error-position:escape-error-not-at-the-escape",
                f"'invalid escape sequence' at {tok.start}: {src[max(0, tok.start - 3) : tok.start + 3]!r} has no backslash there")
    # ... and an error about a named tag points at markup that contains that name
    m2 = _re.fullmatch(r"unexpected '(break|continue)'", str(getattr(err, "message", "") or ""))
    if m2 and 0 <= tok.start <= tok.stop <= len(src) and m2.group(1) not in src[tok.start : tok.stop].split("%}")[0]:
        return ("error-position:points-at-another-tag-than-it-names",
                f"message says unexpected {m2.group(1)!r}, the error's token is {src[tok.start : tok.stop][:40]!r}")
    if s < 0:
        return None  # sentinel, error carries no position
    if s > len(src):
        return (f"error-position:{type(tok).__name__}:beyond-source", f"{s} > {len(src)}")
    try:
        c = err.context()
    except Exception as e:  # noqa: BLE001
        return (f"error-position:context-raises-{type(e).__name__}", str(e))
    if c is None:
        return None
    lineno, col, _prev, current, _next = c
    # the text at (line, col) must be the text at offset s
    k = 0
    while s + k < len(src) and src[s + k] not in "\r\n\x0b\x0c\x1c\x1d\x1e\x85  " and k < 40:
        k += 1
    expect = src[s : s + k].rstrip()
    got = current[col : col + len(expect)]
    if got != expect:
        return ("error-position:context-text-mismatch",
                f"line {lineno} col {col}: {got!r} != {expect!r}")
    # the column counts from the start of the line the offset is on: the text before the
    # column is the source text before the offset, and that line starts right there
    # (this also decides an error at the very end of input, where no text follows)
    if col < 0 or col > s:
        return ("error-position:column-outside-line", f"line {lineno} col {col} for offset {s}")
    before = src[s - col : s]
    if s == len(src):
        # end of input after a final line break is reported as the end of the last line
        for nl in ("\r\n", *_LINE_BREAKS):
            if before.endswith(nl):
                before = before[: -len(nl)]
                break
    shown = current[:col]  # (the reported line has its trailing whitespace removed)
    if not before.startswith(shown) or before[len(shown):].strip() or any(ch in before for ch in _LINE_BREAKS):
        return ("error-position:column-text-mismatch",
                f"line {lineno} col {col}: text before the column {current[:col]!r} != source before offset {before!r}")
    if s - col > 0 and src[s - col - 1] not in _LINE_BREAKS:
        return ("error-position:column-not-from-line-start",
                f"line {lineno} col {col} for offset {s}: the line does not start at offset {s - col} "
                f"({src[max(0, s - col - 12) : s - col]!r} precedes it)")
    if lineno != _line_count(src[: s - col]) + 1:
        return ("error-position:line-number-mismatch",
                f"line {lineno} reported for offset {s}, which is on line {_line_count(src[: s - col]) + 1}")
    return None


def check_error_source(err, src: str) -> tuple[str, str] | None:  # noqa: ANN001
    """T5c: an error raised while scanning or parsing a source is positioned in THAT source (not
    in a text that happened to be parsed earlier in the process)."""
    tok = getattr(err, "token", None)
    tsrc = getattr(tok, "source", None)
    if tok is None or not isinstance(tsrc, str) or getattr(tok, "start", -1) < 0:
        return None
    if tsrc != src:
        return ("error-position:token-of-another-source",
                f"{type(err).__name__} {str(getattr(err, 'message', ''))[:60]!r}: its token (at {tok.start}) belongs to a text of "
                f"{len(tsrc)} characters that is not the {len(src)}-character source being parsed: {tsrc[:40]!r}")
    return None


def check_error_template(err, root_src: str, templates: dict[str, str]) -> tuple[str, str] | None:  # noqa: ANN001
    """T5b: the template an error names is the template its position is in (line and column are
    read against the named template's text)."""
    tok = getattr(err, "token", None)
    tsrc = getattr(tok, "source", None)
    name = getattr(err, "template_name", None)
    if tok is None or not isinstance(tsrc, str) or getattr(tok, "start", -1) < 0:
        return None
    named = templates.get(str(name)) if name else None
    if named is None:
        named = root_src if not name or str(name) in ("", "<string>") else None
    if named is None or named == tsrc:
        return None
    if tsrc == root_src and root_src not in templates.values():
        # the root of these renders is an anonymous template (from_string): an error in its text
        # has no name to carry, and the engine falls back to the template being rendered
        return None
    where = next((n for n, t in templates.items() if t == tsrc), "<root>" if tsrc == root_src else "?")
    return ("error-position:names-another-template-than-its-token-is-in",
            f"{type(err).__name__} names template {name!r} but its token lies in the text of {where!r}")


class Runner:
    def __init__(self, ctx: Ctx, shorthand: bool = False):
        from liquid2.exceptions import LiquidError

        self.ctx = ctx
        self.Environment, self.DictLoader = _env()
        if shorthand:
            class ShorthandEnvironment(self.Environment):  # type: ignore[name-defined,misc]
                shorthand_indexes = True

            self.Environment = ShorthandEnvironment
        self.shorthand = shorthand
        self.LiquidError = LiquidError
        self.env = self.Environment()
        self._envs: dict[int, Any] = {}

    def env_for(self, templates: dict[str, str]):
        if not templates:
            return self.env
        k = id(templates)
        e = self._envs.get(k)
        if e is None or e[1] is not templates:
            if len(self._envs) > 32:
                self._envs.clear()
            e = (self.Environment(loader=self.DictLoader(templates)), templates)
            self._envs[k] = e
        return e[0]

    def decide(self, src: str, data: dict[str, Any], templates: dict[str, str],
               render: bool) -> tuple[str, str] | None:
        """All invariants for one source. Returns (key, what) of the first failure."""
        ctx = self.ctx
        env = self.env_for(templates)
        toks = None
        try:
            toks = env.tokenize(src)
        except self.LiquidError as e:
            ctx.count("lex_errors")
            r = check_error(e) or check_error_source(e, src)
            ctx.count("error_positions_checked")
            if r:
                return r
        except Exception:  # noqa: BLE001
            ctx.count("non_liquid_error_escapes_c02")
            return None
        if toks is not None:
            ctx.count("sources_tiled")
            r = check_tiling(src, toks)
            if r:
                return r
            r = check_retokenize(env, src, toks)
            if r:
                return r
            for t in toks:
                r = check_nesting(src, t, t.start, t.stop, type(t).__name__, env)
                ctx.count("expr_tokens_checked", sum(1 for _ in _expr_tokens(t)))
                if r:
                    return r
            # parse: node and expression tokens, errors
            try:
                nodes = env.parse(src)
            except self.LiquidError as e:
                ctx.count("parse_errors")
                ctx.count("error_positions_checked")
                return check_error(e) or check_error_source(e, src)
            except Exception:  # noqa: BLE001
                ctx.count("non_liquid_error_escapes_c02")
                return None
            n = 0
            for name, tok in _walk_nodes(nodes):
                n += 1
                r = check_positions_in({}, name, tok)
                if r:
                    return r
                for sub in _expr_tokens(tok):
                    r = check_positions_in({}, name, sub)
                    if r:
                        return r
            ctx.count("node_tokens_checked", n)
            if render:
                try:
                    env.from_string(src).render(**data)
                except self.LiquidError as e:
                    ctx.count("render_errors")
                    ctx.count("error_positions_checked")
                    return check_error(e) or check_error_template(e, src, templates)
                except Exception:  # noqa: BLE001
                    ctx.count("non_liquid_error_escapes_c02")
        return None

    def run(self, src: str, data: dict[str, Any] | None = None,
            templates: dict[str, str] | None = None, render: bool = True) -> str | None:
        ctx = self.ctx
        data = data or {}
        templates = templates or {}
        ctx.ev()
        r = self.decide(src, data, templates, render)
        ntok = 0
        try:
            ntok = len(self.env.tokenize(src)) if r is None else 3
        except Exception:  # noqa: BLE001
            ntok = 3
        if ntok >= 3:
            ctx.nt(src)
        if r is None:
            return None
        key, what = r
        wit_src = src
        if key not in ctx.violations and len(src) < 3000:
            sub = Runner.__new__(Runner)
            sub.__dict__.update(self.__dict__)
            sub.ctx = Ctx("C17", ctx.tier, ctx.seed)
            small = ddmin(
                list(src),
                lambda cs: (lambda rr: rr is not None and rr[0] == key)(
                    sub.decide("".join(cs), data, templates, render)),
                max_calls=250,
            )
            wit_src = "".join(small)
        ctx.violation(key, what, {"source": wit_src, "data": data, "templates": templates,
                                  "render": render, "shorthand_indexes": self.shorthand,
                                  "from": src if wit_src != src else None})
        return key


# ---------------------------------------------------------------------------
# workloads
# ---------------------------------------------------------------------------

WS = [" ", "\t", "\n", "\r\n", "\r", "  ", "\n\n", " ", "\x85", " ", " ", "\x0b", "\x0c",
      "　", "﻿", "é", "日本", "😀", "}", "{", "%", "#", "'", '"',
      # names and text in decomposed / compatibility forms (NFC or NFKC would rewrite them)
      "e\u0301", "A\u030a", "\u2126", "\u212b", "\ufb01", "m\u00b2", "\u1e9b\u0323", "\uff21"]
COMMENTS = ["{# c #}", "{#- c -#}", "{## a # b ##}", "{#\n multi\n line\n#}", "{% # inline %}",
            "{%- # x\n  # y -%}", "{% comment %}c{% endcomment %}", "{%- comment -%} {{ x }} {%- endcomment -%}",
            "{% comment %}{% raw %}{% endcomment %}{% endraw %}{% endcomment %}", "{#~ c +#}", "{###  ###}",
            "{% raw %}{{ r }}{% endraw %}", "{%- raw -%} {% x %} {%- endraw -%}", "{% raw %}{% endraw %}"]
FRAGS = [
    "{{ a }}", "{{- a.b[0]['k k'][c.d] | f: 1, 'x' -}}", "{{ 'a${b}c' | upcase }}", '{{ "x" }}',
    "{% assign x = (1..y.z) | join: ', ' %}", "{% if a and (b or not c) %}", "{% endif %}", "{% else %}",
    "{% for i in (1..3) limit: 2 offset: continue reversed %}", "{% endfor %}", "{% echo a | default: 'q', allow_false: true %}",
    "{% liquid\n  assign a = 1\n  # note\n  echo a\n%}", "{% liquid %}", "{%- liquid echo 'x'\n echo 'y' -%}",
    "{% liquid\ncomment\nfoo\nendcomment\necho 1 %}",
    "{% cycle 'a', 'b' %}", "{% increment n %}", "{% case x %}{% when 1, 2 or 3 %}", "{% endcase %}",
    "{{ a if b else c || upcase }}", "{{ a | map: i => i.x }}", "{{ x | where: (i, j) => i.k == j }}",
    "{% include 'p' with a as b, k: v %}", "{% render 'p' for xs as x %}", "{{ 1.5e3 }}{{ -7 }}{{ 1e-2 }}",
    "{{ a[-1] }}", "{{ a[ 'x' ] . b }}", "{{ nil }}{{ true }}{{ empty }}", "{% with a: 1, b: 'two' %}{% endwith %}",
    "{{ 'é😀\\u00e9\\n' }}", "{{ a <> b }}{{ a >= b }}", "{{ a.1 }}", "{{ a.b.0.c[1].2 | f: x.0 }}", "{% if a[b.1].0 == c.2 %}",
    "{% for i in a.0 limit: b.1 %}", "{{ a[0].1['k'].2 }}",
    "{{ cafe\u0301 }}", "{% assign e\u0301te\u0301 = cafe\u0301.cre\u0300me | fi\u0301ltre: cle\u0301: 1 %}",
    # loop interrupts where there is no loop, nested in other blocks
    "{% break %}", "{% continue %}",
    # expressions that end too early (errors at end of input), next to unclosed blocks
    "{% assign x = %}", "{{ a | }}", "{% for x in %}", "{{ a | f: }}", "{% if a == %}", "{% if a %}", "{% for i in a %}x", "{% capture c %}",
    # invalid escapes that are not the first character of their string segment
    "{{ 'ab\\qcd' }}", "{{ \"x\n  yz\\q\" }}", "{{ a['k\\q'] }}", "{{ 'a${b}cd\\q' }}", "{% assign s = \"two\nlines \\z\" %}",
    "{{ a[\"kk\\w\"].b }}", "{% liquid echo 'abc\\y' %}", "{{ 'x' | append: 'pq\\k' }}",
    # white space inside brackets, around every kind of selector
    "{{ a[ b ] }}", "{{ a[b.c  ].d }}", "{{ a[b[c] ] }}", "{{ a[ 'k' ] }}{{ a[ 1 ] }}{{ a[\t-1\n] }}", "{% liquid echo a[ b ] %}",
    "{{ (a[ b ]..3) }}", "{{ '${a[ b ]}' }}", "{% for i in a[ b.c ] limit: x[ y ] %}", "{{ a[ b ][ c ] | f: d[ e ] }}", "{{ ( 1 .. a[b] ) }}",
    # the last statement of a liquid tag closed on the same line, ending in every kind of token
    "{% liquid echo 'a' %}", "{% liquid assign x = '' %}", "{%- liquid echo \"b\" -%}", "{% liquid echo a\n echo 'x${y}' %}",
    "{% liquid echo 1.5 %}", "{% liquid echo (1..3) %}", "{% liquid echo a[b] %}", "{% liquid echo a | f: 'z'%}", "{% liquid if a == 'q' %}{% endif %}",
    "{% liquid echo 'a'\t%}", "{% liquid\necho 'a'\n  echo \"b\" ~%}", "{% liquid cycle 'a', 'b' %}",
    "{{ \u2126.\u212b['\ufb01'] }}", "{% for e\u0301 in \uff21\uff22 %}", "{{ x | map: e\u0301 => e\u0301.m\u00b2 }}", "{% translate %}Hi{% plural %}His{% endtranslate %}",
]


RENDER_ERRORS = [
    "{% if true %}\n  {% break %}\n{% endif %}", "{% with q: 1 %}{% continue %}{% endwith %}", "{% break %}",
    "{% unless false %}x{% case 1 %}{% when 1 %}\n{% continue %}{% endcase %}{% endunless %}",
    "{% render 'p' %}", "{% for i in xs %}{% render 'q' %}{% endfor %}", "{% capture c %}\n {% break %}{% endcapture %}",
    "{% liquid\nif true\n  break\nendif %}", "{% macro m %}a{% endmacro %}{% call m %}\n{% if 1 %}{% continue %}{% endif %}",
    "{% include 'ib' %}", "x\n{% include 'ib' %}", "{% if 1 %}{% include 'ic' %}{% endif %}", "{% for i in xs %}{% render 'ie' %}{% endfor %}",
    "{% include 'ie' %}", "{% extends 'mid' %}", "{% render 'leafy' %}", "{% include 'nest1' %}",
    "{{ 1 | divided_by: 0 }}", "a\n{{ nosuch | nofilter }}", "{% if 1 %}\n{{ 'x' | plus: }}{% endif %}", "{% include 'missing' %}",
    "{% for i in (1..2) %}\n {% include nosuch %}{% endfor %}", "{% assign x = 1 | modulo: 0 %}", "{{ xs | sort: 'k' | map: }}",
]


def _frag_source(rng: random.Random) -> str:
    n = rng.randint(1, 9)
    parts = []
    for _ in range(n):
        r = rng.random()
        if r < 0.45:
            parts.append(rng.choice(FRAGS))
        elif r < 0.7:
            parts.append(rng.choice(COMMENTS))
        else:
            parts.append("".join(rng.choice(WS + ["text", "x", "Hello, "]) for _ in range(rng.randint(1, 4))))
    return "".join(parts)


def _insertions(r: Runner, rng: random.Random, src: str, k: int) -> Iterator[str]:
    """Insert comments / raw / whitespace at top-level token boundaries (keeps validity)."""
    try:
        toks = r.env.tokenize(src)
    except Exception:  # noqa: BLE001
        return
    bounds = sorted({0, len(src)} | {t.stop for t in toks if 0 <= t.stop <= len(src)})
    for _ in range(k):
        out = src
        for b in sorted(rng.sample(bounds, min(len(bounds), rng.randint(1, 3))), reverse=True):
            ins = rng.choice(COMMENTS) if rng.random() < 0.75 else rng.choice(WS[:14])
            out = out[:b] + ins + out[b:]
        yield out


# ---------------------------------------------------------------------------
# derived positions: line numbers of extracted translation messages
# ---------------------------------------------------------------------------

_NL = ["\n", "\n  ", "\r\n", "\n\n\t", " ", "  ", ""]


def _msg_source(rng: random.Random) -> tuple[str, dict[str, str]]:
    """A source whose translatable literals are unique; returns (source, {message: 'filter'|'tag'})."""
    kinds: dict[str, str] = {}
    n = [0]

    def lit() -> tuple[str, str]:
        n[0] += 1
        m = f"msg{n[0]}x"
        q = rng.choice("'\"")
        return m, f"{q}{m}{q}"

    def gap() -> str:
        return rng.choice(_NL) or " "

    def filtered() -> str:
        m, l = lit()
        kinds[m] = "filter"
        f = rng.choice(["t", "gettext", "ngettext", "pgettext", "npgettext", "t-ctx"])
        if f in ("t", "gettext"):
            tail = f"|{gap()}{f}"
        elif f == "t-ctx":
            tail = f"|{gap()}t:{gap()}'ctx',{gap()}k: u"
        elif f == "ngettext":
            tail = f"|{gap()}ngettext:{gap()}'{m}s',{gap()}n"
        elif f == "pgettext":
            tail = f"|{gap()}pgettext:{gap()}'ctx'"
        else:
            tail = f"|{gap()}npgettext:{gap()}'ctx',{gap()}'{m}s',{gap()}n"
        if rng.random() < 0.3:
            tail += f"{gap()}|{gap()}upcase"
        return f"{l}{gap()}{tail}"

    def stmt(depth: int = 0) -> str:
        k = rng.randrange(9 if depth < 2 else 6)
        if k == 0:
            return "{{" + gap() + filtered() + gap() + "}}"
        if k == 1:
            return "{%" + gap() + "assign v" + str(rng.randrange(4)) + gap() + "=" + gap() + filtered() + gap() + "%}"
        if k == 2:
            return "{%" + gap() + "echo" + gap() + filtered() + gap() + "%}"
        if k == 3:
            lines = []
            for _ in range(rng.randint(1, 3)):
                lines.append(rng.choice(["echo ", "assign w = "]) + filtered().replace("\r\n", " ").replace("\n", " "))
                if rng.random() < 0.3:
                    lines.append("# note")
            return "{% liquid" + "\n" + "\n".join("  " + x for x in lines) + "\n%}"
        if k == 4:
            m, _l = lit()
            kinds[m] = "tag"
            args = rng.choice(["", f"{gap()}a: 1", f"{gap()}context: 'c',{gap()}b: u"])
            return "{%" + gap() + "translate" + args + gap() + "%}" + gap() + m + gap() + "{% endtranslate %}"
        if k == 5:
            inner = filtered()
            kinds[f"msg{n[0]}x"] = "nested"
            return "{{" + gap() + "u" + gap() + "|" + gap() + "default:" + gap() + '"a ${' + gap().replace("\r\n", " ") + inner + ' } b"' + gap() + "}}"
        body = "".join(rng.choice(["text\n", " ", "\n"]) + stmt(depth + 1) for _ in range(rng.randint(1, 2)))
        if k == 6:
            return "{%" + gap() + "if u %}" + body + "{% else %}" + stmt(depth + 1) + "{% endif %}"
        if k == 7:
            return "{% for i in (1..2) %}" + body + "{%" + gap() + "endfor" + gap() + "%}"
        return "{% case u %}{% when 1 %}" + body + "{% endcase %}"

    parts = []
    for _ in range(rng.randint(1, 5)):
        parts.append(rng.choice(["", "lead\n", "\n\n", "x\r\n", "{# c\n c #}\n"]))
        parts.append(stmt())
    return "".join(parts), kinds


def check_message_lines(env, src: str, kinds: dict[str, str]) -> tuple[tuple[str, str] | None, int]:  # noqa: ANN001
    """Every extracted message's lineno is the line of its literal (filters) or of its tag."""
    from liquid2.messages import extract_from_template

    t = env.from_string(src)
    lines = src.splitlines(keepends=True)
    starts = [0]
    for ln in lines:
        starts.append(starts[-1] + len(ln))

    def line_of(off: int) -> int:
        for i in range(len(lines)):
            if off < starts[i + 1]:
                return i + 1
        return len(lines)

    seen = 0
    for m in extract_from_template(t):
        seen += 1
        msg = m.message
        parts = [x for x in msg if isinstance(x, str)]
        ident = next((x.strip() for x in parts if x.strip() in kinds), None)
        if not (1 <= m.lineno <= max(len(lines), 1)):
            return ("message-lineno:outside-source", f"lineno {m.lineno} of message {msg!r} is outside the {len(lines)} lines of the source"), seen
        if ident is None:
            continue
        off = src.find(ident)
        if kinds[ident] == "filter":
            want = line_of(off)
            if m.lineno != want:
                return (f"message-lineno:{m.funcname}-filter:not-the-line-of-its-literal",
                        f"message {ident!r} extracted with lineno {m.lineno} but its literal is on line {want}"), seen
        elif kinds[ident] == "nested":
            # a filter inside a template string that is itself a filter argument: the
            # message belongs to the enclosing output statement; any line from the
            # statement's start to the literal describes it
            lo, hi = line_of(src.rfind("{{", 0, off)), line_of(off)
            if not (lo <= m.lineno <= hi):
                return (f"message-lineno:{m.funcname}-filter:outside-its-statement",
                        f"message {ident!r} extracted with lineno {m.lineno} but its statement spans lines {lo}-{hi}"), seen
        else:
            tag = src.rfind("{%", 0, src.rfind("translate", 0, off))
            want = line_of(tag)
            if m.lineno != want:
                return ("message-lineno:translate-tag:not-the-line-of-its-tag",
                        f"message {ident!r} extracted with lineno {m.lineno} but its tag starts on line {want}"), seen
    return None, seen


def shards(tier: str, seed: int) -> list[dict[str, Any]]:
    n = 8 if tier == "quick" else 32
    specs = [{"kind": "corpus", "i": i, "n": n} for i in range(n)]
    m = 4 if tier == "quick" else 16
    specs += [{"kind": "frags", "i": i, "n": m} for i in range(m)]
    specs += [{"kind": "gen", "i": i, "n": m, "per": 400 if tier == "quick" else 6000} for i in range(m)]
    specs += [{"kind": "messages", "i": i, "n": 2, "per": 1500 if tier == "quick" else 30000} for i in range(2)]
    return specs


def floors(tier: str) -> dict[str, int]:
    k = 1 if tier == "quick" else 10
    return {
        "sources_tiled": 5000 * k,
        "expr_tokens_checked": 50000 * k,
        "error_positions_checked": 2000 * k,
        "node_tokens_checked": 20000 * k,
        "message_linenos_checked": 5000 * k,
        "shorthand_index_sources": 5000 * k,
        "undefined_position_pairs_with_error": 300 * k,
    }


def run_shard(spec: dict[str, Any], ctx: Ctx) -> None:
    r = Runner(ctx)
    rs = Runner(ctx, shorthand=True)  # same workloads under shorthand_indexes = True
    tier = spec["tier"]
    rng = random.Random(f"{spec['seed']}:{spec['kind']}:{spec['i']}")
    if spec["kind"] == "corpus":
        rate = 0.08 if tier == "quick" else 0.6
        last = ""
        for ci, c in enumerate(corpus.cases()):
            if ci % spec["n"] != spec["i"]:
                continue
            src, data, tpls = c["template"], c["data"], c["templates"]
            r.run(src, data, tpls)
            rs.run(src, data, tpls, render=False)
            for s2 in _insertions(r, rng, src, 6 if tier == "quick" else 30):
                last = s2
                r.run(s2, data, tpls)
            for name, psrc in tpls.items():
                r.run(psrc, data, tpls, render=False)
                # errors raised inside partials carry the partial's source
                for s2 in _insertions(r, rng, psrc, 2):
                    t2 = dict(tpls)
                    t2[name] = s2
                    r.run(src, data, t2)
            for gen in (corpus.prefixes, corpus.deletions, corpus.substitutions):
                for _lbl, m in gen(src):
                    if rng.random() < rate:
                        r.run(m, data, tpls, render=rng.random() < 0.3)
        ctx.sample({"kind": "corpus+insertions", "source": last})
    elif spec["kind"] == "gen":
        # programs from the shared typed grammar in noisy layouts (whitespace inside markup,
        # markers, comments, liquid tags, unicode whitespace in text), with their partials
        from ..gen import emit as E
        from ..gen.programs import Gen
        from ..gen.programs import Profile

        src = ""
        for _ in range(spec["per"]):
            g = Gen(random.Random(rng.random()), Profile(unicode_ws=True))
            prog = g.program()
            em = E.emit(prog, E.Layout(random.Random(rng.random()), p_marker=0.3, noisy_ws=True, alt_forms=True,
                                       comments=True))
            src = em.source
            data = g.data()
            r.run(src, data, em.partials, render=True)
            for psrc in em.partials.values():
                r.run(psrc, {}, em.partials, render=False)
            if rng.random() < 0.3 and src:
                i = rng.randrange(len(src))
                r.run(src[:i], data, em.partials, render=False)
        ctx.sample({"kind": "generated", "source": src})
    elif spec["kind"] == "messages":
        src = ""
        for _ in range(spec["per"]):
            src, kinds = _msg_source(rng)
            _run_messages(r, src, kinds)
        ctx.sample({"kind": "messages", "source": src})
    else:
        n = 2500 if tier == "quick" else 25000
        s = ""
        for _ in range(n):
            s = _frag_source(rng)
            r.run(s, {}, {}, render=False)
            rs.run(s, {}, {}, render=False)
            ctx.count("shorthand_index_sources")
        for _ in range(6 if tier == "quick" else 60):
            _undefined_positions(r, rng, ctx)
        # complete templates whose ERRORS are raised while rendering
        tpls = {"p": "x\n{% if true %}{% break %}{% endif %}", "q": "{% unless a %}\n\t{% continue %}{% endunless %}",
                "ib": "\n\n  {% break %}", "ic": "line1\nline2\n{% if true %}\n {% continue %}{% endif %}",
                "ie": "a\nb\n{{ 1 | divided_by: 0 }}", "base4": "l1\nl2\nl3\n{% block x required %}{% endblock %}",
                "mid": "{% extends 'base4' %}\n{% block y %}{% endblock %}", "leafy": "{% extends 'mid' %}",
                "nest1": "n\n{% include 'nest2' %}", "nest2": "\n\n\n{% include 'nosuchpartial' %}"}
        for body in RENDER_ERRORS:
            for pre in ("", "text\n", "{# c #}\r\n  ", "{% assign z = 1 %}\n\n"):
                r.run(pre + body, {"xs": [1, 2]}, tpls, render=True)
                ctx.count("render_error_sources")
        # ... and inheritance chains whose templates are all NAMED, failing inside overriding blocks
        chain = dict(tpls)
        chain.update({
            "kid": "{% extends 'base4' %}{% block x %}\n\n{{ 1 | divided_by: 0 }}{% endblock %}",
            "kid2": "{% extends 'base5' %}{% block x %}k{% endblock %}{% block z %}\n{% include 'nosuch' %}{% endblock %}",
            "base5": "l1\n{% block x %}{% endblock %}{% block z %}{% endblock %}",
            "kid3": "{% extends 'mid2' %}{% block x %}{{ block.super }}{% endblock %}",
            "mid2": "{% extends 'base5' %}\n\n{% block x %}{{ nosuch | nofilter }}{% endblock %}",
            "kid4": "{% extends 'base5' %}{% block x %}\n {% break %}{% endblock %}",
            "kid5": "{% extends 'base5' %}{% block z %}\n\n{% render 'ie' %}{% endblock %}",
        })
        for name in ("kid", "kid2", "kid3", "kid4", "kid5", "leafy"):
            for tag in ("include", "render"):
                r.run("top\n{% " + tag + " '" + name + "' %}", {"xs": [1]}, chain, render=True)
                ctx.count("render_error_sources")
        ctx.sample({"kind": "fragments", "source": s})


TOLERATED = [
    "{{ N | default: 'd' }}", "{% assign z = N | default: 1 %}", "{{ N.p.q | default: 'd' }}", "{% if N %}t{% endif %}",
    "{% unless N %}u{% endunless %}", "{{ 'a' if N else 'b' }}", "{% case N %}{% when 1 %}w{% endcase %}",
    "{% for i in N %}{{ i }}{% endfor %}", "{{ N | default: N2 | default: 'e' }}",
]
FAILING = ["{{ N }}", "{{ N.p }}", "{{ N | upcase }}", "{% echo N %}", "{{ 'x' | append: N }}", "{% assign y = N | plus: 1 %}",
           "{% if N == 1 %}e{% endif %}", "{{ N[0] }}", "{% liquid\n  echo N\n%}"]
MISSING_NAMES = ["nosuch", "absent", "ghosty", "wraith"]  # all six characters long


def _undefined_positions(r: Runner, rng: random.Random, ctx: Ctx) -> None:
    """Where a strict undefined error points must not depend on which OTHER missing name an earlier,
    tolerated construct used: a template whose tolerated part reads the same missing name as the
    failing part raises at the same place (class, offset, line, column, token text) as the twin
    whose tolerated part reads another missing name of the same length."""
    from liquid2 import FalsyStrictUndefined
    from liquid2 import StrictUndefined

    pads = ["", " ", "\n", "\n\n  ", "text {# c #}\n", "\r\n\t"]
    for _ in range(60):
        und = rng.choice([StrictUndefined, FalsyStrictUndefined])
        n_tol = rng.randint(1, 3)
        tol = [rng.choice(TOLERATED) for _ in range(n_tol)]
        fail = rng.choice(FAILING)
        name = rng.choice(MISSING_NAMES)
        other = rng.choice([n for n in MISSING_NAMES if n != name])
        third = next(n for n in MISSING_NAMES if n not in (name, other))
        partial = rng.random() < 0.3

        def build(tname: str) -> tuple[str, dict[str, str]]:
            head = "".join(t.replace("N2", third).replace("N", tname) + rng_pad for t, rng_pad in zip(tol, pad_seq))
            f = fail.replace("N", name)
            heads.append(len(head))
            if partial:
                return head + "{% include 'part' %}", {"part": "\n " + f}
            return head + f, {}

        pad_seq = [rng.choice(pads) for _ in tol]
        heads: list[int] = []
        results = []
        for tname in (name, other):
            src, tpls = build(tname)
            env = r.Environment(loader=r.DictLoader(tpls), undefined=und)
            try:
                env.from_string(src).render()
                results.append(("ok",))
            except r.LiquidError as e:
                tok = e.token
                c = None
                try:
                    c = e.context()
                except Exception:  # noqa: BLE001
                    pass
                tsrc = getattr(tok, "source", "") or ""
                results.append((type(e).__name__, getattr(tok, "start", None), tsrc[getattr(tok, "start", 0) : getattr(tok, "stop", 0)],
                                (c[0], c[1]) if c else None, e.template_name))
                bad = check_error(e)
                if bad:
                    ctx.violation(bad[0], bad[1], {"source": src, "templates": tpls, "render": True, "undefined": und.__name__})
            except Exception:  # noqa: BLE001
                results.append(("exc",))
        ctx.ev(2)
        ctx.count("undefined_position_pairs")
        in_head = any(len(x) > 1 and not partial and isinstance(x[1], int) and x[1] < heads[0] for x in results) or \
            any(len(x) > 4 and partial and x[4] != "part" for x in results)
        if in_head:
            # the construct meant to be tolerated raised under this policy: nothing to compare
            ctx.count("undefined_position_pairs_tolerated_part_raised")
        elif results[0] != results[1] and results[0][0] != "ok" and results[1][0] != "ok":
            src, tpls = build(name)
            ctx.violation("error-position:undefined-error-depends-on-an-earlier-tolerated-use",
                          f"tolerated part reads the same missing name: {results[0]!r}; reads another missing name: {results[1]!r}",
                          {"source": src, "templates": tpls, "render": True, "undefined": und.__name__, "twin_name": other})
        elif results[0][0] != "ok":
            ctx.count("undefined_position_pairs_with_error")


def _run_messages(r: Runner, src: str, kinds: dict[str, str]) -> str | None:
    ctx = r.ctx
    ctx.ev()
    try:
        res, seen = check_message_lines(r.env, src, kinds)
    except r.LiquidError as e:
        ctx.count("message_sources_rejected")
        res, seen = check_error(e), 0
    ctx.count("message_linenos_checked", seen)
    if seen:
        ctx.nt("msg", src)
    if res is None:
        return None
    key, what = res
    ctx.violation(key, what, {"source": src, "message_kinds": kinds})
    return key


def replay(wit: dict[str, Any], ctx: Ctx) -> None:
    r = Runner(ctx, shorthand=bool(wit.get("shorthand_indexes")))
    if "message_kinds" in wit:
        print(f"replay C17: key={_run_messages(r, wit['source'], wit['message_kinds'])}")
        return
    src = wit["source"]
    key = r.run(src, wit.get("data") or {}, wit.get("templates") or {}, wit.get("render", True))
    print(f"replay C17: key={key}")
    try:
        for t in r.env.tokenize(src):
            print("  ", type(t).__name__, t.start, t.stop, repr(src[t.start : t.stop]))
    except Exception as e:  # noqa: BLE001
        print("  tokenize raised", type(e).__name__, e)
