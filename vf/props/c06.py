"""C06 — configured resource limits are hard bounds.

Every decision is taken on observed executions of the real engine: the unrestricted
render of a generated program gives its actual consumption (output bytes, loop-body
executions per dynamic loop nest, namespace size after every assignment, capture-buffer
bytes); the same program is then rendered under environment subclasses whose limits sit
at consumption-1 / consumption / consumption+1 (and a few other values) while monitors
attached to the engine's classes (vf/c06_mon.py) watch every node render, every write to
a limited buffer, every assignment and every context copy.
"""

from __future__ import annotations

import random
import re
import sys
from typing import Any

from .. import c06_gen as G
from .. import c06_mon as MN
from ..core import Ctx
from ..instr.sched import drive
from ..instr.steps import StepBudgetExceeded
from ..instr.steps import StepCounter

ID = "C06"
LEVEL = "exploration"
RULE = (
    "programs: (a) purpose-built loop-nest / assign-heavy / text-heavy programs (for, tablerow, "
    "render, render-for, include, include-for, include-with-a-list, macro/call, extends/block with "
    "block.super, captures, assign-only blank blocks, break/continue, CR / CRLF / multi-byte text; "
    "loop nests of depth <= 4 spanning up to 4 partials), (a') loops left early: break / continue "
    "(conditional on the item, the outer variable or data) executed inside partials rendered by include-for / "
    "include-with-a-list / plain include / a second include level, from inside capture / with / case / if / "
    "block / tablerow / for, nested in an enclosing for or tablerow and followed on the same context by "
    "the rest of the iteration, later outer iterations, sibling nests sized close to the program's largest "
    "product of lengths, tablerow, partials included / rendered afterwards and macros, "
    "(a'') nests whose inner loop length depends on the outer iteration (n: i, n: forloop.index, (1..i), "
    "n | times: k, data sliced by limit: i, partial reached only on late iterations) across render, render-for, "
    "call, overridden block, block.super, include, include-for; out-profile text and data also draw lone "
    "surrogates, astral characters, combining marks, NUL and U+FFFF (bytes counted with surrogatepass), "
    "(a3) per-item inner lengths under render-for / include-for / tablerow / for with the longest item first, "
    "middle or last; locals spread over inheritance layers and nested blocks; names rebound many times inside "
    "loops with nil / false / empty / small / large values and captures in every order (directly, in included and "
    "rendered partials, macros, blocks); nests crossing both a carrying boundary and an inheritance boundary in "
    "either order; limits swept below the measured consumption and close above it, "
    "(b) programs of the shared grammar-directed "
    "generator, (c) cyclic graphs of <= 4 templates over include / render / extends / macro / block / "
    "capture / for / tablerow edges, (d) acyclic partial chains of depth 1..7. Each program is "
    "rendered unrestricted, with every limit far above consumption (sync and async), and under "
    "single limits L in {0, |U|-1, |U|, |U|+1, P-1, P, P+1, random} (output bytes |U|, capture peak P), "
    "{C-1, C, C+1, M-1, M, M+1, random} (loop nest count C, product of lengths M), {N-1, N, N+1, random} "
    "(namespace peak N), and all context depth limits 0..T+3 around the observed threshold T. "
    "distinct = hash of (templates, data, limit kind, limit value, mode); non-trivial = the limit is "
    "within +-1 of the measured consumption or the render hit a limit."
)
ASSUMPTIONS = [
    "the unrestricted render (all limits None, default context depth) defines the program's "
    "consumption and reference output; programs whose unrestricted render fails are skipped, so are "
    "programs producing more than 60 kB of output / local values (text doubling in loops)",
    "namespace size is the documented measure: sum of sys.getsizeof(value) over local values of "
    "every live context on the parent chain (computed by the monitor, not read from the engine)",
    "a loop nest is a chain of dynamically nested loop constructs identified by template source "
    "and token offset, including the call sites between them; sibling loops and different call "
    "sites are different nests (never merged); the `else` branch of a loop is outside the loop",
    "'must succeed' for loops is demanded when L >= M, the largest product of the DECLARED lengths of "
    "dynamically nested loop activations in the unrestricted run (the engine documents counting by "
    "declared lengths up front); the declared length of an activation is the argument of the engine's "
    "own raise_for_loop_limit call on entry (hooked), never less than the bodies actually run, so the "
    "rule also covers loops left early by break / continue; L in {M, M+1, 3M} must give the "
    "unrestricted output; for output only when L >= the peak over buffers of bytes "
    "written plus the bytes of the parent buffer at creation (what get_output_buffer carries)",
    "the statement bounds the *returned* output; for capture buffers only the engine's own one-level "
    "carry is checked (bytes written <= limit - parent bytes at creation). Renders in which the bytes "
    "along the real buffer chain (nested captures, capture under a blank block whose parent is a "
    "NullIO) pass the limit while every buffer stays within its allowance are counted as an "
    "observation (obs_buffer_chain_past_limit_renders), not as violations",
    "loop_iteration_limit / local_namespace_limit == 0 is probed separately (kind 'zero')",
    "context depth: copy depth and nested extensions of one context must stay <= limit + 1 (the engine "
    "compares with '>' against counters starting at 0 / 4); thresholds are located by scanning all "
    "limits 0..4*depth+12 and must be monotone",
    "step budget 3e6 function activations per render (6e5 for cyclic graphs); termination of cyclic "
    "graphs is judged in worker processes where the engine's classes are NOT wrapped, under CPython's "
    "default recursion limit (1000) and context_depth_limit <= 31 (default 30); about 10 harness "
    "frames sit below the render",
]

STEP_BUDGET = 3_000_000
HEAVY_BYTES = 60_000
HEAVY_STEPS = 600_000
HUGE = {"out": 10**9, "loop": 10**9, "ns": 10**15}
ATTR = {
    "out": "output_stream_limit",
    "loop": "loop_iteration_limit",
    "ns": "local_namespace_limit",
    "depth": "context_depth_limit",
}
ERR_FOR = {
    "out": "OutputStreamLimitError",
    "loop": "LoopIterationLimitError",
    "ns": "LocalNamespaceLimitError",
    "depth": "ContextDepthError",
}
_BREAK = re.compile(r"\bbreak\b")


class Res:
    __slots__ = ("status", "out", "err", "msg", "mon", "steps")

    def __init__(self) -> None:
        self.status = "ok"
        self.out: str | None = None
        self.err = ""
        self.msg = ""
        self.mon: MN.Mon | None = None
        self.steps = 0

    def view(self) -> dict[str, Any]:
        m = self.mon
        d: dict[str, Any] = {"status": self.status, "error": self.err, "output": self.out}
        if m is not None:
            d.update(body_execs=m.body_execs, max_chain=m.max_chain, chain=list(m.max_chain_kinds),
                     ns_peak=m.ns_peak, assigns=m.assigns, capture_buffers=m.capture_buffers,
                     peak_bytes=m.peak_visible, max_partial_depth=m.max_partial_depth,
                     writes=sum(b.nwrites for b in m.buf_order))
        return d


class Runner:
    def __init__(self, ctx: Ctx, monitor: bool = True):
        from liquid2 import DictLoader
        from liquid2.exceptions import LiquidError
        from liquid2.shopify import Environment

        # monitor=False: the engine's classes are left untouched in this process, so the
        # Python stack holds exactly the engine's own frames (termination oracle)
        self.monitor = monitor
        if monitor:
            MN.install()
        self.ctx = ctx
        self.DictLoader = DictLoader
        self.Base = Environment
        self.LiquidError = LiquidError
        self.sc = StepCounter().start()
        self._classes: dict[tuple, type] = {}
        self.minimised: set[str] = set()
        self._ctx_classes: dict[str, type] = {}
        self.noted_obs = False

    def close(self) -> None:
        self.sc.stop()

    def env_class(self, limits: dict[str, int | None]) -> type:
        key = tuple(sorted(limits.items()))
        c = self._classes.get(key)
        if c is None:
            if len(self._classes) > 2000:
                self._classes.clear()
            c = type("LimEnv", (self.Base,), {ATTR[k]: v for k, v in limits.items()})
            self._classes[key] = c
        return c

    def context_class(self, measure: str) -> type:
        c = self._ctx_classes.get(measure)
        if c is None:
            from liquid2 import RenderContext

            fn = MN.MEASURES[measure]

            class MeasuredContext(RenderContext):
                def get_size_of_locals(self) -> int:
                    if self.env.local_namespace_limit is None:
                        return 0
                    return sum(fn(v) for v in self.locals.values()) + self.local_namespace_carry

            c = self._ctx_classes[measure] = MeasuredContext
        return c

    def run(self, case: dict[str, Any], limits: dict[str, int | None], mode: str = "sync",
            recursion_limit: int | None = None, budget: int = STEP_BUDGET) -> Res:
        r = Res()
        self.ctx.ev()
        env = self.env_class(limits)(loader=self.DictLoader(case["partials"]))
        try:
            tpl = env.from_string(case["root"])
        except self.LiquidError as e:
            r.status, r.err, r.msg = "parse", type(e).__name__, str(e).split("\n")[0]
            return r
        data = case.get("data") or {}
        measure = case.get("measure")
        if self.monitor:
            r.mon = MN.activate(limits)
            if measure:
                r.mon.measure = MN.MEASURES[measure]
        saved_rl = sys.getrecursionlimit()
        if recursion_limit is not None:
            sys.setrecursionlimit(recursion_limit)
        self.sc.reset(budget)
        try:
            if measure:
                # the documented customisation: a RenderContext subclass overriding
                # get_size_of_locals, driven through Template.render_with_context
                rc = self.context_class(measure)(tpl, global_data=tpl.make_globals(dict(data)))
                buf = tpl._get_buffer()
                if mode == "async":
                    drive(tpl.render_with_context_async(rc, buf))
                else:
                    tpl.render_with_context(rc, buf)
                r.out = buf.getvalue()
            elif mode == "async":
                r.out = drive(tpl.render_async(**data))
            else:
                r.out = tpl.render(**data)
        except self.LiquidError as e:
            r.status, r.err, r.msg = "err", type(e).__name__, str(e).split("\n")[0][:100]
        except StepBudgetExceeded:
            r.status, r.err = "steps", "StepBudgetExceeded"
        except RecursionError as e:
            r.status, r.err = "rec", "RecursionError"
            r.msg = _depth_at(e.__traceback__)
        except Exception as e:  # noqa: BLE001
            r.status, r.err, r.msg = "exc", type(e).__name__, str(e)[:100]
        finally:
            r.steps = self.sc.disarm()
            if recursion_limit is not None:
                sys.setrecursionlimit(saved_rl)
            MN.deactivate()
        return r


def _depth_at(tb: Any) -> str:
    """Where a RecursionError was raised, read from the frames of its traceback: the
    largest context copy depth (length of the ``parent`` chain of a render context) and
    the largest number of ``render_with_context`` activations nested on one context (each
    of them extends the context's scope once), as 'copies=<n> scope=<n>'."""
    depth_of: dict[int, int] = {}
    nested: dict[int, int] = {}
    while tb is not None:
        fr = tb.tb_frame
        c = fr.f_locals.get("context")
        if c is not None and hasattr(c, "parent") and hasattr(c, "scope"):
            k = id(c)
            if k not in depth_of:
                d, p = 0, c
                while getattr(p, "parent", None) is not None and d < 100_000:
                    p = p.parent
                    d += 1
                depth_of[k] = d
            if fr.f_code.co_name.startswith("render_with_context"):
                nested[k] = nested.get(k, 0) + 1
        tb = tb.tb_next
    return f"copies={max(depth_of.values(), default=0)} scope={max(nested.values(), default=0)}"


# --------------------------------------------------------------------------- facts


def sources(case: dict[str, Any]) -> list[str]:
    return [case["root"], *case["partials"].values()]


def no_eol(s: str) -> str:
    return s.replace("\r", "").replace("\n", "")


def eol_only(got: str, want: str) -> bool:
    """The two texts differ, and only in CR / LF characters (want has a CR)."""
    return got != want and "\r" in want and no_eol(got) == no_eol(want)


def differs_key(prefix: str, got: str, want: str) -> str:
    if eol_only(got, want):
        return "output-limit:newline-translation"
    return f"{prefix}:limited-output-differs"


class Facts:
    """What the unrestricted render of a case consumed."""

    def __init__(self, rn: Runner, case: dict[str, Any], mode: str = "sync"):
        self.case = case
        self.mode = mode
        self.res = rn.run(case, {}, mode)
        self.ok = self.res.status == "ok"
        self.findings: list[tuple[str, str, dict[str, Any]]] = []
        if not self.ok:
            return
        m = self.res.mon
        assert m is not None
        self.U: str = self.res.out or ""
        self.Ub = len(self.U.encode("utf-8", "surrogatepass"))
        self.C = m.max_chain
        self.M = m.declared_product()
        self.cross = m.cross_partial
        self.N = m.ns_peak
        self.capfree = m.capture_buffers == 0
        self.body_execs = m.body_execs
        self.has_break = any(_BREAK.search(s) for s in sources(case))
        # loop activations left early (fewer bodies than the declared length)
        self.interrupted = list(m.interrupted)
        self.P = self.Ub  # refined by the far-above-consumption run
        if case.get("marks") and self.capfree:
            marks = sum(self.U.count(ch) for ch in G.MARKS)
            if marks != m.visible_body_execs:
                self.findings.append((
                    "monitor:marker-count-mismatch",
                    f"{marks} loop-body markers in the output, node trace counted "
                    f"{m.visible_body_execs} visible body executions",
                    {"limit_kind": "none", "limit": None},
                ))


def unrestored(m: MN.Mon, ex: dict[str, Any]) -> list[tuple[str, str, dict[str, Any]]]:
    """A node that returned normally must leave the context's loop stack and loop carry as
    it found them: whatever stays behind is multiplied into every later loop."""
    o = m.unrestored
    if o is None:
        return []
    return [(f"loop-limit:{o['what']}-not-restored@{o['node']}",
             f"after a {o['node']} node returned, the context's loop stack went from {o['loops_before']} to "
             f"{o['loops_after']} frames and its loop carry from {o['carry_before']} to {o['carry_after']}", ex)]


def judge_huge(rn: Runner, f: Facts, mode: str) -> list[tuple[str, str, dict[str, Any]]]:
    """Transparency: every limit far above consumption."""
    out: list[tuple[str, str, dict[str, Any]]] = []
    ref = f
    if mode != f.mode:
        ref = Facts(rn, f.case, mode)
        if not ref.ok:
            return out
    r = rn.run(f.case, dict(HUGE), mode)
    m = r.mon
    ex = {"limit_kind": "all-huge", "limit": None, "mode": mode}
    if r.status != "ok":
        out.append((f"transparency:error:{r.err}", f"limits far above consumption, render ended with {r.err} {r.msg}", ex))
        return out
    assert m is not None
    out += unrestored(m, ex)
    if r.out != ref.U:
        out.append((differs_key("transparency", r.out or "", ref.U),
                    f"limits far above consumption change the output: {r.out!r:.120} != {ref.U!r:.120}", ex))
    if m.body_execs != ref.body_execs or m.max_chain != ref.C:
        out.append(("transparency:loop-executions-differ",
                    f"body executions {m.body_execs} vs {ref.body_execs} unrestricted", ex))
    if mode == f.mode:
        f.P = max(m.peak_visible, f.Ub)
        root = m.bufs.get(id(m.root_buffer))
        if r.out == ref.U and (root is None or root.written != f.Ub):
            out.append(("output-limit:write-hook-mismatch",
                        f"root buffer accepted {root.written if root else None} bytes through write(), output has {f.Ub}", ex))
        rn.ctx.count("write_hook_hits", sum(b.nwrites for b in m.buf_order))
    return out


def judge_out(rn: Runner, f: Facts, L: int, mode: str) -> list[tuple[str, str, dict[str, Any]]]:
    out: list[tuple[str, str, dict[str, Any]]] = []
    r = rn.run(f.case, {"out": L}, mode)
    m = r.mon
    ex = {"limit_kind": "out", "limit": L, "mode": mode, "unrestricted_bytes": f.Ub, "peak": f.P}
    ctx = rn.ctx
    if abs(L - f.Ub) <= 1 or abs(L - f.P) <= 1 or r.status == "err":
        ctx.nt(f.case["root"], sorted(f.case["partials"].items()), repr(f.case.get("data")), "out", L, mode)
    if m is not None:
        if m.out_over is not None:
            o = m.out_over
            key = ("output-limit:write-accepted-past-limit" if o["buffer"] == "root"
                   else "output-limit:capture-buffer-exceeds-remaining")
            out.append((key, f"{o['buffer']} buffer accepted {o['written']} bytes with {o['carry']} bytes already "
                             f"in its parent chain under limit {L}", ex))
        if m.null_parent_over:
            ctx.count("obs_buffer_chain_past_limit_renders", 1)
            if not rn.noted_obs:
                rn.noted_obs = True
                ctx.note("observation (not a violation of the statement): under output limit "
                         f"{L} the bytes held along a chain of buffers exceeded the limit although every buffer "
                         f"was within its own allowance; root={f.case['root']!r:.200} partials={f.case['partials']!r:.200}")
    if r.status == "ok":
        O = r.out or ""
        ob = len(O.encode("utf-8", "surrogatepass"))
        if ob > L:
            out.append(("output-limit:exceeded-without-error", f"returned {ob} bytes under limit {L}", ex))
        elif f.Ub > L and not eol_only(O, f.U):
            out.append(("output-limit:exceeded-without-error",
                        f"unrestricted output has {f.Ub} bytes, limit {L}, render returned {ob} bytes without error", ex))
        if O != f.U:
            out.append((differs_key("output-limit", O, f.U),
                        f"successful limited render differs from the unrestricted output: {O!r:.100} != {f.U!r:.100}", ex))
        ctx.count("limited_ok")
    elif r.status == "err" and r.err == ERR_FOR["out"]:
        ctx.seen("limit_error_classes", r.err)
        ctx.count("limited_hit")
        if f.P <= L:
            what = ("capture-free program, " if f.capfree else "") + (
                f"unrestricted output {f.Ub} bytes, capture peak {f.P} <= limit {L}, render raised {r.err}")
            out.append(("output-limit:error-though-within", what, ex))
    else:
        out.append((f"output-limit:unexpected-outcome:{r.err or r.status}",
                    f"unrestricted render succeeds, under output limit {L}: {r.status} {r.err} {r.msg}", ex))
    return out


def loop_key(o: dict[str, Any]) -> str:
    chain, counts = o["chain"], o["counts"]
    culprits = set()
    for i, (k, c) in enumerate(zip(chain, counts)):
        if k in ("render-for", "include-for", "tablerow") and c > 1:
            if any(chain[j] in ("for", "tablerow", "render-for", "include-for") for j in range(i + 1, len(chain))):
                culprits.add(k)
    if culprits:
        return "loop-limit:" + "+".join(sorted(culprits)) + "-not-multiplied"
    real = [i for i, (k, c) in enumerate(zip(chain, counts))
            if k in ("for", "tablerow", "render-for", "include-for") and c > 1]
    between = chain[real[0]: real[-1] + 1] if real else chain
    across = sorted({k.split("-")[0] for k in between if k in ("render", "include", "call", "block", "extends")})
    return "loop-limit:exceeded-without-error@across:" + ("+".join(across) or "none")


def judge_loop(rn: Runner, f: Facts, L: int, mode: str) -> list[tuple[str, str, dict[str, Any]]]:
    out: list[tuple[str, str, dict[str, Any]]] = []
    r = rn.run(f.case, {"loop": L}, mode)
    m = r.mon
    ex = {"limit_kind": "loop", "limit": L, "mode": mode, "nest_count": f.C, "product": f.M}
    ctx = rn.ctx
    if abs(L - f.C) <= 1 or abs(L - f.M) <= 1 or r.status == "err":
        ctx.nt(f.case["root"], sorted(f.case["partials"].items()), repr(f.case.get("data")), "loop", L, mode)
    if m is not None:
        out += unrestored(m, ex)
    if m is not None and m.loop_over is not None:
        o = m.loop_over
        out.append((loop_key(o),
                    f"a loop body ran {o['count']} times within one nest {'>'.join(o['chain'])} "
                    f"(iterations so far {o['counts']}) under loop_iteration_limit {L} before any error", ex))
    if r.status == "ok":
        if r.out != f.U:
            out.append((differs_key("loop-limit", r.out or "", f.U),
                        f"successful render under loop limit {L} differs from the unrestricted output", ex))
        ctx.count("limited_ok")
    elif r.status == "err" and r.err == ERR_FOR["loop"]:
        ctx.seen("limit_error_classes", r.err)
        ctx.count("limited_hit")
        if L >= f.M:
            # M counts every loop with its declared length (a loop left early included), which
            # is the most the engine's documented up-front count can reach in this program
            key = "loop-limit:error-though-within"
            what = f"largest product of declared nested loop lengths is {f.M} <= limit {L}, render raised {r.err}"
            if f.interrupted:
                key += ":after-interrupted-loop"
                what += f"; loops left early in this program: {sorted(set(f.interrupted))}"
            out.append((key, what, ex))
    else:
        out.append((f"loop-limit:unexpected-outcome:{r.err or r.status}",
                    f"unrestricted render succeeds, under loop limit {L}: {r.status} {r.err} {r.msg}", ex))
    return out


def judge_ns(rn: Runner, f: Facts, L: int, mode: str) -> list[tuple[str, str, dict[str, Any]]]:
    out: list[tuple[str, str, dict[str, Any]]] = []
    r = rn.run(f.case, {"ns": L}, mode)
    m = r.mon
    ex = {"limit_kind": "ns", "limit": L, "mode": mode, "namespace_peak": f.N,
          "measure": f.case.get("measure") or "shallow"}
    ctx = rn.ctx
    if abs(L - f.N) <= 1 or r.status == "err":
        ctx.nt(f.case["root"], sorted(f.case["partials"].items()), repr(f.case.get("data")), "ns", L, mode)
    assert m is not None or r.status == "parse"
    if m is not None:
        ctx.count("assign_hook_hits", m.assigns)
        if f.case.get("measure"):
            ctx.count("custom_measure_assigns_in_copied_contexts", m.assigns_in_copies)
        if m.ns_over is not None:
            o = m.ns_over
            sub = o["why"]
            out.append((f"namespace-limit:exceeded-without-error:{sub}",
                        f"assignment accepted with {o['size']} bytes of local values on the live context chain "
                        f"(engine counts {o['engine_size']}, context depth {o['depth']}) under limit {L}", ex))
        if m.ns_early is not None:
            o = m.ns_early
            out.append(("namespace-limit:error-though-within" + (":" + o["why"] if o["why"] else ""),
                        f"LocalNamespaceLimitError with {o['size']} bytes of local values on the live context chain under limit {L}", ex))
    if r.status == "ok":
        if L < f.N and not (m is not None and m.ns_over is not None):
            out.append(("namespace-limit:exceeded-without-error:peak",
                        f"unrestricted render reaches {f.N} bytes, render under limit {L} succeeded", ex))
        if r.out != f.U:
            out.append((differs_key("namespace-limit", r.out or "", f.U),
                        f"successful render under namespace limit {L} differs from the unrestricted output", ex))
        if m is not None and m.root_ctx is not None:
            fin = MN.own_size(m.root_ctx, m.measure)
            eng = m.root_ctx.get_size_of_locals()
            if fin > L or eng > L:
                out.append(("namespace-limit:final-size-exceeds",
                            f"after a successful render the root context holds {fin} bytes (engine: {eng}) under limit {L}", ex))
        ctx.count("limited_ok")
    elif r.status == "err" and r.err == ERR_FOR["ns"]:
        ctx.seen("limit_error_classes", r.err)
        ctx.count("limited_hit")
        if L >= f.N and not (m is not None and m.ns_early is not None):
            out.append(("namespace-limit:error-though-within:peak",
                        f"unrestricted render peaks at {f.N} bytes <= limit {L}, render raised {r.err}", ex))
    else:
        out.append((f"namespace-limit:unexpected-outcome:{r.err or r.status}",
                    f"unrestricted render succeeds, under namespace limit {L}: {r.status} {r.err} {r.msg}", ex))
    return out


JUDGES = {"out": judge_out, "loop": judge_loop, "ns": judge_ns}


def limit_values(kind: str, f: Facts, rng: random.Random) -> tuple[list[int], bool]:
    """-> (limit values, whether a full boundary triple around the consumption is included)"""
    if kind == "out":
        vals = {0, f.Ub - 1, f.Ub, f.Ub + 1, rng.randint(0, max(0, f.Ub)), rng.randint(f.Ub, f.P + 3)}
        if f.P > f.Ub:
            vals |= {f.P - 1, f.P, f.P + 1}
        return sorted(v for v in vals if v >= 0), f.Ub >= 1
    if kind == "loop":
        if f.C < 1:
            return [], False
        vals = {f.C - 1, f.C, f.C + 1, f.M - 1, f.M, f.M + 1, 3 * f.M, rng.randint(1, f.C)}
        if f.case.get("sweep"):
            # the window between "every part fits" and "the whole fits"
            vals |= set(_sweep(max(1, f.C // 3), f.C - 1, 5)) | set(_sweep(f.C, f.M, 3))
        return sorted(v for v in vals if v >= 1), f.C >= 2
    if kind == "ns":
        if f.N < 1:
            return [], False
        vals = {f.N - 1, f.N, f.N + 1, rng.randint(1, f.N), rng.randint(1, f.N)}
        if f.case.get("sweep"):
            # below the peak, and close above it (no error may be raised there)
            vals |= set(_sweep(max(1, f.N // 4), f.N - 1, 6)) | {f.N + 8, f.N + 16, f.N + 48, 2 * f.N}
        return sorted(v for v in vals if v >= 1), f.N >= 2
    raise ValueError(kind)


def _sweep(lo: int, hi: int, n: int) -> list[int]:
    """Up to n values spread evenly over [lo, hi]."""
    if hi < lo:
        return []
    if hi - lo + 1 <= n:
        return list(range(lo, hi + 1))
    return [lo + (hi - lo) * k // (n - 1) for k in range(n)]


def refs(kind: str, f: Facts) -> dict[str, int]:
    if kind == "out":
        return {"bytes": f.Ub, "peak": f.P, "zero": 0}
    if kind == "loop":
        return {"nest": f.C, "product": f.M}
    return {"peak": f.N}


def nearest_ref(kind: str, f: Facts, L: int) -> list[Any]:
    """The limit value expressed relative to a measured consumption (for minimisation)."""
    name, val = min(refs(kind, f).items(), key=lambda kv: abs(L - kv[1]))
    return [name, L - val]


def key_class(key: str) -> str:
    if key.startswith("loop-limit:") and key.endswith("-not-multiplied"):
        return "loop-limit:*-not-multiplied"
    if key.startswith("loop-limit:exceeded-without-error@"):
        return "loop-limit:exceeded-without-error@*"
    return key


def check_case(rn: Runner, case: dict[str, Any], rng: random.Random, kinds: tuple[str, ...] = ("huge", "out", "loop", "ns"),
               record: bool = True, modes: tuple[str, ...] = ("sync",)) -> list[tuple[str, str, dict[str, Any]]] | None:
    """All C06 oracles on one program; None when the unrestricted render fails."""
    ctx = rn.ctx
    f = Facts(rn, case)
    if not f.ok:
        if record:
            ctx.count("skipped_unrestricted_" + f.res.status)
            ctx.seen("skip_reasons", f"{f.res.err}:{f.res.msg[:50]}")
        return None
    if f.Ub > HEAVY_BYTES or f.N > HEAVY_BYTES or f.res.steps > HEAVY_STEPS:
        # (text doubling inside loops: every further render would cost seconds)
        if record:
            ctx.count("skipped_heavy")
        return None
    found = list(f.findings)
    found += judge_huge(rn, f, "sync")  # also measures the capture peak P
    if "huge" in kinds and "async" in modes:
        found += judge_huge(rn, f, "async")
    if record:
        ctx.count("programs")
        ctx.count("body_execs", f.body_execs)
        ctx.mx("max:nest_count", f.C)
        ctx.mx("max:namespace_peak", f.N)
        ctx.mx("max:output_bytes", f.Ub)
        if f.cross:
            ctx.count("cross_partial_nests")
        if not f.capfree:
            ctx.count("programs_with_capture_buffers")
        if "\r" in f.U:
            ctx.count("programs_with_cr_output")
        if len(f.U) != f.Ub:
            ctx.count("programs_with_multibyte_output")
        if any(0xD800 <= ord(ch) <= 0xDFFF for ch in f.U):
            ctx.count("programs_with_lone_surrogate_output")
        if any(ord(ch) > 0xFFFF or ch in "\x00\uffff\u0301" for ch in f.U):
            ctx.count("programs_with_astral_nul_or_combining_output")
        for k in f.res.mon.max_chain_kinds if f.res.mon else ():
            ctx.seen("nest_constructs", k)
        if f.interrupted:
            ctx.count("programs_with_interrupted_loop")
            for k in set(f.interrupted):
                ctx.seen("interrupted_constructs", k)
            if any(k.startswith("include") for k in f.interrupted):
                ctx.count("programs_with_interrupted_include_loop")
            if f.M > f.C:
                ctx.count("programs_declared_product_above_executed")
    for kind in ("out", "loop", "ns"):
        if kind not in kinds:
            continue
        vals, triple = limit_values(kind, f, rng)
        for L in vals:
            for mode in modes:
                if mode == "async" and not (abs(L - {"out": f.Ub, "loop": f.C, "ns": f.N}[kind]) <= 1
                                            or (kind == "loop" and abs(L - f.M) <= 1)):
                    continue
                for key, what, ex in JUDGES[kind](rn, f, L, mode):
                    ex["ref"] = nearest_ref(kind, f, L)
                    found.append((key, what, ex))
        if triple and record:
            ctx.count({"out": "triples_output", "loop": "triples_loop", "ns": "triples_namespace"}[kind])
    return found


# --------------------------------------------------------------------------- reporting


def report(rn: Runner, prog: dict[str, Any] | None, case: dict[str, Any],
           found: list[tuple[str, str, dict[str, Any]]], gen_id: list[Any]) -> None:
    ctx = rn.ctx
    seen_here: set[str] = set()
    for key, what, ex in found:
        cls = key_class(key)
        if cls in seen_here:
            continue
        seen_here.add(cls)
        wit = {"case": {"root": case["root"], "partials": case["partials"], "data": case.get("data") or {},
                        "marks": bool(case.get("marks")), **_flags(case)}, **ex, "gen": gen_id}
        if prog is not None and cls not in rn.minimised:
            rn.minimised.add(cls)
            try:
                hit = minimise(rn, prog, cls, ex, _flags(case))
                if hit is not None:
                    c, key, what, ex2 = hit
                    wit = {"case": c, **ex2, "gen": gen_id, "minimised": True}
            except Exception as e:  # noqa: BLE001
                ctx.note(f"minimise failed for {key}: {type(e).__name__}: {e}")
        ctx.violation(key, what, wit)


def _flags(case: dict[str, Any]) -> dict[str, Any]:
    return {k: case[k] for k in ("measure",) if case.get(k)}


def minimise(rn: Runner, prog: dict[str, Any], cls: str, ex: dict[str, Any], flags: dict[str, Any] | None = None):
    """Shrink the program while a violation of the same class is reported at the same
    position relative to the (re-measured) consumption.  The key of the minimal witness
    is the one reported."""
    kind = ex.get("limit_kind")
    mode = ex.get("mode", "sync")
    ref = ex.get("ref")
    last: dict[str, Any] = {}

    def failing(p: dict[str, Any]) -> bool:
        c = G.emit(p)
        # the shrinker may delete marker characters: the cross-check no longer applies
        c["marks"] = cls == "monitor:marker-count-mismatch"
        c.update(flags or {})
        f = Facts(rn, c)
        if not f.ok:
            return False
        res = list(f.findings)
        if kind in JUDGES:
            if kind == "out":
                judge_huge(rn, f, "sync")
            L = refs(kind, f)[ref[0]] + ref[1]
            if L < (0 if kind == "out" else 1):
                return False
            res += JUDGES[kind](rn, f, L, mode)
            for _, _, e in res:
                e["ref"] = ref
        else:
            res += judge_huge(rn, f, mode)
        for k, w, e in res:
            if key_class(k) == cls:
                last["hit"] = ({"root": c["root"], "partials": c["partials"], "data": c["data"], "marks": c["marks"],
                                **(flags or {})}, k, w, e)
                return True
        return False

    small = G.shrink(prog, failing, budget=90)
    if not failing(small):
        return None
    return last["hit"]


# --------------------------------------------------------------------------- shards


def shards(tier: str, seed: int) -> list[dict[str, Any]]:
    # (kind, number of shards, cases per shard); thorough = 20 x the quick volume
    if tier == "quick":
        plan = [("nest", 12, 44), ("ns", 6, 26), ("out", 6, 28), ("intr", 4, 45), ("vary", 3, 64), ("layer", 4, 45),
                ("shared", 2, 80), ("cycle", 2, 200), ("chain", 2, 160)]
    else:
        plan = [("nest", 24, 580), ("ns", 6, 640), ("out", 6, 640), ("intr", 6, 600), ("vary", 6, 640), ("layer", 6, 600), ("shared", 4, 800),
                ("cycle", 4, 2600), ("chain", 4, 1700)]
    specs: list[dict[str, Any]] = []
    for kind, n, per in plan:
        for i in range(n):
            specs.append({"kind": kind, "i": i, "n": n, "per": per})
    specs.append({"kind": "zero"})
    return specs


def floors(tier: str) -> dict[str, int]:
    k = 1 if tier == "quick" else 20
    return {
        "evaluations": 20_000 * k,
        "triples_output": 300 * k,
        "triples_loop": 300 * k,
        "triples_namespace": 300 * k,
        "triples_depth": 240 * k,  # (one triple per chain: 290-320 in quick, the plan was trimmed in rounds 6-8)
        "cross_partial_nests": 100 * k,
        "programs_with_interrupted_include_loop": 50 * k,
        "intr_loop_limit_at_product_ok": 100 * k,
        "vary_nests_with_growing_inner": 60 * k,
        "item_nests_nonuniform": 40 * k,
        "set:longest_item_position": 3,
        "layer_programs_binding_in_several_contexts": 60 * k,
        "rebind_programs_cycling_through_nil": 40 * k,
        "programs_with_custom_namespace_measure": 120 * k,
        "custom_measure_assigns_in_copied_contexts": 1_000 * k,
        "intr_programs_extends_inside_frames_of_included_partial": 25 * k,
        "rebinds_from_or_to_nil_observed": 2_000 * k,
        "cross_nests_carried_and_inherited": 40 * k,
        "programs_with_lone_surrogate_output": 30 * k,
        "cycles_terminated": 400 * k,
        "write_hook_hits": 10_000 * k,
        "assign_hook_hits": 5_000 * k,
        "limited_hit": 2_000 * k,
        "limited_ok": 2_000 * k,
        "set:limit_error_classes": 5,
        "set:cycle_kinds": 12,
    }


def run_shard(spec: dict[str, Any], ctx: Ctx) -> None:
    rn = Runner(ctx, monitor=spec["kind"] != "cycle")
    try:
        kind = spec["kind"]
        if kind in G.PROFILES:
            _nests(rn, spec, kind)
        elif kind == "intr":
            _interrupts(rn, spec)
        elif kind == "vary":
            _varying(rn, spec)
        elif kind == "layer":
            _layers(rn, spec)
        elif kind == "shared":
            _shared(rn, spec)
        elif kind == "cycle":
            _cycles(rn, spec)
        elif kind == "chain":
            _chains(rn, spec)
        elif kind == "zero":
            _zero(rn, spec)
    finally:
        rn.close()


def _measured(ctx: Ctx, case: dict[str, Any], rng: random.Random) -> None:
    """Render this case through a RenderContext subclass with its own get_size_of_locals."""
    case["measure"] = rng.choice(["text", "text", "items", "names"])
    ctx.count("programs_with_custom_namespace_measure")
    ctx.seen("namespace_measures", case["measure"])


def _nests(rn: Runner, spec: dict[str, Any], profile: str) -> None:
    ctx = rn.ctx
    for j in range(spec["per"]):
        rng = random.Random(f"{spec['seed']}:{profile}:{spec['i']}:{j}")
        g = G.NestGen(rng, profile, cr=rng.random() < 0.7, allow_break=rng.random() < 0.5,
                      awkward=profile == "out" and rng.random() < 0.6)
        prog = g.program()
        case = G.emit(prog)
        case["marks"] = True
        if profile == "ns" and j % 2 == 1:
            _measured(ctx, case, rng)
        modes = ("sync", "async") if j % 3 == 0 else ("sync",)
        found = check_case(rn, case, rng, modes=modes)
        if found:
            report(rn, prog, case, found, [str(spec["seed"]), profile, spec["i"], j])
        if j % 41 == 0 and found is not None:
            f = Facts(rn, case)
            ctx.sample({"kind": profile, "root": case["root"], "partials": case["partials"], "data": case["data"],
                        "unrestricted": {"bytes": f.Ub, "nest_count": f.C, "product": f.M, "namespace_peak": f.N}})


def _interrupts(rn: Runner, spec: dict[str, Any]) -> None:
    """Loops left early by break / continue travelling out of included partials, followed
    by further loops on the same context (see c06_gen.IntrGen)."""
    ctx = rn.ctx
    for j in range(spec["per"]):
        rng = random.Random(f"{spec['seed']}:intr:{spec['i']}:{j}")
        prog = G.IntrGen(rng, cr=rng.random() < 0.3).program()
        case = G.emit(prog)
        # (a partial that extends stops before everything it holds has run: no marker cross-check)
        case["marks"] = "sbase" not in case["partials"]
        case["sweep"] = True
        if "sbase" in case["partials"]:
            ctx.count("intr_programs_extends_inside_frames_of_included_partial")
        found = check_case(rn, case, rng, modes=("sync", "async") if j % 2 == 0 else ("sync",))
        if found is None:
            continue
        ctx.count("intr_programs")
        f = Facts(rn, case)
        if f.ok and f.interrupted and not any(k.startswith("loop-limit:error-though-within") for k, _, _ in found):
            # the renders at L = M, M+1 and 3M of a program with an interrupted loop succeeded
            ctx.count("intr_loop_limit_at_product_ok")
        if found:
            report(rn, prog, case, found, [str(spec["seed"]), "intr", spec["i"], j])
        if j % 23 == 0:
            ctx.sample({"kind": "intr", "root": case["root"], "partials": case["partials"], "data": case["data"],
                        "unrestricted": {"nest_count": f.C, "product": f.M, "left_early": sorted(set(f.interrupted))}})


def _varying(rn: Runner, spec: dict[str, Any]) -> None:
    """Nests whose inner length depends on the outer iteration, across every boundary that
    copies the context (see c06_gen.VaryGen).  The online count of executed bodies per
    nest decides; L = C-1 is always among the limits."""
    ctx = rn.ctx
    for j in range(spec["per"]):
        rng = random.Random(f"{spec['seed']}:vary:{spec['i']}:{j}")
        by_item = j % 3 == 1
        cross = j % 3 == 2
        prog = (G.ItemGen(rng) if by_item else G.CrossGen(rng) if cross else G.VaryGen(rng)).program()
        case = G.emit(prog)
        # (templates that only extend carry no marker of their own: no marker cross-check)
        case["marks"] = not cross
        case["sweep"] = True
        found = check_case(rn, case, rng, kinds=("huge", "loop"), modes=("sync", "async") if j % 2 == 0 else ("sync",))
        if found is None:
            continue
        ctx.count("vary_programs")
        f = Facts(rn, case)
        if cross and f.ok and f.res.mon is not None:
            kinds = set(f.res.mon.max_chain_kinds)
            if kinds & {"block", "extends"} and kinds & {"render", "render-for", "include-for", "tablerow", "include"}:
                # the largest nest runs through an inheritance boundary and a carrying one
                ctx.count("cross_nests_carried_and_inherited")
                ctx.seen("cross_nest_shapes", ">".join(k for k in f.res.mon.max_chain_kinds if k != "for"))
        if by_item and f.ok and f.M > f.C >= 2:
            ctx.count("item_nests_nonuniform")
            lens = [len(x) if isinstance(x, list) else -x for x in case["data"]["rows"]]
            pos = lens.index(max(lens))
            ctx.seen("longest_item_position", "first" if pos == 0 else "last" if pos == len(lens) - 1 else "middle")
        if f.ok and f.M > f.C >= 2:
            # the executed count of the largest nest is below the product of lengths: the
            # inner length is not the same in every outer iteration
            ctx.count("vary_nests_with_growing_inner")
            for k in (f.res.mon.max_chain_kinds if f.res.mon else ()):
                ctx.seen("vary_boundaries", k)
        if found:
            report(rn, prog, case, found, [str(spec["seed"]), "vary", spec["i"], j])
        if j % 27 == 0:
            ctx.sample({"kind": "vary", "root": case["root"], "partials": case["partials"], "data": case["data"],
                        "unrestricted": {"nest_count": f.C, "product": f.M}})


def _layers(rn: Runner, spec: dict[str, Any]) -> None:
    """Local variables spread over inheritance layers and block nesting (c06_gen.LayerGen);
    the namespace limit is swept between a quarter of the peak and the peak."""
    ctx = rn.ctx
    for j in range(spec["per"]):
        rng = random.Random(f"{spec['seed']}:layer:{spec['i']}:{j}")
        rebind = j % 2 == 1
        prog = (G.RebindGen(rng) if rebind else G.LayerGen(rng)).program()
        case = G.emit(prog)
        case["sweep"] = True
        if j % 4 >= 2:
            _measured(ctx, case, rng)
        found = check_case(rn, case, rng, kinds=("huge", "ns"), modes=("sync", "async") if j % 3 == 0 else ("sync",))
        if found is None:
            continue
        ctx.count("layer_programs")
        f = Facts(rn, case)
        m = f.res.mon
        if f.ok and m is not None:
            ctx.count("rebinds_observed", m.rebinds)
            ctx.count("rebinds_from_or_to_nil_observed", m.rebinds_nil)
            if rebind and m.rebinds_nil >= 10:
                ctx.count("rebind_programs_cycling_through_nil")
        if not rebind and f.ok and m is not None and m.assign_depths and len(m.assign_depths) >= 2:
            # assignments were made in at least two different contexts of one chain
            ctx.count("layer_programs_binding_in_several_contexts")
            ctx.mx("max:assign_context_depth", max(m.assign_depths))
        if found:
            report(rn, prog, case, found, [str(spec["seed"]), "layer", spec["i"], j])
        if j % 29 == 0:
            ctx.sample({"kind": "layer", "root": case["root"], "partials": case["partials"], "data": case["data"],
                        "unrestricted": {"namespace_peak": f.N}})


def _shared(rn: Runner, spec: dict[str, Any]) -> None:
    from ..gen import emit as E
    from ..gen.programs import Gen
    from ..gen.programs import Profile

    for j in range(spec["per"]):
        rng = random.Random(f"{spec['seed']}:shared:{spec['i']}:{j}")
        gen = Gen(rng, Profile(max_depth=3, max_stmts=7))
        prog = gen.program()
        data = gen.data()
        em = E.emit(prog, E.Layout(random.Random(rng.random())))
        case = {"root": em.source, "partials": dict(em.partials), "data": data}
        found = check_case(rn, case, rng, modes=("sync", "async") if j % 4 == 0 else ("sync",))
        if found is None:
            continue
        rn.ctx.count("shared_generator_programs")
        if found:
            report(rn, None, case, found, [str(spec["seed"]), "shared", spec["i"], j])


# --------------------------------------------------------------------------- depth / termination

OK_CYCLE_ERRORS = ("ContextDepthError", "TemplateInheritanceError")
PY_RECURSION_LIMIT = 1000
CYCLE_STEP_BUDGET = 600_000


def judge_cycle(rn: Runner, case: dict[str, Any], D: int | None, mode: str,
                record: bool = True) -> list[tuple[str, str, dict[str, Any]]]:
    """Termination of a cyclic template graph.  Run on the untouched engine classes
    under CPython's default recursion limit (1000)."""
    limits: dict[str, int | None] = {} if D is None else {"depth": D}
    r = rn.run(case, limits, mode, recursion_limit=PY_RECURSION_LIMIT, budget=CYCLE_STEP_BUDGET)
    ctx = rn.ctx
    fam = G.cycle_family(case)
    ex = {"limit_kind": "depth-cycle", "limit": D, "mode": mode, "cycle": case.get("cycle")}
    out: list[tuple[str, str, dict[str, Any]]] = []
    eff = 30 if D is None else D
    if r.status == "err" and r.err in OK_CYCLE_ERRORS:
        if record:
            ctx.count("cycles_terminated")
            ctx.seen("limit_error_classes", r.err)
            ctx.seen("cycle_kinds", case.get("cycle"))
            ctx.mx("max:cycle_steps", r.steps)
            ctx.nt(case["root"], sorted(case["partials"].items()), "cycle", D, mode)
    elif r.status == "rec":
        mm = re.fullmatch(r"copies=(\d+) scope=(\d+)", r.msg)
        copies, scope = (int(mm.group(1)), int(mm.group(2))) if mm else (0, 0)
        if copies > eff + 1 or scope > eff + 1:
            out.append((f"depth:limit-not-enforced:RecursionError@{fam}",
                        f"cyclic template graph ended with RecursionError with {copies} nested context copies and "
                        f"{scope} nested extensions of one context under context_depth_limit {eff}", ex))
        else:
            out.append((f"depth:RecursionError@{fam}",
                        f"cyclic template graph ended with RecursionError (recursion limit {PY_RECURSION_LIMIT}) "
                        f"under context_depth_limit {eff}, only {copies} nested context copies / {scope} nested extensions of one context deep", ex))
    elif r.status == "steps":
        out.append((f"depth:step-budget-exceeded@{fam}", f"cyclic template graph still running after {CYCLE_STEP_BUDGET} function activations", ex))
    elif r.status == "ok":
        out.append((f"depth:cycle-rendered-without-error@{fam}", f"cyclic template graph rendered {r.out!r:.80} without a depth / inheritance error", ex))
    elif r.status in ("err", "parse"):
        if record:
            ctx.count("cycles_other_liquid_error")
            ctx.seen("cycle_other_errors", f"{r.err}@{case.get('cycle')}")
    else:
        out.append((f"depth:unexpected-outcome:{r.err}@{fam}", f"cyclic template graph ended with {r.err} {r.msg}", ex))
    return out


def _cycles(rn: Runner, spec: dict[str, Any]) -> None:
    ctx = rn.ctx
    for j in range(spec["per"]):
        rng = random.Random(f"{spec['seed']}:cycle:{spec['i']}:{j}")
        case = G.cycle_case(rng)
        Ds: list[int | None] = [None, rng.randint(0, 12), rng.randint(13, 31)]
        found: list[tuple[str, str, dict[str, Any]]] = []
        for D in Ds:
            for mode in ("sync", "async") if (j + (D or 0)) % 2 == 0 else ("sync",):
                found += judge_cycle(rn, case, D, mode)
        ctx.count("cycle_cases")
        if case["max_wraps"] >= 4:
            ctx.count("cycle_cases_with_deep_wrapping")
        done: set[str] = set()
        for key, what, ex in found:
            if key in done:
                continue
            done.add(key)
            wit = {"case": {k: case[k] for k in ("root", "partials", "data", "cycle")}, **ex,
                   "gen": [str(spec["seed"]), "cycle", spec["i"], j]}
            if key not in ctx.violations:
                wit = _min_cycle(rn, case, key, ex) or wit
            ctx.violation(key, what, wit)
        if j % 97 == 0:
            ctx.sample({"kind": "cycle", **{k: case[k] for k in ("root", "partials", "cycle")}})


def _min_cycle(rn: Runner, case: dict[str, Any], key: str, ex: dict[str, Any]) -> dict[str, Any] | None:
    def fails(sp: dict[str, Any]) -> bool:
        c = G.build_cycle(sp)
        return any(k == key for k, _, _ in judge_cycle(rn, c, ex["limit"], ex["mode"], record=False))

    small = G.shrink_cycle(case["spec"], fails)
    if not fails(small):
        return None
    c = G.build_cycle(small)
    return {"case": {k: c[k] for k in ("root", "partials", "data", "cycle")}, **ex, "minimised": True}


def scan_chain(rn: Runner, case: dict[str, Any], mode: str, dmax: int) -> tuple[list[tuple[int, str, str | None]], str | None]:
    base = rn.run(case, {}, mode)
    if base.status != "ok":
        return [], None
    rows: list[tuple[int, str, str | None]] = []
    for D in range(0, dmax + 1):
        r = rn.run(case, {"depth": D}, mode)
        rows.append((D, r.status if r.status != "err" else r.err, r.out))
        m = r.mon
        if m is not None and (m.max_extend_depth > D + 1 or m.max_copy_depth > D + 1):
            rows.append((D, "NESTING", f"{m.max_extend_depth}/{m.max_copy_depth}"))
    return rows, base.out


def judge_chain(rn: Runner, case: dict[str, Any], mode: str) -> list[tuple[str, str, dict[str, Any]]]:
    """Locate the smallest context_depth_limit under which the chain renders; below it
    every render must raise ContextDepthError, from it on every render must succeed with
    the default-limit output."""
    ctx = rn.ctx
    depth = case["depth"]
    dmax = 4 * depth + 12
    rows, ref = scan_chain(rn, case, mode, dmax)
    ex = {"limit_kind": "depth-chain", "limit": None, "mode": mode, "chain": case.get("chain"), "depth": depth}
    out: list[tuple[str, str, dict[str, Any]]] = []
    if ref is None:
        ctx.count("chains_skipped")
        return out
    oks = [D for D, st, _ in rows if st == "ok"]
    for D, st, o in rows:
        if st == "NESTING":
            out.append(("depth:nesting-exceeds-limit", f"nested context extensions / copy depth {o} under context_depth_limit {D}", {**ex, "limit": D}))
        elif st == "ok":
            if o != ref:
                out.append((differs_key("depth", o or "", ref), f"render under context_depth_limit {D} differs from the default-limit output", {**ex, "limit": D}))
        elif st == "ContextDepthError":
            ctx.seen("limit_error_classes", st)
        else:
            out.append((f"depth:unexpected-outcome:{st}", f"acyclic chain of depth {depth} under context_depth_limit {D} ended with {st}", {**ex, "limit": D}))
    if not oks:
        if 30 <= dmax:
            out.append(("depth:never-succeeds", f"chain renders under the default limit but under no explicit limit 0..{dmax}", ex))
        return out
    T = oks[0]
    bad = [D for D, st, _ in rows if D > T and st == "ContextDepthError"]
    if bad:
        out.append(("depth:non-monotone-threshold",
                    f"chain renders under context_depth_limit {T} but raises ContextDepthError under larger limits {bad[:5]}", {**ex, "limit": bad[0]}))
    ctx.count("triples_depth")
    ctx.mx("max:depth_threshold", T)
    ctx.seen("depth_thresholds", f"d{depth}:T{T}")
    for D in (T - 1, T, T + 1):
        ctx.nt(case["root"], sorted(case["partials"].items()), "chain", D, mode)
    return out


def _chains(rn: Runner, spec: dict[str, Any]) -> None:
    ctx = rn.ctx
    for j in range(spec["per"]):
        rng = random.Random(f"{spec['seed']}:chain:{spec['i']}:{j}")
        case = G.chain_case(rng, rng.randint(1, 7))
        mode = "async" if j % 3 == 2 else "sync"
        for key, what, ex in judge_chain(rn, case, mode):
            ctx.violation(key, what, {"case": case, **ex, "gen": [str(spec["seed"]), "chain", spec["i"], j]})
        if j % 83 == 0:
            ctx.sample({"kind": "chain", **{k: case[k] for k in ("root", "partials", "chain", "depth")}})


ZERO = [
    ("loop", "{% for i in (1..3) %}x{% endfor %}", {}),
    ("loop", "{% render 'p' for (1..2) %}", {"p": "y"}),
    ("ns", "{% assign a = 'some text' %}{{ a }}", {}),
    ("ns", "{% capture c %}abc{% endcapture %}{{ c }}", {}),
    ("out", "x", {}),
    ("out", "{{ 'é' }}", {}),
]


def _zero(rn: Runner, spec: dict[str, Any]) -> None:
    """A configured limit of 0 (an int, not None)."""
    ctx = rn.ctx
    for kind, src, partials in ZERO:
        case = {"root": src, "partials": partials, "data": {}}
        for mode in ("sync", "async"):
            r = rn.run(case, {kind: 0}, mode)
            ctx.count("zero_limit_probes")
            if r.status == "ok":
                name = {"loop": "loop-limit", "ns": "namespace-limit", "out": "output-limit"}[kind]
                ctx.violation(f"{name}:zero-means-unlimited",
                              f"{ATTR[kind]} = 0 is treated as 'no limit': {src!r} rendered {r.out!r}",
                              {"case": case, "limit_kind": "zero:" + kind, "limit": 0, "mode": mode})
            elif r.err == ERR_FOR[kind]:
                ctx.seen("limit_error_classes", r.err)


# --------------------------------------------------------------------------- replay


def replay(wit: dict[str, Any], ctx: Ctx) -> None:
    rn = Runner(ctx, monitor=wit.get("limit_kind") != "depth-cycle")
    try:
        case = wit["case"]
        kind = wit.get("limit_kind")
        L = wit.get("limit")
        mode = wit.get("mode", "sync")
        print(f"replay C06: kind={kind} limit={L} mode={mode}")
        print("  root     =", repr(case["root"]))
        for n, s in case["partials"].items():
            print(f"  partial {n} =", repr(s))
        print("  data     =", case.get("data"))
        found: list[tuple[str, str, dict[str, Any]]] = []
        if kind in JUDGES or kind in ("all-huge", "none"):
            f = Facts(rn, case)
            print("  unrestricted:", f.res.view())
            if f.ok:
                found += f.findings
                found += judge_huge(rn, f, "sync")
                if kind == "all-huge" and mode == "async":
                    found += judge_huge(rn, f, "async")
                print(f"  consumption: bytes={f.Ub} capture_peak={f.P} nest_count={f.C} product={f.M} "
                      f"namespace_peak={f.N} has_break={f.has_break} left_early={sorted(set(f.interrupted))}")
                if kind in JUDGES:
                    r = rn.run(case, {kind: L}, mode)
                    print(f"  limited ({ATTR[kind]}={L}):", r.view())
                    if r.mon is not None:
                        print("  monitor: loop_over=", r.mon.loop_over, "out_over=", r.mon.out_over,
                              "ns_over=", r.mon.ns_over, "ns_early=", r.mon.ns_early)
                    found += JUDGES[kind](rn, f, L, mode)
        elif kind == "depth-cycle":
            r = rn.run(case, {} if L is None else {"depth": L}, mode, recursion_limit=PY_RECURSION_LIMIT)
            print("  outcome:", r.view(), "steps", r.steps)
            found += judge_cycle(rn, case, L, mode)
        elif kind == "depth-chain":
            rows, ref = scan_chain(rn, case, mode, 4 * case.get("depth", 4) + 12)
            print("  default-limit output:", repr(ref))
            for row in rows:
                print("   D=%s -> %s %r" % row)
            found += judge_chain(rn, case, mode)
        elif kind and kind.startswith("zero:"):
            k = kind.split(":")[1]
            r = rn.run(case, {k: 0}, mode)
            print("  outcome:", r.view())
            if r.status == "ok":
                name = {"loop": "loop-limit", "ns": "namespace-limit", "out": "output-limit"}[k]
                found.append((f"{name}:zero-means-unlimited", f"{ATTR[k]} = 0 rendered {r.out!r}", {}))
        for key, what, _ in found:
            print(f"  -> {key}: {what}")
            ctx.violation(key, what, wit)
        if not found:
            print("  -> no violation reproduced")
    finally:
        rn.close()
