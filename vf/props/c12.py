"""C12 — serialising a template and reparsing it preserves its behaviour.

Monitor: metamorphic round trip on the real code.  For a subject template text s0 (the root
template of a program, or one of its partials):

    s1 = str(parse(s0)); s2 = str(parse(s1)); s3 = str(parse(s2))

every s_i must parse in the same environment, the program with s_i in place of s0 must
render to the same output — or fail with the same error class — on every data set, and the
chain must reach a fixpoint within two iterations (s2 == s3; then every further round trip is
the identity, which is how "repeated round trips" is decided finitely).  Independently,
pickle.loads(pickle.dumps(template)) must render identically.

Violations are keyed by *mechanism*, computed from the minimised witness: the first
divergence between the token stream (env.tokenize) of the text before and after the failing
str() step — `(token kind before, token kind after | <missing>, enclosing tag | OUTPUT |
filter-args | template-string)`.
"""

from __future__ import annotations

import copy
import pickle
import random
import re
from typing import Any
from typing import Callable

from .. import c12_gen as G
from ..core import Ctx
from ..gen import corpus
from ..minimize import ddmin

ID = "C12"
LEVEL = "exploration"
RULE = (
    "cases = (a) every valid compliance-corpus template (root and, separately, each of its "
    "partials as the serialised subject) with the case's data, empty data and a perturbed copy "
    "of the data; (b) a deterministic enumeration of tiny templates: every primitive form "
    "(nil/null/true/false/empty/blank, int/float/scientific, both quote styles and every escape, "
    "dotted/bracketed/quoted/nested paths incl. bracketed roots, ranges, template strings) at "
    "every expression site of every tag, filter argument shapes (multi-argument, keyword, "
    "lambda) with every separator spelling, Boolean trees over and/or/not/parentheses and all "
    "comparison operators, every whitespace-control combination on every markup kind (all 256 "
    "for raw), every option subset of every tag of the built-in + Shopify tag set, liquid-tag "
    "line statements, the three comment kinds; (c) seeded random depth-bounded compositions of "
    "all of the above with generated partials, rendered against 5 data sets (2 fixed, empty, 2 "
    "random), in liquid2.Environment / liquid2.shopify.Environment with default_trim +, - or ~. "
    "(d) state-bearing templates for the pickle clause: built by from_string(name, path, globals, "
    "overlay_data), get_template[_async] from DictLoader, a TemplateSource(matter=…) loader with "
    "uptodate None/function/partial, CachingDictLoader (cache hit), FileSystemLoader, "
    "CachingFileSystemLoader and ChoiceLoader in a scratch directory, with five names defined in "
    "every subset of the layers overlay > template globals > environment globals (and overridden or "
    "not by render arguments), plus generated templates whose data arrives through those layers; "
    "render/render_async on 3 argument sets, name, path, full_name(), str(), is_up_to_date[_async]() "
    "and a probe template of the copied environment are compared before vs after 3 successive "
    "pickle round trips and 3 deepcopies. "
    "Each shard first runs a fixed calibration list of tiny templates (not counted) so that "
    "mechanism keys come from unambiguous witnesses. "
    "distinct = hash(environment kind, subject text, partials); non-trivial = the "
    "parsed template contains >= 3 distinct node classes and >= 1 filter or an expression that "
    "is not a bare path/literal."
)
ASSUMPTIONS = [
    "behaviour is compared on 3-5 concrete data sets per template (output text, or error class "
    "name when rendering raises); equality on those is evidence, not proof, of equality on all data",
    "a fixpoint s2 == s3 is demanded as the finite stand-in for 'stays true under repeated round "
    "trips'; a chain that keeps changing while behaving the same is reported under its own "
    "'nofix:' keys so it can be adjudicated separately from behaviour changes",
    "liquid2's lexer (env.tokenize) and unescape() are used only to *label* a violation with a "
    "mechanism key, never to decide one",
    "templates are rendered synchronously with DictLoader partials; environments are the stock "
    "liquid2.Environment and liquid2.shopify.Environment with default_trim = + (default), - or ~",
    "memory addresses in rendered text (' at 0x…') are masked before comparison; a behaviour "
    "difference must reproduce on a second fresh run, otherwise it is counted as "
    "'nondeterministic_renders_skipped' (the render is not a function of its inputs: C09's subject)",
    "when one template trips several defects the violation is attributed to one of them (a "
    "divergence already shown causal by a minimised witness in the same shard, else the first "
    "divergence of the minimised witness); hit counts per key are therefore approximate and a "
    "pervasive defect can hide a rarer one inside the same template (tiny unit templates limit that)",
    "a small direct law rides along: programs whose cycle tags of one group are respelled in ways "
    "str() normalises must render like their canonical spelling (keys respelling:*)",
    "thread_safe=True caching loaders (a threading.Lock in the cache) are outside the judged set; "
    "copy.deepcopy is checked alongside pickle because it goes through the same __reduce_ex__ "
    "protocol (keys deepcopy-*), although the property text names only pickling",
    "cycle items never contain interpolated template strings in generated partials: the real cycle "
    "group key hashes such an item by object identity, which makes renders address-dependent",
]

MAX_MINIMISE_PER_SHARD = 60
_ADDR = re.compile(r" at 0x[0-9a-fA-F]+")


# ---------------------------------------------------------------------------
# running real code
# ---------------------------------------------------------------------------


def _env(kind: str, templates: dict[str, str]):  # noqa: ANN202
    """kind = std | shopify, optionally followed by -minus / -tilde (the environment's
    default_trim; with a non-default setting an explicit `+` marker is significant), then
    +esc (auto_escape=True), +strict (StrictUndefined) and/or +trim1 (an Environment subclass
    whose documented trim() hook is not idempotent)."""
    from liquid2 import DictLoader
    from liquid2 import Environment
    from liquid2 import WhitespaceControl
    from liquid2.shopify import Environment as ShopifyEnvironment

    kind, *flags = kind.split("+")
    base, _, trim = kind.partition("-")
    cls = ShopifyEnvironment if base == "shopify" else Environment
    dt = {"minus": WhitespaceControl.MINUS, "tilde": WhitespaceControl.TILDE}.get(trim, WhitespaceControl.PLUS)
    kw: dict[str, Any] = {}
    if "trim1" in flags:
        from .. import c12_state

        cls = c12_state.OneStepTrimShopifyEnvironment if base == "shopify" else c12_state.OneStepTrimEnvironment
    if "esc" in flags:
        kw["auto_escape"] = True  # string literals become safe Markup, everything else is escaped
    if "strict" in flags:
        from liquid2 import StrictUndefined

        kw["undefined"] = StrictUndefined
    return cls(loader=DictLoader(templates), default_trim=dt, **kw)


_DATA_BLOBS: dict[int, tuple[Any, bytes]] = {}


def _fresh(d: dict[str, Any]) -> dict[str, Any]:
    """A private copy of a data set for one render (a render must not be able to leak a
    mutation into the next one).  Unpickling a cached blob is ~10x cheaper than deepcopy."""
    ent = _DATA_BLOBS.get(id(d))
    if ent is None or ent[0] is not d:
        if len(_DATA_BLOBS) > 4000:
            _DATA_BLOBS.clear()
        try:
            ent = (d, pickle.dumps(d, protocol=pickle.HIGHEST_PROTOCOL))
        except Exception:  # noqa: BLE001
            return copy.deepcopy(d)
        _DATA_BLOBS[id(d)] = ent
    return pickle.loads(ent[1])  # noqa: S301


def _render_all(template: Any, datas: list[dict[str, Any]]) -> tuple[tuple[str, str], ...]:
    out = []
    for d in datas:
        try:
            out.append(("ok", _ADDR.sub(" at 0x?", template.render(**_fresh(d)))))
        except RecursionError:
            out.append(("err", "RecursionError"))
        except Exception as e:  # noqa: BLE001
            out.append(("err", type(e).__name__))
    return tuple(out)


class Case:
    """One subject text inside one program."""

    __slots__ = ("kind", "source", "templates", "subject", "datas")

    def __init__(self, kind: str, source: str, templates: dict[str, str], subject: str,
                 datas: list[dict[str, Any]]) -> None:
        self.kind = kind
        self.source = source
        self.templates = templates
        self.subject = subject  # "" = the root template, else a partial's name
        self.datas = datas

    def text(self) -> str:
        return self.source if self.subject == "" else self.templates[self.subject]

    def with_text(self, text: str) -> "Case":
        if self.subject == "":
            return Case(self.kind, text, self.templates, "", self.datas)
        t = dict(self.templates)
        t[self.subject] = text
        return Case(self.kind, self.source, t, self.subject, self.datas)

    def witness(self, check: str = "roundtrip") -> dict[str, Any]:
        return {"check": check, "kind": self.kind, "source": self.source, "templates": self.templates,
                "subject": self.subject, "datas": self.datas}


def _build(case: Case, text: str):  # noqa: ANN202
    """Parse the program with *text* as the subject.  Returns (root template, subject template)."""
    if case.subject == "":
        env = _env(case.kind, case.templates)
        t = env.from_string(text)
        return t, t
    tpls = dict(case.templates)
    tpls[case.subject] = text
    env = _env(case.kind, tpls)
    st = env.from_string(text, name=case.subject)
    return env.from_string(case.source), st


class Failure:
    __slots__ = ("coarse", "iter", "texts", "err", "base", "got")

    def __init__(self, coarse: str, it: int, texts: list[str], err: BaseException | None = None,
                 base: Any = None, got: Any = None) -> None:
        self.coarse = coarse  # str-raises | reparse | behaviour | nofix
        self.iter = it        # the str() step (1-based) whose result misbehaves
        self.texts = texts    # [s0, s1, ...]
        self.err = err
        self.base = base
        self.got = got


def roundtrip(case: Case) -> tuple[str, Failure | None, Any]:
    """-> (status, failure, root template of the original).  status: 'invalid' (original does
    not parse: not a case), 'ok', 'fail'."""
    s0 = case.text()
    try:
        root, subj = _build(case, s0)
    except RecursionError:
        return "invalid", None, None
    except Exception:  # noqa: BLE001
        return "invalid", None, None
    base = _render_all(root, case.datas)
    texts = [s0]
    cur_subj = subj
    for i in (1, 2, 3):
        try:
            nxt = str(cur_subj)
        except Exception as e:  # noqa: BLE001
            return "fail", Failure("str-raises", i, texts, e), root
        texts.append(nxt)
        if nxt == texts[-2]:
            return "ok", None, root  # fixpoint: every further round trip is the identity
        try:
            r2, s2 = _build(case, nxt)
        except Exception as e:  # noqa: BLE001
            return "fail", Failure("reparse", i, texts, e), root
        got = _render_all(r2, case.datas)
        if got != base:
            return "fail", Failure("behaviour", i, texts, None, base, got), root
        cur_subj = s2
    return "fail", Failure("nofix", 3, texts), root


# ---------------------------------------------------------------------------
# mechanism keys
# ---------------------------------------------------------------------------

_STR_KINDS = ("SINGLE_QUOTE_STRING", "DOUBLE_QUOTE_STRING")

# Token kinds that denote a value or an operator inside an expression: the mechanism does
# not depend on which tag the expression sits in, so their context is reported as "expr".
_EXPR_KINDS = {
    "NULL", "TRUE", "FALSE", "INT", "FLOAT", "STRING", "TEMPLATE_STRING", "END_TEMPLATE_STRING", "INTERP",
    "PATH", "RANGE", "LPAREN", "RPAREN", "NOT_WORD", "AND_WORD", "OR_WORD", "EQ", "NE", "LT", "GT", "LE", "GE",
    "CONTAINS", "IN", "IF", "ELSE", "PIPE", "DOUBLE_PIPE", "ARROW",
}


def _unesc(tok: Any) -> str:
    try:
        from liquid2.unescape import unescape

        v = tok.value
        if tok.type_.name == "SINGLE_QUOTE_STRING":
            v = v.replace("\\'", "'")
        return unescape(v, token=tok)
    except Exception:  # noqa: BLE001
        return "<raw>" + tok.value


def _path_text(tok: Any) -> str:
    parts = []
    for seg in tok.path:
        if type(seg).__name__ == "PathToken":
            parts.append("[" + _path_text(seg) + "]")
        else:
            parts.append(repr(seg))
    return ".".join(parts)


def _num_text(k: str, v: str) -> str:
    try:
        if k == "INT":
            return repr(int(float(v))) if ("e" in v or "E" in v) else repr(int(v))
        return repr(float(v))
    except (ValueError, OverflowError):
        return v


def _is_lambda_params(tokens: list[Any], i: int) -> int:
    """If tokens[i] is the '(' of `(a, b) =>`, return the index of its ')', else -1."""
    j = i + 1
    while j < len(tokens) and tokens[j].type_.name in ("WORD", "COMMA"):
        j += 1
    if j < len(tokens) - 1 and tokens[j].type_.name == "RPAREN" and tokens[j + 1].type_.name == "ARROW" and j > i + 1:
        return j
    return -1


Flat = list[tuple[str, str, str]]


def _flat_expr(tokens: list[Any], ctx: str, out: Flat) -> None:  # noqa: PLR0912, PLR0915
    """Expression tokens -> (kind, context, value text), with the spelling differences that
    str() is entitled to make normalised away: quote style, `=` vs `:`, optional commas
    outside filter arguments (and `or` in `when`), parentheses around lambda parameters,
    number spelling, a one-segment path written as a word."""
    in_args = False
    after_pipe = False
    pending_colon = False
    skip: set[int] = set()
    seg_tok = 0  # token index where the (possibly array-literal) left-hand expression starts
    for i, tok in enumerate(tokens):
        if i in skip:
            continue
        tn = type(tok).__name__
        k = tok.type_.name
        if k in ("PIPE", "DOUBLE_PIPE"):
            if in_args and out and out[-1][0] == "COMMA":
                out.pop()  # trailing comma
            in_args, after_pipe, pending_colon = False, True, False
            c = ctx
        elif after_pipe and k == "WORD":
            after_pipe, pending_colon = False, True
            out.append(("FILTER_NAME", ctx, tok.value))
            continue
        elif pending_colon and k == "COLON":
            in_args, pending_colon = True, False
            out.append(("FILTER_COLON", ctx, ""))
            continue
        else:
            after_pipe = pending_colon = False
            if k in ("IF", "ELSE"):
                if in_args and out and out[-1][0] == "COMMA":
                    out.pop()
                in_args = False
            c = "filter-args" if in_args else ctx
        if k == "COMMA":
            if not in_args:
                # optional / normalised by str() everywhere but in filter arguments - except
                # the comma that makes a single primitive an array literal (`x = 'ab',`)
                nxt = tokens[i + 1].type_.name if i + 1 < len(tokens) else "EOI"
                if i - seg_tok == 1 and nxt in ("EOI", "PIPE", "DOUBLE_PIPE", "IF") \
                        and ctx in ("OUTPUT", "echo", "assign", "for", "template-string"):
                    out.append(("ARRAY_COMMA", ctx, ""))
                continue
            if out and out[-1][0] in ("COMMA", "FILTER_COLON"):
                continue  # leading / duplicate commas are legal and meaningless
            out.append(("COMMA", "filter-args", ""))
            continue
        if k == "OR_WORD" and ctx == "when":
            continue  # `when a or b` == `when a, b`
        if k == "ASSIGN":
            k = "COLON"
            if ctx == "assign":
                seg_tok = i + 1
        if k == "IN" and ctx in ("for", "tablerow"):
            seg_tok = i + 1
        if k == "LPAREN":
            j = _is_lambda_params(tokens, i)
            if j >= 0:
                skip.add(j)
                continue
        if tn == "PathToken":
            out.append(("PATH", c, _path_text(tok)))
        elif tn == "RangeToken":
            out.append(("RANGE", c, ""))
            _flat_expr([tok.range_start], c, out)
            _flat_expr([tok.range_stop], c, out)
        elif tn == "TemplateStringToken":
            out.append(("TEMPLATE_STRING", c, ""))
            for part in tok.template:
                if type(part).__name__ == "OutputToken":
                    out.append(("INTERP", "template-string", ""))
                    _flat_expr(part.expression, "template-string", out)
                else:
                    out.append(("STRING", "template-string", _unesc(part)))
            out.append(("END_TEMPLATE_STRING", c, ""))
        elif k in _STR_KINDS:
            out.append(("STRING", c, _unesc(tok)))
        elif k == "WORD":
            if ctx in ("for", "tablerow") and tok.value == "continue" and out and out[-1][0] == "COLON":
                out.append(("STRING", c, "continue"))  # `offset: continue` == `offset:'continue'`
            elif ctx in ("for", "tablerow") and repr(tok.value) in _LOOP_ARGS:
                out.append(("LOOP_KEYWORD", c, repr(tok.value)))  # not the variable ['limit']
            else:
                out.append(("PATH", c, repr(tok.value)))
        elif k in ("INT", "FLOAT"):
            out.append((k, c, _num_text(k, tok.value)))
        elif k == "NULL":
            out.append((k, c, ""))  # nil == null
        else:
            out.append((k, c, getattr(tok, "value", "")))
    if in_args and out and out[-1][0] == "COMMA":
        out.pop()


_LOOP_ARGS = {"'limit'": 0, "'offset'": 1, "'cols'": 2, "'reversed'": 3}


def _canon_loop_args(out: Flat, start: int) -> None:
    """Loop arguments may come in any order; str() prints limit, offset, cols, reversed."""
    # skip `<var> in <iterable>`
    i = start
    first = None
    while i < len(out):
        k, _, v = out[i]
        if k == "LOOP_KEYWORD" and i >= start + 3 and (
            v == "'reversed'" or (i + 1 < len(out) and out[i + 1][0] == "COLON")
        ):
            first = i
            break
        i += 1
    if first is None:
        return
    groups: list[list[tuple[str, str, str]]] = []
    for item in out[first:]:
        k, _, v = item
        if k == "LOOP_KEYWORD" and (not groups or len(groups[-1]) != 2 or groups[-1][1][0] != "COLON"):
            groups.append([item])
        elif groups:
            groups[-1].append(item)
    groups.sort(key=lambda g: _LOOP_ARGS.get(g[0][2], 9))
    out[first:] = [x for g in groups for x in g]


_WC_SYM = {"PLUS": "+", "MINUS": "-", "TILDE": "~", "DEFAULT": "."}


def _wc(tok: Any, name: str, out: Flat) -> None:
    labels = ("WCL", "WCR") if len(tok.wc) == 2 else ("WC1", "WC2", "WC3", "WC4")
    for lab, w in zip(labels, tok.wc):
        out.append((lab + _WC_SYM.get(getattr(w, "name", ""), "?"), name, ""))


def _flat(tokens: list[Any], out: Flat, ctx: str = "TEMPLATE") -> None:
    for t in tokens:
        tn = type(t).__name__
        if tn == "ContentToken":
            out.append(("CONTENT", ctx, t.text))
        elif tn == "RawToken":
            out.append(("RAW", ctx, t.text))
            _wc(t, "raw", out)
        elif tn == "BlockCommentToken":
            out.append(("COMMENT:block", ctx, t.text))
            if ctx != "liquid":
                # only the outer two markers of a block comment are kept by the lexer
                _wc(t, "comment", out)
        elif tn == "InlineCommentToken":
            out.append(("COMMENT:inline", ctx, t.text))
            _wc(t, "#", out)
        elif tn == "CommentToken":
            if ctx == "liquid":
                out.append(("COMMENT:line", ctx, t.text))
            else:
                out.append(("COMMENT:#", ctx, t.text))
                _wc(t, "{#", out)
        elif tn == "OutputToken":
            out.append(("OUTPUT", ctx, ""))
            _wc(t, "OUTPUT", out)
            _flat_expr(t.expression, "OUTPUT", out)
        elif tn == "TagToken":
            out.append((f"TAG:{t.name}", ctx, ""))
            if ctx != "liquid":
                _wc(t, t.name, out)
            if t.name == "endblock":
                continue  # the optional block name after endblock is always printed by str()
            start = len(out)
            _flat_expr(t.expression, t.name, out)
            if t.name in ("for", "tablerow"):
                _canon_loop_args(out, start)
        elif tn == "LinesToken":
            out.append(("LINES", ctx, ""))
            _wc(t, "liquid", out)
            _flat(t.statements, out, "liquid")
            out.append(("END_LINES", ctx, ""))
        else:
            out.append((tn, ctx, ""))


_VALUE_NAMES = {
    "STRING": "string-literal-value", "INT": "number-literal-value", "FLOAT": "number-literal-value",
    "PATH": "path-value", "CONTENT": "content-text", "RAW": "raw-text", "FILTER_NAME": "filter-name",
}


def _top_kind_at(tokens: list[Any], pos: int) -> str:
    for t in tokens:
        try:
            if pos < t.stop:
                tn = type(t).__name__
                if tn == "TagToken":
                    return f"TAG:{t.name}"
                return {"ContentToken": "CONTENT", "RawToken": "RAW", "OutputToken": "OUTPUT",
                        "LinesToken": "LINES"}.get(tn, "COMMENT" if "Comment" in tn else tn)
        except Exception:  # noqa: BLE001
            break
    return "END"


def _ctx_of(item: tuple[str, str, str]) -> str:
    k, c, _ = item
    if c == "template-string" and k in ("STRING", "INTERP"):
        return c
    return "expr" if k in _EXPR_KINDS else c


def _cls(kind: str) -> str:
    return kind[:3] if kind.startswith("WC") else kind.split(":")[0]


def _pair_block(fb: Flat, fa: Flat, i1: int, i2: int, j1: int, j2: int) -> list[str]:
    """Divergences of one non-matching block, in order of position in the original."""
    bi = list(range(i1, i2))
    aj = list(range(j1, j2))
    res: list[tuple[float, str]] = []
    pairs: list[tuple[int, int]] = []
    # a separator / bracket present on one side only is a deletion / insertion, never a
    # replacement; a lost comma is listed first because it is what merges its neighbours
    whole_markup = any(_cls(fb[i][0]) in ("TAG", "OUTPUT", "LINES") for i in bi)
    for sep, prio in (("COMMA", 0.0 if whole_markup else -1.0), ("LPAREN", 0.0), ("RPAREN", 0.0)):
        if not any(fa[j][0] == sep for j in aj):
            for i in [i for i in bi if fb[i][0] == sep]:
                res.append((i1 + prio if prio else i, f"{sep}-><missing>@{_ctx_of(fb[i])}"))
                bi.remove(i)
        elif not any(fb[i][0] == sep for i in bi):
            for j in [j for j in aj if fa[j][0] == sep]:
                res.append((i1 + (j - j1) + 0.5, f"<missing>->{sep}@{_ctx_of(fa[j])}"))
                aj.remove(j)
    # tokens of the same class (a tag for a tag, a marker for a marker) belong together
    for i in list(bi):
        for j in aj:
            if _cls(fb[i][0]) == _cls(fa[j][0]) and ":" in fb[i][0] + fa[j][0] or (
                fb[i][0].startswith("WC") and _cls(fb[i][0]) == _cls(fa[j][0])
            ):
                pairs.append((i, j))
                bi.remove(i)
                aj.remove(j)
                break
    for i, j in zip(list(bi), list(aj)):
        pairs.append((i, j))
        bi.remove(i)
        aj.remove(j)
    for i, j in pairs:
        if fb[i][0] != fa[j][0]:
            res.append((i, f"{fb[i][0]}->{fa[j][0]}@{_ctx_of(fb[i])}"))
    for i in bi:
        res.append((i, f"{fb[i][0]}-><missing>@{_ctx_of(fb[i])}"))
    for j in aj:
        res.append((i1 + (j - j1) + 0.5, f"<missing>->{fa[j][0]}@{_ctx_of(fa[j])}"))
    res.sort(key=lambda x: x[0])
    return [r for _, r in res]


# Divergences that str() makes by design (it drops redundant parentheses, parenthesises the
# operand of `not`, unquotes quoted names).  They name the mechanism only when nothing else
# differs.
_BY_DESIGN = {"LPAREN-><missing>@expr", "RPAREN-><missing>@expr", "<missing>->LPAREN@expr",
              "<missing>->RPAREN@expr", "STRING->PATH@expr",
              # `include … for` and `include … with` are the same thing to IncludeNode.render
              "FOR->WITH@include"}


def _prioritise(divs: list[str]) -> list[str]:
    return [d for d in divs if d not in _BY_DESIGN] + [d for d in divs if d in _BY_DESIGN]


def divergences(kind: str, before: str, after: str) -> list[str]:
    """All divergences, in source order, between the normalised token streams of *before*
    and of *after* = str(parse(before)).  Kind divergences (a token dropped, added or
    replaced) come first; if there is none, value divergences between same-kind tokens; if
    the streams are identical, where the texts first differ."""
    import difflib

    env = _env(kind, {})
    try:
        tb = env.tokenize(before)
    except Exception as e:  # noqa: BLE001
        return [f"original-untokenizable({type(e).__name__})"]
    fb: Flat = []
    _flat(tb, fb)
    try:
        ta = env.tokenize(after)
    except Exception as e:  # noqa: BLE001
        msg = re.sub(r"'[^']*'|\"[^\"]*\"|\d+", "_", str(getattr(e, "message", e)).split("\n")[0])[:60]
        return [f"untokenizable({msg})"]
    fa: Flat = []
    _flat(ta, fa)
    kb = [x[0] for x in fb]
    ka = [x[0] for x in fa]
    out: list[str] = []
    values: list[str] = []
    sm = difflib.SequenceMatcher(None, kb, ka, autojunk=False)
    for op, i1, i2, j1, j2 in sm.get_opcodes():
        if op == "equal":
            for i, j in zip(range(i1, i2), range(j1, j2)):
                if fb[i][2] != fa[j][2]:
                    k = fb[i][0]
                    name = _VALUE_NAMES.get(k, "comment-text" if k.startswith("COMMENT") else f"{k}-value")
                    values.append(f"{name}@{_ctx_of(fb[i])}")
            continue
        out.extend(_pair_block(fb, fa, i1, i2, j1, j2))
    out = list(dict.fromkeys(out))
    values = list(dict.fromkeys(values))
    causal = [d for d in out if d not in _BY_DESIGN]
    by_design = [d for d in out if d in _BY_DESIGN]
    if causal:
        return causal + by_design
    if values:
        return values + by_design  # a changed value outranks a spelling change made by design
    if by_design:
        return by_design
    n = 0
    while n < min(len(before), len(after)) and before[n] == after[n]:
        n += 1
    return [f"same-tokens@{_top_kind_at(tb, n)}"]


def _msg_class(e: BaseException) -> str:
    msg = str(getattr(e, "message", None) or e).split("\n")[0]
    msg = re.sub(r"'[^']*'|\"[^\"]*\"", "_", msg)
    msg = re.sub(r"\d+", "N", msg)
    return msg[:70]


def key_parts(kind: str, f: Failure) -> tuple[str, list[str], str]:
    """(key prefix, candidate divergences in order, human text)."""
    if f.coarse == "str-raises":
        return (f"str-raises:{type(f.err).__name__}", [f"({_msg_class(f.err)})"],
                f"str(template) raised {type(f.err).__name__}: {f.err}")
    before, after = f.texts[f.iter - 1], f.texts[f.iter]
    divs = divergences(kind, before, after)
    it = "" if f.iter == 1 else f"iter{f.iter}:"
    if f.coarse == "reparse":
        return (f"reparse:{it}{type(f.err).__name__}:", divs,
                f"str() output does not parse ({type(f.err).__name__}: {_msg_class(f.err)}): "
                f"{before!r} -> {after!r}")
    if f.coarse == "behaviour":
        j = next((i for i, (a, b) in enumerate(zip(f.base, f.got)) if a != b), 0)
        return (f"behaviour:{it}", divs,
                f"str() output renders differently: {before!r} -> {after!r}; data set {j}: "
                f"{f.base[j]!r} vs {f.got[j]!r}")
    return ("nofix:", divs, f"no fixpoint after 3 round trips: s2={before!r} s3={after!r}")


def mech_key(kind: str, f: Failure) -> tuple[str, str]:
    prefix, divs, what = key_parts(kind, f)
    return prefix + divs[0], what


# ---------------------------------------------------------------------------
# minimisation
# ---------------------------------------------------------------------------


def _chunks(kind: str, text: str) -> list[str] | None:
    try:
        toks = _env(kind, {}).tokenize(text)
    except Exception:  # noqa: BLE001
        return None
    out, prev = [], 0
    for t in toks:
        stop = getattr(t, "stop", None)
        if not isinstance(stop, int) or stop < prev or stop > len(text):
            return None
        out.append(text[prev:stop])
        prev = stop
    if prev != len(text):
        out.append(text[prev:])
    return out if "".join(out) == text else None


def _drop_pairs(chunks: list[str], test: Callable[[list[str]], bool]) -> list[str]:
    """ddmin removes contiguous runs only; an opening and a closing tag around what matters
    are not contiguous.  Try every pair when the list is short."""
    changed = True
    while changed and 2 < len(chunks) <= 14:
        changed = False
        for i in range(len(chunks)):
            for j in range(i + 1, len(chunks)):
                cand = chunks[:i] + chunks[i + 1:j] + chunks[j + 1:]
                if cand and test(cand):
                    chunks = cand
                    changed = True
                    break
            if changed:
                break
    return chunks


def _shrink_text(kind: str, text: str, test: Callable[[str], bool], budget: int) -> str:
    used = [0]

    def t(s: str) -> bool:
        used[0] += 1
        return test(s)

    ch = _chunks(kind, text)
    if ch and len(ch) > 1:
        ch = ddmin(ch, lambda c: t("".join(c)), max_calls=budget // 3)
        ch = _drop_pairs(ch, lambda c: t("".join(c)))
        text = "".join(ch)
    if len(text) <= 600:
        text = "".join(ddmin(list(text), lambda c: t("".join(c)), max_calls=max(40, budget - used[0])))
    return text


def _paren_pairs(text: str) -> list[tuple[int, int]]:
    stack, pairs = [], []
    for i, ch in enumerate(text):
        if ch == "(":
            stack.append(i)
        elif ch == ")" and stack:
            pairs.append((stack.pop(), i))
    return pairs


def minimise(case: Case, f: Failure, budget: int = 420) -> tuple[Case, Failure]:
    """Shrink while the same kind of failure persists: first coarsely (data sets, partials,
    whole top-level markup chunks, redundant parentheses), then character by character while
    the *mechanism key* stays the same, so the result does not drift to another defect."""
    coarse = f.coarse
    calls = [0]

    def fails(c: Case) -> Failure | None:
        calls[0] += 1
        st, ff, _ = roundtrip(c)
        return ff if st == "fail" and ff is not None and ff.coarse == coarse else None

    cur, curf = case, f
    if len(cur.datas) > 1:
        j = 0
        if coarse == "behaviour":
            j = next((i for i, (a, b) in enumerate(zip(f.base, f.got)) if a != b), 0)
        c2 = Case(cur.kind, cur.source, cur.templates, cur.subject, [cur.datas[j]])
        ff = fails(c2)
        if ff:
            cur, curf = c2, ff
    for name in list(cur.templates):
        if name == cur.subject:
            continue
        t2 = {k: v for k, v in cur.templates.items() if k != name}
        c2 = Case(cur.kind, cur.source, t2, cur.subject, cur.datas)
        ff = fails(c2)
        if ff:
            cur, curf = c2, ff
    base_case = cur

    def accept(text: str, same_key: str | None = None) -> bool:
        nonlocal cur, curf
        c2 = base_case.with_text(text)
        ff = fails(c2)
        if ff is None:
            return False
        if same_key is not None and (text.count(",") < cur.text().count(",")
                                     or mech_key(c2.kind, ff)[0] != same_key):
            # (deleting a comma turns `f: a, b` into the equally legal `f: a b`, which is
            # another way into the same defect and would only multiply the keys)
            return False
        cur, curf = c2, ff
        return True

    # whole chunks
    ch = _chunks(cur.kind, cur.text())
    if ch and len(ch) > 1:
        ch = ddmin(ch, lambda c: accept("".join(c)), max_calls=budget // 3)
        _drop_pairs(ch, lambda c: accept("".join(c)))
    # redundant parentheses
    changed = True
    while changed and calls[0] < budget:
        changed = False
        text = cur.text()
        for a, b in _paren_pairs(text):
            if accept(text[:a] + text[a + 1:b] + text[b + 1:]):
                changed = True
                break
    # characters, same mechanism
    text = cur.text()
    if len(text) <= 700 and calls[0] < budget:
        key = mech_key(cur.kind, curf)[0]
        ddmin(list(text), lambda c: accept("".join(c), key), max_calls=max(60, budget - calls[0]))
    return cur, curf


# ---------------------------------------------------------------------------
# pickle
# ---------------------------------------------------------------------------


def pickle_check(case: Case, root: Any = None) -> tuple[str, str, str]:
    """-> (status, key, what); status in ok | fail | invalid."""
    if root is None:
        try:
            root = _env(case.kind, case.templates).from_string(case.source)
        except Exception:  # noqa: BLE001
            return "invalid", "", ""
    base = _render_all(root, case.datas)
    try:
        base_str = str(root)
    except Exception:  # noqa: BLE001
        base_str = None  # str() failures are the round-trip check's business
    try:
        blob = pickle.dumps(root)
    except Exception as e:  # noqa: BLE001
        return ("fail", f"pickle-dumps:{type(e).__name__}({_msg_class(e)})",
                f"pickle.dumps(template) raised {type(e).__name__}: {e}")
    try:
        t2 = pickle.loads(blob)  # noqa: S301
    except Exception as e:  # noqa: BLE001
        return ("fail", f"pickle-loads:{type(e).__name__}({_msg_class(e)})",
                f"pickle.loads(pickle.dumps(template)) raised {type(e).__name__}: {e}")
    got = _render_all(t2, case.datas)
    if got != base:
        j = next((i for i, (a, b) in enumerate(zip(base, got)) if a != b), 0)
        return ("fail", "pickle-behaviour",
                f"unpickled template renders differently on data set {j}: {base[j]!r} vs {got[j]!r}")
    if base_str is not None:
        try:
            s2 = str(t2)
        except Exception as e:  # noqa: BLE001
            return ("fail", "pickle-str", f"str(unpickled template) raised {type(e).__name__}: {e}")
        if s2 != base_str:
            return ("fail", "pickle-str", f"str() differs after pickling: {base_str!r} vs {s2!r}")
    # copy.deepcopy goes through the same __reduce_ex__ protocol
    try:
        t3 = copy.deepcopy(root)
    except Exception as e:  # noqa: BLE001
        return ("fail", f"deepcopy:{type(e).__name__}({_msg_class(e)})",
                f"copy.deepcopy(template) raised {type(e).__name__}: {e}")
    got3 = _render_all(t3, case.datas)
    if got3 != base:
        j = next((i for i, (a, b) in enumerate(zip(base, got3)) if a != b), 0)
        return ("fail", "deepcopy-behaviour",
                f"deep-copied template renders differently on data set {j}: {base[j]!r} vs {got3[j]!r}")
    if base_str is not None:
        try:
            s3 = str(t3)
        except Exception as e:  # noqa: BLE001
            return ("fail", "deepcopy-str", f"str(deep-copied template) raised {type(e).__name__}: {e}")
        if s3 != base_str:
            return ("fail", "deepcopy-str", f"str() differs after deepcopy: {base_str!r} vs {s3!r}")
    return "ok", "", ""


# ---------------------------------------------------------------------------
# AST walk (coverage evidence + non-triviality)
# ---------------------------------------------------------------------------

_TRIVIAL_EXPR = {"Path", "StringLiteral", "IntegerLiteral", "FloatLiteral", "TrueLiteral", "FalseLiteral",
                 "Null", "Empty", "Blank", "FilteredExpression", "BooleanExpression"}


def walk(template: Any) -> tuple[set[str], set[str], bool]:
    """-> (node classes, expression classes, has a filter)."""
    from liquid2 import RenderContext

    nodes: set[str] = set()
    exprs: set[str] = set()
    has_filter = [False]
    try:
        sc = RenderContext(template)
    except Exception:  # noqa: BLE001
        return nodes, exprs, False

    def vexpr(e: Any, depth: int = 0) -> None:
        if e is None or depth > 40:
            return
        exprs.add(type(e).__name__)
        if getattr(e, "filters", None) or getattr(e, "tail_filters", None):
            has_filter[0] = True
        try:
            kids = e.children()
        except Exception:  # noqa: BLE001
            kids = []
        for k in kids:
            vexpr(k, depth + 1)

    def vnode(n: Any, depth: int = 0) -> None:
        if depth > 60:
            return
        nodes.add(type(n).__name__)
        try:
            for e in n.expressions():
                vexpr(e)
        except Exception:  # noqa: BLE001
            pass
        try:
            kids = list(n.children(sc, include_partials=False))
        except Exception:  # noqa: BLE001
            kids = []
        for k in kids:
            vnode(k, depth + 1)

    for n in template.nodes:
        vnode(n)
    return nodes, exprs, has_filter[0]


# ---------------------------------------------------------------------------
# the monitor
# ---------------------------------------------------------------------------


class Monitor:
    def __init__(self, ctx: Ctx) -> None:
        self.ctx = ctx
        self.confirmed: set[str] = set()
        self.pickle_keys: dict[str, str] = {}
        self.minimised = 0

    def _report(self, case: Case, f: Failure, calibration: bool = False) -> str:
        """Attribute the failure to a mechanism.  A divergence that an already minimised
        witness has shown to be causal (in this shard) is taken as the mechanism without
        minimising again; otherwise the case is minimised and keyed from the result."""
        ctx = self.ctx
        if not calibration:
            ctx.count("failures:" + f.coarse)
        prefix, divs, what = key_parts(case.kind, f)
        for d in divs:
            if prefix + d in self.confirmed:
                ctx.violation(prefix + d, what, case.witness())
                return prefix + d
        if self.minimised >= MAX_MINIMISE_PER_SHARD and not calibration:
            ctx.count("unminimised_violations")
            key = prefix + divs[0]
            ctx.violation(key, what + " (not minimised: per-shard minimisation budget used up)",
                          case.witness())
            return key
        self.minimised += 1
        ctx.count("minimisations")
        try:
            c2, f2 = minimise(case, f)
            key, what2 = mech_key(c2.kind, f2)
            wit = c2.witness()
            if c2.text() != case.text():
                wit["minimised_from"] = case.text()
        except RecursionError:
            key, what2, wit = prefix + divs[0], what, case.witness()
        self.confirmed.add(key)
        ctx.violation(key, what2, wit)
        return key

    def calibrate(self, seed: int) -> None:
        """Run a fixed list of tiny single-construct templates first, so that the mechanisms
        they expose are keyed from their (tiny, hence unambiguous) witnesses and larger
        random templates that contain the same divergence are attributed to the same key
        instead of being minimised into some variant of it.  Not counted as evidence."""
        datas = G.datasets(random.Random(f"{seed}:units:data"))
        for kind, src in calibration_list():
            case = Case(kind, src, G.PARTIALS, "", datas)
            status, f, _ = roundtrip(case)
            if status == "fail" and f is not None:
                self.ctx.count("calibration_failures")
                self._report(case, f, calibration=True)
        self.minimised = 0

    def check(self, case: Case, *, do_pickle: bool, feats: Any = (), label: str = "") -> str:
        """Examine one subject.  Returns 'invalid' | 'ok' | violation key."""
        ctx = self.ctx
        status, f, root = roundtrip(case)
        if status == "invalid":
            ctx.count("rejected_by_parser:" + (label or "case"))
            return "invalid"
        ctx.ev()
        ctx.count("roundtrips")
        ctx.count("roundtrips:" + (label or "case"))
        if case.subject:
            ctx.count("partial_subjects")
        for ft in feats:
            ctx.seen("features", ft)
        # coverage evidence
        st = root
        if case.subject:
            try:
                st = _build(case, case.text())[1]
            except Exception:  # noqa: BLE001
                st = root
        nodes, exprs, has_filter = walk(st)
        for c in nodes:
            ctx.seen("classes", c)
            ctx.seen("node_classes", c)
        for c in exprs:
            ctx.seen("classes", c)
            ctx.seen("expression_classes", c)
        if len(nodes) >= 3 and (has_filter or (exprs - _TRIVIAL_EXPR)):
            ctx.nt(case.kind, case.text(), sorted(case.templates.items()) if case.subject else "")
        result = "ok"
        if f is not None and f.coarse == "behaviour":
            # Guard against renders that are not a function of their inputs (e.g. a cycle
            # group keyed by object identity inside a partial that is re-parsed per
            # iteration): the difference must reproduce exactly on a second, fresh run.
            st2, f2, _ = roundtrip(case)
            if not (st2 == "fail" and f2 is not None and f2.coarse == "behaviour"
                    and f2.base == f.base and f2.got == f.got and f2.iter == f.iter):
                ctx.count("nondeterministic_renders_skipped")
                ctx.note("render outcome not reproducible (not attributed to str()): "
                         + repr(case.text())[:300])
                f = None
        if f is not None:
            result = self._report(case, f)
        else:
            ctx.count("roundtrips_held")
        if do_pickle and case.subject == "":
            ctx.ev()
            ctx.count("pickles")
            pst, pkey, pwhat = pickle_check(case, root)
            if pst == "ok":
                ctx.count("pickle_renders_compared")
            elif pst == "fail":
                ctx.count("failures:pickle")
                if pkey not in self.pickle_keys and self.minimised < MAX_MINIMISE_PER_SHARD:
                    self.minimised += 1
                    small = self._min_pickle(case, pkey)
                    final = pkey
                    if pkey in ("pickle-behaviour", "pickle-str", "deepcopy-behaviour", "deepcopy-str"):
                        # name the construct: the classes left in the minimised witness
                        try:
                            n, e, _ = walk(_env(small.kind, small.templates).from_string(small.source))
                            final = pkey + "@" + "+".join(sorted(
                                (n | e) - {"OutputNode", "ContentNode", "FilteredExpression", "BooleanExpression"}))[:90]
                        except Exception:  # noqa: BLE001
                            pass
                    self.pickle_keys[pkey] = final
                    ctx.violation(final, pwhat, small.witness("pickle"))
                else:
                    ctx.violation(self.pickle_keys.get(pkey, pkey), pwhat, case.witness("pickle"))
                pkey = self.pickle_keys.get(pkey, pkey)
                if result == "ok":
                    result = pkey
        return result

    def _min_pickle(self, case: Case, key: str) -> Case:
        c0 = Case(case.kind, case.source, case.templates, "", case.datas[:1])
        if pickle_check(c0)[1] != key:
            c0 = case

        def test(s: str) -> bool:
            return pickle_check(c0.with_text(s))[1] == key

        try:
            small = _shrink_text(case.kind, c0.source, test, 1200)
            c1 = c0.with_text(small)
            if pickle_check(c1)[1] == key:
                return c1
        except RecursionError:
            pass
        return c0


# ---------------------------------------------------------------------------
# workloads
# ---------------------------------------------------------------------------


_CALIBRATION: list[tuple[str, str]] = []


def calibration_list() -> list[tuple[str, str]]:
    if not _CALIBRATION:
        out = []
        for p, _f in G.prims("any"):
            out.append(("shopify", "{{ " + p + " }}"))
            out.append(("shopify", "{{ s | append: " + p + " }}"))
        for form, _f in G.FILTER_FORMS:
            out.append(("shopify", form.replace("{s}", ", ").replace("{k}", ": ")))
        for src, _f in G._tag_units():  # noqa: SLF001
            out.append(("shopify", src))
        n = 0
        for b, _f in G._bool_trees():  # noqa: SLF001
            n += 1
            if n % 7 == 0:
                out.append(("shopify", "{% if " + b + " %}T{% else %}F{% endif %}"))
        for w in ("-", "~", "+"):
            out.append(("shopify-minus", f" a {{{{{w} s {w}}}}} b {{%{w} if t {w}%}} c {{%{w} endif {w}%}} d "
                        f"{{%{w} raw {w}%}} r {{%{w} endraw {w}%}} e "))
        _CALIBRATION.extend(out)
    return _CALIBRATION


def _perturb(o: Any, depth: int = 0) -> Any:
    if depth > 12:
        return o
    if isinstance(o, bool):
        return not o
    if isinstance(o, int):
        return o + 1
    if isinstance(o, float):
        return o * 2 + 0.5
    if isinstance(o, str):
        return o[::-1] if len(o) > 1 else ""
    if isinstance(o, list):
        return [_perturb(v, depth + 1) for v in reversed(o)]
    if isinstance(o, dict):
        return {k: _perturb(v, depth + 1) for k, v in o.items()}
    return o


_TIME_DEPENDENT = re.compile(r"""['"](now|today)['"]""")


def _corpus(spec: dict[str, Any], ctx: Ctx) -> None:
    mon = Monitor(ctx)
    mon.calibrate(spec["seed"])
    thorough = spec["tier"] != "quick"
    last = None
    for ci, c in enumerate(corpus.valid_cases()):
        if ci % spec["n"] != spec["i"]:
            continue
        src, tpls, data = c["template"], c["templates"], c["data"]
        if _TIME_DEPENDENT.search(src) or any(_TIME_DEPENDENT.search(v) for v in tpls.values()):
            ctx.count("corpus_time_dependent_skipped")
            continue
        datas = [data]
        if data:
            datas += [{}, _perturb(data)]
        kinds = ["std", "shopify", "std-minus", "std+esc", "std+strict"] if thorough else ["std", "std+esc"]
        for kind in kinds:
            mon.check(Case(kind, src, tpls, "", datas), do_pickle=(kind == "std"), label="corpus" if kind == "std" else "corpus-config")
            for name in tpls:
                mon.check(Case(kind, src, tpls, name, datas), do_pickle=False, label="corpus-partial")
        ctx.count("corpus_cases")
        last = c
    if last:
        ctx.sample({"kind": "corpus", "name": last["name"], "source": last["template"]})


def _unit_list(tier: str) -> list[tuple[str, str, str]]:
    units = G.unit_cases()
    if tier != "quick":
        return units
    # quick: every Boolean tree at 2 of the 9 Boolean sites (rotating), everything else in
    # full.  Boolean units are emitted tree-major, site-minor.
    nsites = len(G.BOOL_SITES)
    out = []
    k = 0
    import zlib

    big = ("path-edge-ws", "str-edge-ws", "str-invisible", "path-invisible", "tstr-invisible",
           "path-nested-reserved", "path-nested-loop", "path-backslash", "tstr-mixed")
    always = {"output", "filter-arg", "liquid-echo", "for-iter", "if", "range-stop", "liquid-for-array-literal",
              "for-limit", "tablerow-cols", "liquid-if", "tstr-interp", "lambda-body-cmp"}
    for lab, feat, src in units:
        if lab == "prim-site" and feat.startswith(big):
            # quick: the large character / keyword families at the essential sites plus a
            # rotating third of the others (thorough runs every primitive at every site)
            if feat.rsplit("@", 1)[-1] in always or zlib.crc32(feat.encode()) % 3 == 0:
                out.append((lab, feat, src))
            continue
        if lab != "bool":
            out.append((lab, feat, src))
            continue
        tree_idx, site = divmod(k, nsites)
        k += 1
        if site in (tree_idx % nsites, (tree_idx + 4) % nsites):
            out.append((lab, feat, src))
    return out


def _units(spec: dict[str, Any], ctx: Ctx) -> None:
    mon = Monitor(ctx)
    mon.calibrate(spec["seed"])
    rng = random.Random(f"{spec['seed']}:units:data")
    datas = G.datasets(rng)  # the same 5 data sets in every units shard
    units = _unit_list(spec["tier"])
    last = None
    for ui, (lab, feat, src) in enumerate(units):
        if ui % spec["n"] != spec["i"]:
            continue
        shop = "tablerow" in src or ui % 2 == 0
        kind = "shopify" if shop else "std"
        if ui % 8 == 7:
            kind = "shopify-tilde" if shop else "std-minus"
        kinds = [kind]
        # configuration axis: auto-escaping (where a string literal, a template string and a
        # variable are three different things) and strict undefined
        if "${" in src or "<" in src or "&" in src or lab == "htmlts" or ui % 5 == 1:
            kinds.append(kind + "+esc")
        if ui % 9 == 4 or lab == "htmlts":
            kinds.append(kind + "+strict" if ui % 2 else kind + "+esc+strict")
        if lab in ("wc", "branch") or "raw" in src or ui % 11 == 3:
            kinds.append("shopify+trim1" if ui % 3 else "shopify-tilde+trim1")
        if lab in ("wc", "branch"):
            # whitespace-control units also under non-default default_trim settings, where an
            # explicit `+` is not the same as no marker
            kinds = ["shopify", "shopify-minus", "shopify-tilde", "shopify+trim1" if ui % 2 else "shopify-minus+trim1"]
        for kind in kinds:
            r = mon.check(Case(kind, src, G.PARTIALS, "", datas), do_pickle=(kind == kinds[0]),
                          feats=(f"{lab}:{feat}",), label="unit-" + lab)
            if r != "invalid":
                last = (lab, feat, src)
            ctx.seen("environments", kind)
    # Direct form of what the round trip relies on: a program and the same program with
    # one cycle group's tags respelled (quotes, number spelling, nil/null, escapes,
    # whitespace, trailing comma, quoted group name - everything str() normalises) are the
    # same program ("cycle tags with the same items share one iterator").
    if spec["i"] == 0:
        for feat, prog, twin in G.RESPELLED:
            try:
                env = _env("shopify", G.PARTIALS)
                a = _render_all(env.from_string(prog), datas)
                b = _render_all(env.from_string(twin), datas)
            except Exception:  # noqa: BLE001
                ctx.count("rejected_by_parser:respelling")
                continue
            ctx.ev()
            ctx.count("respelling_pairs")
            if a != b:
                j = next((i for i, (x, y) in enumerate(zip(a, b)) if x != y), 0)
                ctx.violation("respelling:" + feat.rsplit("-", 1)[0],
                              f"equal cycle groups spelled differently do not share an iterator: {prog!r} renders "
                              f"{a[j]!r}, its canonical spelling {twin!r} renders {b[j]!r}",
                              {"check": "respelling", "kind": "shopify", "source": prog, "twin": twin,
                               "templates": G.PARTIALS, "datas": [datas[j]]})
    # the fixed partials are subjects too
    if spec["i"] == 0:
        for name in G.PARTIALS:
            root = f"{{% include '{name}' %}}|{{% render '{name}', x: 1 %}}"
            if name in ("mid",):
                root = "{% extends 'mid' %}{% block b2 %}leaf{% endblock %}"
            if name in ("base", "reqbase"):
                root = f"{{% extends '{name}' %}}{{% block b1 %}}c{{% endblock %}}{{% block rq %}}r{{% endblock %}}"
            mon.check(Case("shopify", root, G.PARTIALS, name, datas), do_pickle=False, label="unit-partial")
    if last:
        ctx.sample({"kind": "unit", "label": last[0], "feature": last[1], "source": last[2]})


def _compose(spec: dict[str, Any], ctx: Ctx) -> None:
    mon = Monitor(ctx)
    mon.calibrate(spec["seed"])
    n = spec["count"]
    last = None
    for j in range(n):
        rng = random.Random(f"{spec['seed']}:compose:{spec['i']}:{j}")
        shopify = rng.random() < 0.6
        depth = rng.choice([1, 2, 2, 3, 3]) if spec["tier"] == "quick" else rng.choice([1, 2, 3, 3, 4])
        src, tpls, feats = G.random_case(rng, shopify, max_depth=depth)
        datas = G.datasets(rng)
        kind = ("shopify" if shopify else "std") + rng.choice(["", "", "", "", "", "-minus", "-tilde"]) \
            + rng.choice(["", "", "", "+esc", "+esc", "+strict", "+esc+strict", "+trim1", "+trim1+esc"])
        ctx.seen("environments", kind)
        r = mon.check(Case(kind, src, tpls, "", datas), do_pickle=True, feats=feats, label="compose")
        if r == "invalid":
            ctx.note(f"generator produced a source the parser rejects (seed {spec['seed']}:compose:{spec['i']}:{j})")
            continue
        for name in tpls:
            if name not in G.PARTIALS:
                mon.check(Case(kind, src, tpls, name, datas), do_pickle=False, label="compose-partial")
        last = src
    if last is not None:
        ctx.sample({"kind": "compose", "source": last})


# ---------------------------------------------------------------------------
# framework interface
# ---------------------------------------------------------------------------


def shards(tier: str, seed: int) -> list[dict[str, Any]]:
    specs: list[dict[str, Any]] = []
    if tier == "quick":
        nc, nu, nz, count = 1, 10, 4, 325
    else:
        nc, nu, nz, count = 4, 16, 44, 1500
    for i in range(nc):
        specs.append({"kind": "corpus", "i": i, "n": nc})
    for i in range(nu):
        specs.append({"kind": "units", "i": i, "n": nu})
    for i in range(nz):
        specs.append({"kind": "compose", "i": i, "n": nz, "count": count})
    ns = 2 if tier == "quick" else 6
    for i in range(ns):
        specs.append({"kind": "state", "i": i, "n": ns})
    return specs


def floors(tier: str) -> dict[str, int]:
    k = 1 if tier == "quick" else 20
    return {
        "roundtrips": 3000 * k,
        "set:classes": 40,
        "pickles": 5000 if tier == "quick" else 60000,
        "pickle_renders_compared": 3000 if tier == "quick" else 40000,
        "distinct_nontrivial": 800 * k,
        "roundtrips:corpus": 800,
        "set:features": 400,
        "state_pickles": 500 * (1 if tier == "quick" else 6),
        "state_compared": 800 * (1 if tier == "quick" else 6),
        "state_cases_rendering": 250,
        "set:state_paths": 16,
        "xproc_pickles": 300,
        "respelling_pairs": 30,
    }


def run_shard(spec: dict[str, Any], ctx: Ctx) -> None:
    kind = spec["kind"]
    if kind == "corpus":
        _corpus(spec, ctx)
    elif kind == "units":
        _units(spec, ctx)
    elif kind == "compose":
        _compose(spec, ctx)
    elif kind == "state":
        from .. import c12_state

        c12_state.run(spec, ctx)


def replay(wit: dict[str, Any], ctx: Ctx) -> None:
    case = Case(wit.get("kind", "std"), wit["source"], wit.get("templates") or {}, wit.get("subject", ""),
                wit.get("datas") or [{}])
    if wit.get("check") == "respelling":
        env = _env(wit.get("kind", "shopify"), wit.get("templates") or {})
        a = _render_all(env.from_string(wit["source"]), wit["datas"])
        b = _render_all(env.from_string(wit["twin"]), wit["datas"])
        print(f"replay C12 respelling: {wit['source']!r} -> {a!r}\n  twin {wit['twin']!r} -> {b!r}")
        if a != b:
            ctx.violation("respelling:cycle-spelling", "respelled cycle group renders differently", dict(wit))
        return
    if wit.get("check") in ("state", "xproc"):
        from .. import c12_state

        c12_state.replay(wit, ctx)
        return
    if wit.get("check") == "pickle":
        st, key, what = pickle_check(case)
        print(f"replay C12 pickle: status={st} key={key}\n  {what}")
        if st == "fail":
            ctx.violation(key, what, case.witness("pickle"))
        return
    status, f, _root = roundtrip(case)
    print(f"replay C12 roundtrip: status={status} env={case.kind} subject={case.subject or '<root>'}")
    if f is None:
        print(f"  s0 = {case.text()!r}")
        return
    for i, s in enumerate(f.texts):
        print(f"  s{i} = {s!r}")
    key, what = mech_key(case.kind, f)
    print(f"  failure: {f.coarse} at str() step {f.iter}; key={key}")
    if f.err is not None:
        print(f"  error: {type(f.err).__name__}: {str(f.err).splitlines()[0] if str(f.err) else ''}")
    if f.base is not None:
        for j, (a, b) in enumerate(zip(f.base, f.got)):
            flag = "  " if a == b else "!="
            print(f"  data[{j}] {flag} original={a!r} reparsed={b!r}")
    ctx.violation(key, what, case.witness())
