"""C15 — message extraction covers every catalog lookup a render can make.

Monitor: a `RecordingTranslations` catalog passed as the `translations` render variable
logs every `gettext/ngettext/pgettext/npgettext` call the real render makes.  Every
message id is unique (`m<serial>@<template> one`), so a logged lookup identifies the call
site that made it.  The generator below is its own emitter: it knows on which line it
wrote every translate tag and every string literal a translation filter is applied to
(the position map), which call sites are *obliged* by the statement, and in which order
comments and message sites were written.  The oracle relates the runtime log to
`extract_from_template(template)` of the template the call site is in.
"""

from __future__ import annotations

import os
import random
import re
import traceback
from typing import Any

from ..core import REPO_DIR
from ..core import Ctx
from ..gen import corpus
from ..instr.sched import drive

ID = "C15"
LEVEL = "exploration"
RULE = (
    "cases = (a) generated programs (root + 2-3 partials reached through include/render) "
    "mixing translate/plural blocks (count:/context: literal, empty, non-string and "
    "variable; message variables; multi-line bodies) and t/gettext/ngettext/pgettext/"
    "npgettext filters (literal and computed operands) placed in outputs, echo, assign, "
    "ternary branches, template strings inside if/elsif/unless/case/when/with/for/cycle/"
    "include/render/macro/call/translate arguments, loop/conditional/capture/macro bodies "
    "and {% liquid %} lines, with comments of all kinds (block, {# #}, inline, liquid "
    "line; tagged, untagged, other tag; single and multi-line) before and after messages, "
    "multi-line statements, LF/CRLF line ends; each program is rendered with 3 data sets "
    "(counts 0/1/2/1.5/'3'/'abc', flags flipped, sync and async); (b) a bounded-exhaustive "
    "family: every filter form x count spelling x placement as a one-site template; "
    "translator comments of every kind directly before ONE expression that yields 2+ "
    "messages (ternary with both branches, + tail-filter argument, template string with two "
    "messages, filter-argument message); the names the translate machinery takes as "
    "arguments (context, count, plural, message_context, ...) bound in the SURROUNDING scope "
    "(render data, assign, capture, for variable, with, macro parameter) around tags and "
    "filters that do not pass them; "
    "the SAME message used 2-4 times on different (or the same) lines through different "
    "routes (t filter, gettext-family filter, translate tag) as sibling statements or spread "
    "over a template's top level, judged as a multiset: every use site needs its own "
    "extracted entry of the right family on its line; 30% of the cases run in an environment "
    "where the filters / tag are registered under alias names and extraction is told through "
    "`keywords` (Babel-style dict with specs, list of names, defaults + aliases), the Babel "
    "catalog of extract_from_templates must contain every per-template entry at its line; "
    "count / context VALUES at render time drawn from a hostile pool (nil, booleans, lists, "
    "dicts, objects with and without __int__/__index__, inf, nan, huge ints, numeric and junk "
    "strings, floats) for tags with / without plural blocks and the t / ngettext / npgettext "
    "filters, plus an enumerated family rendering every count-bearing form once per pool value; "
    "extract_from_templates under every `keywords` style Babel allows (None specs for standard "
    "names, explicit tuple specs, general filter + tag only, registered names only, random "
    "subsets, aliases only, standard + aliases): the catalog must hold every entry "
    "extract_from_template reports under the same keywords; extract_liquid driven by Babel's "
    "own extract_from_file on real (binary) files and extract() on text; "
    "(c) empty / comment-only / blank templates, the compliance corpus and single-edit "
    "mutants of generated templates for 'extraction never fails'. distinct = hash of "
    "(templates, data); non-trivial = the render made >= 1 catalog lookup."
)
ASSUMPTIONS = [
    "a catalog lookup is attributed to a call site through the unique id embedded in the "
    "message text; lookups of computed strings (upcase, tail filters, dynamic operands) "
    "that no longer equal a site's literal are counted as unobliged, not judged",
    "line of a filter call site: the line of its string literal, or the line on which the "
    "enclosing top-level expression starts (both readings of 'originating expression' "
    "are accepted; they differ only for a ternary alternative / template string argument "
    "placed on a later line of a multi-line statement; counted as lineno_loose_reading)",
    "line = 1 + number of LF (or CRLF) before the position; no other line separator "
    "(FF, NEL, U+2028) is generated",
    "comment order is the order of markup units in the source; a comment attached to no "
    "message is never a violation (the statement is an only-if); 'immediately follows' is "
    "refuted by: attached to an earlier message, to a message beyond another extracted "
    "message, to two messages, an untagged comment, or >= 1 whole source line between the "
    "comment's last line and the line on which the message's statement starts",
    "use sites of a re-used message are siblings in one body, or all at the top level of one "
    "template, so they execute equally often; when the lookup count is not a multiple of the "
    "number of use sites the group falls back to the per-lookup judgement (reuse_groups_fallback)",
    "a non-string literal `context:` of a translate tag (5, true, 1.5) counts as a literal "
    "context (obliged); for filters only string-literal operands oblige (statement: 'applied "
    "to string literals')",
    "cycle tags hosting a message are generated in the root template only (the cycle group "
    "key is an identity hash; in a re-parsed partial the evaluated item is address-dependent)",
    "a render that raises is tolerated (C02's subject); lookups logged before the error "
    "are still judged",
]

P_FUNCS = ("pgettext", "npgettext")
N_FUNCS = ("ngettext", "npgettext")
ALL_FUNCS = ("gettext", "ngettext", "pgettext", "npgettext")
RE_ID = re.compile(r"m(\d+)@(\w+)")
RE_CID = re.compile(r"k(\d+)@(\w+)")


# ---------------------------------------------------------------------------
# the instrumented catalog
# ---------------------------------------------------------------------------


class RecordingTranslations:
    """Identity catalog that logs `(func, context, singular, plural, n)` per call."""

    def __init__(self) -> None:
        self.log: list[tuple[str, Any, Any, Any, Any]] = []

    def gettext(self, message: str) -> str:
        self.log.append(("gettext", None, message, None, None))
        return message

    def ngettext(self, singular: str, plural: str, n: int) -> str:
        self.log.append(("ngettext", None, singular, plural, n))
        return singular if n == 1 else plural

    def pgettext(self, context: str, message: str) -> str:
        self.log.append(("pgettext", context, message, None, None))
        return message

    def npgettext(self, context: str, singular: str, plural: str, n: int) -> str:
        self.log.append(("npgettext", context, singular, plural, n))
        return singular if n == 1 else plural


# ---------------------------------------------------------------------------
# data
# ---------------------------------------------------------------------------

BASE_DATA: dict[str, Any] = {
    "flag": True,
    "n": 2,
    "n2": 2,
    "items": [1, 2],
    "cx": "dynctx",
    "pl": "dynamic plural",
    "dm": "d0@data dynamic message",
    "who": "World",
    "nothing": None,
    "h": 2,     # hostile count value, redrawn per data set
    "hc": "hostile ctx",  # hostile context value
}
# render data binding the names that translate tags / filters accept as ARGUMENTS; a tag
# or filter that is not given them must not pick them up from the surrounding scope
SPECIAL_DATA: list[dict[str, Any]] = [
    {"context": "datactx"},
    {"context": "datactx", "count": 0, "plural": "data plural"},
    {"count": 0, "plural": "data plural", "message_context": "datactx2"},
    {"context": 7, "count": 5, "singular": "data singular", "message": "data message"},
    {"context": True, "count": 2, "plural": "data plural", "n": 2},
]
N_VALUES: list[Any] = [2, 0, 1, 1.5, "3", "abc", 7, True]

# count spellings: (source text, value or ("var", name))
COUNT_LITS: list[tuple[str, Any]] = [
    ("0", 0), ("1", 1), ("2", 2), ("5", 5), ("1.5", 1.5), ("'3'", "3"), ("'abc'", "abc"),
    ("true", True), ("nil", None),
]
COUNT_VARS = ["n", "n2", "h", "h"]

# values a count / context can take at render time.  {"$drop": kind} stands for an object
# (materialised just before the render so that witnesses stay plain JSON)
HOSTILE: list[Any] = [
    None, True, False, [], [1, 2], {}, {"a": 1}, {"$drop": "int"}, {"$drop": "index"},
    {"$drop": "noint"}, {"$drop": "str"}, float("inf"), float("-inf"), float("nan"),
    10**30, -(10**30), 2**63, "3", "0", "abc", "", " 2 ", "1e3", "1.5", "inf", "٣",
    0, 1, 2, -1, 0.0, 0.5, 2.7, -0.0, 1e300,
]


class _IntDrop:
    def __int__(self) -> int:
        return 3


class _IndexDrop:
    def __index__(self) -> int:
        return 2


class _NoIntDrop:
    pass


class _StrDrop:
    def __str__(self) -> str:
        return "4"


_DROPS = {"int": _IntDrop, "index": _IndexDrop, "noint": _NoIntDrop, "str": _StrDrop}


def materialize(v: Any) -> Any:
    if isinstance(v, dict):
        if len(v) == 1 and "$drop" in v:
            return _DROPS[v["$drop"]]()
        return {k: materialize(x) for k, x in v.items()}
    if isinstance(v, list):
        return [materialize(x) for x in v]
    return v



def count_class(site: dict[str, Any], data: dict[str, Any]) -> str:
    c = site.get("count")
    if c is None:
        return "absent"
    if "var" in c and c["var"] not in data:
        return "loop-variable"
    v = data.get(c["var"]) if "var" in c else c["lit"]
    if v is None:
        return "absent"
    if isinstance(v, bool):
        return "not-a-number"
    if isinstance(v, dict) and len(v) == 1 and "$drop" in v:
        return "n" if v["$drop"] in ("int", "index") else "not-a-number"
    if isinstance(v, (list, dict)):
        return "not-a-number"
    if isinstance(v, float) and (v != v or v in (float("inf"), float("-inf"))):
        return "not-a-number"
    if isinstance(v, (int, float)):
        if v == 0:
            return "0"
        if v == 1:
            return "1"
        return "n"
    if isinstance(v, str):
        try:
            int(v)
        except ValueError:
            return "not-a-number"
        return "n"
    return "other"


# ---------------------------------------------------------------------------
# the emitter (generator + position map)
# ---------------------------------------------------------------------------

WORDS = ["lorem", "ipsum", "dolor", "sit", "amet", "sed", "do", "ut", "et"]
PLAIN_FILTERS = ["upcase", "downcase", "append: '!'", "prepend: '> '", "strip", "default: 'x'"]
CONDS = ["flag", "flag == false", "n == 1", "n2 > 1", "items contains 2", "nothing", "true",
         "flag and n2 == 2", "n == 0 or flag"]
# environments in which the translation filters / tag are registered under other names
# (docs/babel.md: "possibly using more user friendly filter names"); canonical -> alias
ALIAS_SETS: list[dict[str, str]] = [
    {"t": "tr", "gettext": "_", "ngettext": "n_", "pgettext": "p_", "npgettext": "np_",
     "translate": "blocktrans", "endtranslate": "endblocktrans", "plural": "pluralform"},
    {"gettext": "text", "ngettext": "count_text", "pgettext": "ctx_text",
     "npgettext": "ctx_count_text", "t": "i18n"},
    {"translate": "trans"},  # 'trans' is one of DEFAULT_KEYWORDS: no keywords needed
]
# how message extraction is told about the names: Babel-style dict with specs, plain
# list of names, defaults + aliases, or nothing (defaults)
ALIAS_SPECS = {"t": None, "gettext": None, "ngettext": (1, 2), "pgettext": ((1, "c"), 2),
               "npgettext": ((1, "c"), 2, 3), "translate": None}

FILTER_FORMS = [
    # (weight, name)
    (16, "t"), (8, "t-ctx"), (10, "t-pl"), (8, "t-ctx-pl"), (3, "t-count-only"),
    (8, "gettext"), (8, "ngettext"), (7, "pgettext"), (7, "npgettext"),
    (1, "t-ctx-after-kw"), (1, "t-pl-ctx-after-kw"),
    (2, "t-dyn-ctx"), (2, "t-dyn-pl"), (1, "ngettext-dyn-pl"), (1, "pgettext-dyn-ctx"),
    (1, "npgettext-dyn-ctx"), (1, "npgettext-dyn-pl"),
    (1, "pgettext-ctx-after-kw"), (1, "ngettext-pl-after-kw"), (1, "npgettext-ops-after-kw"),
]
OBLIGED_FORMS = [f for _, f in FILTER_FORMS if "dyn" not in f]


class Emit:
    """Writes one template and records where it put everything."""

    def __init__(self, rng: random.Random, tpl: str, partials: list[str], ml: float,
                 size: int, rare: bool = True) -> None:
        self.rng = rng
        self.tpl = tpl
        self.partials = partials
        self.ml = ml
        self.size = size
        self.rare = rare
        self.buf: list[str] = []
        self.line = 1
        self.sites: list[dict[str, Any]] = []
        self.comments: list[dict[str, Any]] = []
        self.unit = 0
        self.unit_line = 1
        self.serial = 0
        self.vars = 0
        self.macros = 0
        self.in_liquid = False
        self.single_only = False
        self.in_macro = 0  # include is disabled inside macro bodies
        self.special = 0  # > 0 while context/count/plural/... are bound in the scope
        self.alias: dict[str, str] = {}
        self.nest = 0  # block nesting inside this template (0 = executed once per render)
        self.open_groups: list[dict[str, Any]] = []  # reusable messages of the top level

    # -- low level ------------------------------------------------------------
    def w(self, s: str) -> None:
        self.buf.append(s)
        self.line += s.count("\n")

    def source(self) -> str:
        return "".join(self.buf)

    def gap(self, ml: bool) -> str:
        if ml and not self.in_liquid and self.rng.random() < self.ml:
            return self.rng.choice(["\n", "\n  ", " \n\t", "\n\n "])
        return " "

    def nm(self, name: str) -> str:
        """The name a translation filter / tag is registered under in this case."""
        return self.alias.get(name, name)

    def new_unit(self) -> int:
        """A new markup unit (tag / output / comment / liquid line) starts here."""
        self.unit += 1
        self.unit_line = self.line
        return self.unit

    def wc(self) -> str:
        return self.rng.choice(["", "", "", "", "-", "~"])

    def open_tag(self, name: str) -> None:
        """`{% name` (or just `name` inside a liquid tag)."""
        if self.in_liquid:
            self.w(name)
        else:
            self.w("{%" + self.wc() + " " + name)

    def close_tag(self) -> None:
        if self.in_liquid:
            self.w("\n")
        else:
            self.w(" " + self.wc() + "%}")

    def lit_full(self, s: str) -> str:
        """A string literal for *s* (no escapes are ever needed for generated ids)."""
        if self.single_only:
            assert "'" not in s
            q = "'"
        elif "'" in s:
            q = '"'
        elif '"' in s:
            q = "'"
        else:
            q = self.rng.choice(["'", "'", '"'])
        return q + s + q

    # -- registries -----------------------------------------------------------
    def new_site(self, kind: str, construct: str, unit: int) -> dict[str, Any]:
        self.serial += 1
        extra = ""
        r = self.rng.random()
        if kind == "filter" and not self.single_only:
            if r < 0.06:
                extra = ' say "hi"'
            elif r < 0.12:
                extra = " it's"
            elif r < 0.16:
                extra = " café ☃"
            elif r < 0.22:
                extra = " Tom & <b>Jerry</b>"
            elif r < 0.25:
                extra = " e\u0301\u0303 n\u0303 \u200d"
        elif kind == "filter" and r < 0.2:
            extra = self.rng.choice([" Tom & <b>Jerry</b>", " café ☃", " a\u0301 > b"])
        elif kind == "tag" and r < 0.25:
            extra = self.rng.choice([" Tom & <b>Jerry</b>", " it's \"q\"", " e\u0301\u0303 ☃", " a < b > c"])
        s = {
            "n": self.serial, "tpl": self.tpl, "kind": kind, "filter": None,
            "construct": construct, "singular": f"m{self.serial}@{self.tpl} one{extra}",
            "plural": None, "ctx": None, "ctx_mode": "none", "count": None,
            "obliged": True, "flags": [], "lines": [], "unit": unit,
            "unit_line": self.unit_line,
        }
        if self.special:
            s["flags"].append("special-names-in-scope")
        self.sites.append(s)
        return s

    # literal decorations: HTML-special characters, quotes, percent, non-ASCII, combining
    DECOR = ["", "", "", " & Jerry", " <b>x</b>", " it's", ' "q"', " caf\u00e9 \u2603", " e\u0301\u0303", " a > b"]

    def _decor(self, s: dict[str, Any], salt: int, percent: bool) -> str:
        pool = [d for d in self.DECOR if not (self.single_only and ("'" in d or '"' in d))]
        if percent:
            pool = [*pool, " 100%", " 5% & more"]
        return pool[(s["n"] * 7 + salt + len(s["tpl"])) % len(pool)]

    def plural_id(self, s: dict[str, Any]) -> str:
        # (a '%' in a message text is interpolated by the filters: only contexts get one)
        return f"m{s['n']}@{s['tpl']} many" + self._decor(s, 3, False)

    def ctx_id(self, s: dict[str, Any]) -> str:
        return f"c{s['n']}@{s['tpl']}" + self._decor(s, 5, True)

    # -- the SAME message used several times (different lines, different routes) ----------
    REUSE_COUNTS = ["2", "5", "1", "0", "n2", "'3'"]

    def reuse_use(self, g: dict[str, Any], route: str | None = None, host: str | None = None) -> None:
        """One more use of group g's message at the current position: through the t
        filter, the gettext-family filter or the translate tag -- always the same
        (family, context, singular, plural), so every use makes the same catalog request."""
        rng = self.rng
        fam = g["family"]
        if self.in_liquid:
            route = route if route in ("t", "x") else rng.choice(["t", "x"])
        route = route or rng.choice(["t", "x", "tag"])
        u = self.new_unit()
        s = self.new_site("tag" if route == "tag" else "filter", "reuse-" + route, u)
        if not g["members"]:
            s["n"] = g["gid"]  # the id embedded in the message text leads to this site
        s.update(singular=g["singular"], plural=g["plural"], ctx=g["ctx"], group=g["gid"],
                 ctx_mode="literal" if g["ctx"] is not None else "none")
        g["members"] += 1
        cnt = rng.choice(self.REUSE_COUNTS)
        if route == "tag":
            s["filter"] = "translate"
            s["lines"], s["lit_line"] = [self.line], self.line
            args = []
            if g["ctx"] is not None:
                args.append("context: " + self.lit_full(g["ctx"]))
            if g["plural"] is not None and rng.random() < 0.8:
                args.append("count: " + cnt)
            self.open_tag(self.nm("translate"))
            self.w((" " + ", ".join(args)) if args else "")
            self.close_tag()
            self.w(rng.choice(["", " ", "\n  "]) + g["singular"] + rng.choice(["", " ", "\n"]))
            if g["plural"] is not None:
                self.open_tag(self.nm("plural"))
                self.close_tag()
                self.w(rng.choice(["", " "]) + g["plural"] + rng.choice(["", "\n"]))
            self.open_tag(self.nm("endtranslate"))
            self.close_tag()
            return
        if route == "t":
            name = "t"
            args = ([self.lit_full(g["ctx"])] if g["ctx"] is not None else []) + (
                ["plural: " + self.lit_full(g["plural"]), "count: " + cnt]
                if g["plural"] is not None else [])
        else:
            name = fam
            args = ([self.lit_full(g["ctx"])] if g["ctx"] is not None else []) + (
                [self.lit_full(g["plural"]), cnt] if g["plural"] is not None else [])
        s["filter"] = name
        if self.in_liquid:
            host = rng.choice(["echo", "assign"])
            self.vars += 1
            self.w("echo " if host == "echo" else f"assign v{self.vars} = ")
        else:
            host = host or rng.choice(["output", "output", "echo", "assign"])
            if host == "output":
                self.w("{{" + rng.choice([" ", " ", "\n  "]))
            elif host == "echo":
                self.open_tag("echo")
                self.w(rng.choice([" ", " ", "\n "]))
            else:
                self.vars += 1
                self.open_tag("assign")
                self.w(f" v{self.vars} =" + rng.choice([" ", " ", "\n "]))
        s["lines"], s["lit_line"] = [self.line], self.line
        self.w(self.lit_full(g["singular"]) + " | " + self.nm(name)
               + ((": " + ", ".join(args)) if args else ""))
        if self.in_liquid:
            self.w("\n")
        elif host == "output":
            self.w(" }}")
        else:
            self.close_tag()

    def new_group(self, fam: str) -> dict[str, Any]:
        self.serial += 1
        return {"gid": self.serial, "family": fam, "members": 0,
                "singular": f"m{self.serial}@{self.tpl} one",
                "plural": f"m{self.serial}@{self.tpl} many" if fam in N_FUNCS else None,
                "ctx": f"c{self.serial}@{self.tpl}" if fam in P_FUNCS else None}

    def stmt_reuse(self) -> None:
        """Start a message that is used more than once, or use one again."""
        rng = self.rng
        top = self.nest == 0 and not self.in_liquid and not self.in_macro
        if top and self.open_groups and rng.random() < 0.55:
            self.reuse_use(rng.choice(self.open_groups))
            return
        g = self.new_group(rng.choice(["gettext", "gettext", "pgettext", "ngettext", "npgettext"]))
        self.reuse_use(g)
        if top:
            self.open_groups.append(g)
            extra = rng.choice([0, 1, 1])
        else:
            extra = rng.choice([1, 1, 2])
        for _ in range(extra):
            if not self.in_liquid:
                self.w(rng.choice(["\n", "\n", " ", "\n\n", " filler\n", "\nsome text\n"]))
                if rng.random() < 0.2:
                    self.comment("Translators:")
                    self.w(rng.choice(["", "\n"]))
            self.reuse_use(g)

    def pick_count(self, s: dict[str, Any], avoid: tuple[str, ...] = ()) -> str:
        while True:
            if self.rng.random() < 0.3:
                v = self.rng.choice(COUNT_VARS)
                s["count"] = {"var": v}
                return v
            txt, val = self.rng.choice(COUNT_LITS)
            if txt in avoid:
                continue
            s["count"] = {"lit": val}
            return txt

    # -- comments -------------------------------------------------------------
    def comment(self, tag: str | None = "Translators:", kind: str | None = None) -> None:
        rng = self.rng
        self.serial += 1
        u = self.new_unit()
        cid = f"k{self.serial}@{self.tpl}"
        if self.in_liquid:
            kind = "liquid-line"
        elif kind is None:
            kind = rng.choice(["block", "hash", "inline", "hash2", "block-ml", "inline-ml"])
        text = (tag + " " if tag else "") + cid + " note " + rng.choice(WORDS)
        self.comments.append({"n": self.serial, "tpl": self.tpl, "id": cid, "tag": tag,
                              "kind": kind, "unit": u, "line": self.line})
        if kind == "liquid-line":
            self.w("# " + text + "\n")
        elif kind == "block":
            self.w("{%" + self.wc() + " comment " + self.wc() + "%}" + text
                   + "{%" + self.wc() + " endcomment " + self.wc() + "%}")
        elif kind == "block-ml":
            self.w("{% comment %}\n  " + text + "\n  second line\n{% endcomment %}")
        elif kind == "hash":
            self.w("{# " + text + " #}")
        elif kind == "hash2":
            self.w("{## " + text + " # inner ##}")
        elif kind == "inline":
            self.w("{% # " + text + " %}")
        else:
            self.w("{% # " + text + "\n   # more %}")
        self.comments[-1]["end_line"] = self.line - (1 if kind == "liquid-line" else 0)

    # -- translation filter applied to an already written left operand ----------
    def tfilter(self, s: dict[str, Any], ml: bool, form: str | None = None,
                has_var: bool = False) -> None:
        rng = self.rng
        if form is None:
            forms = FILTER_FORMS if self.rare else [f for f in FILTER_FORMS if f[0] > 1]
            form = rng.choices([f for _, f in forms], [w for w, _ in forms])[0]
        s["form"] = form
        g = lambda: self.gap(ml)  # noqa: E731
        sep = lambda: rng.choice([":", ":", ": ", ":" + g()])  # noqa: E731
        kv = lambda k, v: k + rng.choice([": ", ": ", ":", " : ", "=", " = "]) + v  # noqa: E731
        pl = self.plural_id(s)
        cx = self.ctx_id(s)
        name = form.split("-")[0]
        s["filter"] = name
        args: list[str] = []
        if form == "t":
            pass
        elif form == "t-ctx":
            s["ctx"], s["ctx_mode"] = cx, "literal"
            if rng.random() < 0.08:
                s["ctx"] = ""
            args = [self.lit_full(s["ctx"])]
        elif form in ("t-pl", "t-ctx-pl"):
            s["plural"] = pl
            kws = [kv("plural", self.lit_full(pl))]
            if rng.random() < 0.88:
                kws.append(kv("count", self.pick_count(s)))
            rng.shuffle(kws)
            if form == "t-ctx-pl":
                s["ctx"], s["ctx_mode"] = cx, "literal"
                args = [self.lit_full(cx)]
            args += kws
        elif form == "t-count-only":
            args = [kv("count", self.pick_count(s))]
        elif form == "t-ctx-after-kw":
            s["ctx"], s["ctx_mode"] = cx, "literal"
            s["flags"].append("context-after-keyword")
            args = [kv("zz", "1"), self.lit_full(cx)]
        elif form == "t-pl-ctx-after-kw":
            s["ctx"], s["ctx_mode"], s["plural"] = cx, "literal", pl
            s["flags"].append("context-after-keyword")
            s["count"] = {"lit": 2}
            args = [kv("plural", self.lit_full(pl)), self.lit_full(cx), kv("count", "2")]
        elif form == "t-dyn-ctx":
            s["obliged"] = False
            args = [rng.choice(["cx", "hc"])]
            if rng.random() < 0.5:
                args += [kv("plural", self.lit_full(pl)), kv("count", self.pick_count(s))]
        elif form == "t-dyn-pl":
            s["obliged"] = False
            args = [kv("plural", "pl"), kv("count", self.pick_count(s))]
            if rng.random() < 0.5:
                args.insert(0, self.lit_full(cx))
        elif form == "gettext":
            pass  # (an excess positional argument makes the render raise: edge list only)
        elif form.startswith("ngettext"):
            s["plural"] = pl
            p = self.lit_full(pl)
            if form.endswith("dyn-pl"):
                s["obliged"], p = False, "pl"
            args = [p, self.pick_count(s)]
            if form.endswith("after-kw"):
                s["count"], args[1] = {"lit": 2}, "2"
        elif form.startswith("pgettext"):
            s["ctx"], s["ctx_mode"] = cx, "literal"
            c = self.lit_full(cx)
            if form.endswith("dyn-ctx"):
                s["obliged"], c = False, rng.choice(["cx", "hc"])
            args = [c]
        elif form.startswith("npgettext"):
            s["ctx"], s["ctx_mode"], s["plural"] = cx, "literal", pl
            c, p = self.lit_full(cx), self.lit_full(pl)
            if form.endswith("dyn-ctx"):
                s["obliged"], c = False, "cx"
            if form.endswith("dyn-pl"):
                s["obliged"], p = False, "pl"
            args = [c, p, self.pick_count(s)]
            if form.endswith("after-kw"):
                s["count"], args[2] = {"lit": 2}, "2"
        if form.endswith("after-kw") and name != "t":
            # a keyword argument written before the positional operands
            s["flags"].append("operands-after-keyword")
            args.insert(0, kv("zz", "'kwval'"))
        if has_var:
            args.append(kv("who", rng.choice(["who", "'Wanda'", "items[0]"])))
        self.w(g() + "|" + g() + self.nm(name))
        if args:
            self.w(sep() + g())
            for i, a in enumerate(args):
                if i:
                    self.w(rng.choice([",", ", ", " ,"]) + g())
                self.w(a)

    def plain_tail(self, ml: bool, allow_t: bool = True) -> None:
        """Filters after the translation filter (never change what was looked up)."""
        rng = self.rng
        for _ in range(rng.choice([0, 0, 0, 1, 1, 2])):
            f = rng.choice(PLAIN_FILTERS)
            self.w(self.gap(ml) + "|" + self.gap(ml) + f)
            if allow_t and f == "upcase" and rng.random() < 0.4:
                # a computed lookup: not obliged, must only leave extraction working
                self.w(" | " + rng.choice([self.nm("t"), self.nm("gettext"), self.nm("t") + ": 'late ctx'"]))

    # -- one operand: message or not --------------------------------------------
    def message_operand(self, construct: str, unit: int, ml: bool, expr_line: int | None,
                        form: str | None = None) -> dict[str, Any]:
        """`'<id>' | <translation filter> ...` at the current position."""
        rng = self.rng
        s = self.new_site("filter", construct, unit)
        has_var = rng.random() < 0.15
        if has_var:
            s["singular"] += " for %(who)s"
        s["lines"] = sorted({self.line, expr_line if expr_line is not None else self.line})
        s["lit_line"] = self.line
        self.w(self.lit_full(s["singular"]))
        self.tfilter(s, ml, form, has_var)
        return s

    def unobliged_operand(self, construct: str, unit: int, ml: bool) -> None:
        """Lookups whose operands are computed; only 'extraction does not fail'."""
        rng = self.rng
        how = rng.choice(["var", "pre-filter", "identity-pre-filter", "default", "nonstring"])
        if how == "var":
            self.w(rng.choice(["dm", "nothing", "items[0]"]))
            self.tfilter({"n": 0, "tpl": self.tpl, "flags": []}, ml, rng.choice(OBLIGED_FORMS))
            return
        if how == "nonstring":
            self.w(rng.choice(["5", "true", "1.5", "(1..2)"]))
            self.tfilter({"n": 0, "tpl": self.tpl, "flags": []}, ml,
                         rng.choice(["t", "gettext", "t-ctx"]))
            return
        s = self.new_site("filter", construct, unit)
        s["obliged"] = False
        s["flags"].append(how)
        s["lines"] = [self.line]
        if how == "default":
            self.w("nothing | default: " + self.lit_full(s["singular"]))
        else:
            self.w(self.lit_full(s["singular"]) + " | "
                   + ("upcase" if how == "pre-filter" else rng.choice(["append: ''", "strip"])))
        self.tfilter(s, ml, rng.choice(OBLIGED_FORMS))
        s["obliged"] = False

    def plain_operand(self) -> None:
        self.w(self.rng.choice(["'plain'", "who", "n", "42", '"plain text"', "items | join: ','"]))

    def tstring(self, construct: str, unit: int, expr_line: int | None,
                count: int | None = None) -> None:
        """A template string with one or two embedded message expressions (one line;
        only single-quoted literals can appear inside the double-quoted string)."""
        rng = self.rng
        if expr_line is None:
            expr_line = self.line
        self.single_only = True
        try:
            self.w('"' + rng.choice(["a", "pre ", "x"]))
            for _ in range(count or rng.choice([1, 1, 2])):
                self.w("${ ")
                s = self.new_site("filter", construct, unit)
                s["lines"] = sorted({self.line, expr_line})
                s["lit_line"] = self.line
                self.w(self.lit_full(s["singular"]))
                self.tfilter(s, False, rng.choice(["t", "t-ctx", "gettext", "pgettext", "t-pl",
                                                   "ngettext", "npgettext"]))
                self.w(" }" + rng.choice(["", " ", "-"]))
            self.w(rng.choice(["", "post"]) + '"')
        finally:
            self.single_only = False

    # -- expressions --------------------------------------------------------------
    def expression(self, host: str, unit: int, ml: bool, force_msg: bool = False,
                   form: str | None = None, shape: str | None = None) -> None:
        """A full filtered / ternary expression at the current position."""
        rng = self.rng
        expr_line = self.line
        if shape is None:
            shape = rng.choices(
                ["simple", "ternary", "tstring", "unobliged", "tail-t"],
                [55, 22, 8, 10, 5],
            )[0]
            if force_msg and shape in ("unobliged", "tail-t"):
                shape = "simple"
        if shape == "simple":
            self.message_operand(host, unit, ml, expr_line, form)
            self.plain_tail(ml)
        elif shape in ("ternary-both", "ternary-tail-arg"):
            # one expression, two (or three) messages
            self.message_operand(host + "-ternary-left", unit, ml, expr_line, form)
            self.w(self.gap(ml) + "if " + rng.choice(CONDS) + self.gap(ml) + "else" + self.gap(ml))
            self.message_operand(host + "-ternary-alt", unit, ml, expr_line)
            if shape == "ternary-tail-arg":
                self.w(self.gap(ml) + "|| append: ")
                self.tstring(host + "-tail-arg-tstring", unit, expr_line, 1)
        elif shape == "tstring2":
            self.tstring(host + "-tstring", unit, expr_line, 2)
        elif shape == "filter-arg":
            s = self.message_operand(host, unit, ml, expr_line, "t")
            self.w((", " if "%(who)s" in s["singular"] else ": ") + "extra: ")
            self.tstring(host + "-filter-arg-tstring", unit, expr_line, rng.choice([1, 2]))
        elif shape == "unobliged":
            self.unobliged_operand(host, unit, ml)
        elif shape == "tstring":
            self.tstring(host + "-tstring", unit, expr_line)
            if rng.random() < 0.3:
                self.w(" | " + rng.choice(["upcase", self.nm("t"), "append: '.'"]))
        elif shape == "tail-t":
            # translation filter as a tail filter: computed operand, not obliged
            s = self.new_site("filter", host + "-tail", unit)
            s["obliged"] = False
            s["flags"].append("tail-filter")
            s["lines"] = [self.line]
            self.w(self.lit_full(s["singular"]) + " if " + rng.choice(CONDS) + " else 'other' || ")
            self.w(rng.choice([self.nm("t"), self.nm("gettext"), self.nm("t") + ": 'tail ctx'"]))
        else:
            left_msg = rng.random() < 0.8
            if left_msg:
                self.message_operand(host + "-ternary-left", unit, ml, expr_line, form)
                if rng.random() < 0.3:
                    self.w(self.gap(ml) + "| " + rng.choice(["upcase", "strip"]))
            else:
                self.plain_operand()
            self.w(self.gap(ml) + "if " + rng.choice(CONDS))
            if rng.random() < 0.85 or not left_msg:
                self.w(self.gap(ml) + "else" + self.gap(ml))
                if rng.random() < 0.8 or not left_msg:
                    self.message_operand(host + "-ternary-alt", unit, ml, expr_line,
                                         form if not left_msg else None)
                    self.plain_tail(ml, allow_t=False)
                else:
                    self.plain_operand()
            if rng.random() < 0.2:
                self.w(self.gap(ml) + "|| " + rng.choice(["upcase", "append: '!'"]))

    # -- statements -----------------------------------------------------------------
    def stmt_message(self, form: str | None = None, host: str | None = None,
                     shape: str | None = None) -> None:
        rng = self.rng
        u = self.new_unit()
        if self.in_liquid:
            host = host or rng.choice(["echo", "assign"])
            if host == "assign":
                self.vars += 1
                self.w(f"assign v{self.vars} = ")
            else:
                self.w("echo ")
            self.expression("liquid-" + host, u, False, form=form, shape=shape)
            self.w("\n")
            return
        host = host or rng.choice(["output", "output", "output", "echo", "assign"])
        ml = rng.random() < 0.45
        first_site, first_line = len(self.sites), self.line
        if host == "output":
            self.w("{{" + self.wc() + self.gap(ml))
            self.expression("output", u, ml, form=form, shape=shape)
            self.w(self.gap(ml) + self.wc() + "}}")
        elif host == "echo":
            self.open_tag("echo")
            self.w(self.gap(ml))
            self.expression("echo", u, ml, form=form, shape=shape)
            self.close_tag()
        else:
            self.vars += 1
            self.open_tag("assign")
            self.w(self.gap(ml) + f"v{self.vars}" + self.gap(ml) + "=" + self.gap(ml))
            self.expression("assign", u, ml, form=form, shape=shape)
            self.close_tag()
        if self.line > first_line:
            # the statement really spans several lines
            for s in self.sites[first_site:]:
                s["construct"] = s["construct"].replace(host, host + "-ml", 1)
        if host == "assign" and rng.random() < 0.5:
            self.new_unit()
            self.w("{{ v%d }}" % self.vars)

    def stmt_translate(self, variant: dict[str, Any] | None = None) -> None:
        """`{% translate ... %}…[{% plural %}…]{% endtranslate %}` (never in a liquid tag)."""
        rng = self.rng
        v = variant or {}
        u = self.new_unit()
        ml = v.get("ml", rng.random() < 0.35)
        s = self.new_site("tag", "translate-tag", u)
        s["filter"] = "translate"
        s["lines"] = [self.line]
        s["lit_line"] = self.line
        has_plural = v.get("plural", rng.random() < 0.55)
        args: list[str] = []
        kv = lambda k, val: k + rng.choice([": ", ":", " : ", "=", " = "]) + val  # noqa: E731
        ctx_mode = v.get("ctx", rng.choices(
            ["none", "literal", "dynamic", "nonstring", "empty"],
            [50, 28, 12, 5, 5 if self.rare else 0])[0])
        if ctx_mode == "literal":
            s["ctx"], s["ctx_mode"] = self.ctx_id(s), "literal"
            args.append(kv("context", self.lit_full(s["ctx"])))
        elif ctx_mode == "empty":
            s["ctx"], s["ctx_mode"] = "", "literal"
            s["flags"].append("empty-context")
            args.append(kv("context", "''"))
        elif ctx_mode == "dynamic":
            s["ctx_mode"] = "dynamic"
            args.append(kv("context", v.get("ctx_var") or rng.choice(["cx", "nothing", "who", "hc", "hc"])))
        elif ctx_mode == "nonstring":
            # a literal whose value is known statically, just not a string
            s["ctx_mode"] = "literal"
            s["flags"].append("non-string-literal-context")
            args.append(kv("context", rng.choice(["5", "true", "1.5"])))
        if "count" in v:
            if v["count"] is not None:
                txt, val = v["count"]
                s["count"] = {"var": txt} if val == "var" else {"lit": val}
                args.append(kv("count", txt))
        elif rng.random() < (0.8 if has_plural else 0.25):
            # nil makes int() raise a TypeError out of the render (C02's subject)
            if "empty-context" in s["flags"]:
                txt = rng.choice(["1", "2", "5"])
                s["count"] = {"lit": int(txt)}
                args.append(kv("count", txt))
            else:
                args.append(kv("count", self.pick_count(s)))
        use_var = rng.random() < 0.4
        if use_var and rng.random() < 0.6:
            args.append(kv("who", rng.choice(["who", "'Wanda'", "items[1]"])))
        rng.shuffle(args)
        self.open_tag(self.nm("translate"))
        if ml:
            self.w(self.rng.choice(["\n", "\n   "]))
        for i, a in enumerate(args):
            self.w((rng.choice([", ", ",", " ", ",\n  "] if ml else [", ", ",", " "]) if i else " ") + a)
        self.close_tag()
        if self.line > s["lines"][0]:
            s["construct"] = "translate-tag-ml"

        def body(text: str) -> None:
            lead = rng.choice(["", " ", "\n", "\n    "])
            mid = rng.choice([" ", " ", "\n  ", "  "])
            self.w(lead + text)
            if use_var:
                self.w(mid + "hello" + mid + "{{ who }}" + rng.choice(["", "!", " ."]))
            if rng.random() < 0.15:
                self.w(mid + "100% sure")
            self.w(rng.choice(["", " ", "\n", "\n  "]))

        body(s["singular"])
        if has_plural:
            s["plural"] = self.plural_id(s)
            self.open_tag(self.nm("plural"))
            self.close_tag()
            body(s["plural"])
        self.open_tag(self.nm("endtranslate"))
        self.close_tag()

    def stmt_text(self) -> None:
        rng = self.rng
        if self.in_liquid:
            return
        k = rng.random()
        if k < 0.6:
            self.w(" ".join(rng.choice(WORDS) for _ in range(rng.randint(1, 4))))
        elif k < 0.8:
            self.w("\n".join(rng.choice(WORDS) for _ in range(rng.randint(2, 4))))
        elif k < 0.9:
            self.new_unit()
            self.w("{% raw %}\n{{ 'not a message' | t }}\n{% translate %}x{% endtranslate %}\n{% endraw %}")
        else:
            self.new_unit()
            self.w("{{" + self.gap(True) + "who" + self.gap(True) + "| upcase" + self.gap(True) + "}}")

    def stmt_tstring_tag(self) -> None:
        """A message inside a template string that is an operand of another tag."""
        rng = self.rng
        if self.in_liquid:
            self.stmt_message()
            return
        u = self.new_unit()
        kind = rng.choice(["if", "unless", "case", "with", "for", "cycle", "include", "render",
                           "translate-arg", "macro", "filter-arg"])
        if kind in ("include", "render") and not self.partials:
            kind = "with"
        if kind == "include" and self.in_macro:
            kind = "render"
        if kind == "cycle" and self.tpl != "tA":
            # a partial may be parsed again per include; the cycle group key is an
            # identity hash, so which item is evaluated would depend on addresses
            kind = "with"
        if kind in ("if", "unless"):
            self.open_tag(kind)
            self.w(" ")
            self.tstring(kind + "-tstring", u, None)
            self.w(rng.choice([" == 'zz'", " != 'zz'", "", " contains 'one'"]))
            self.close_tag()
            self.w("Y")
            if kind == "if" and rng.random() < 0.6:
                if rng.random() < 0.4:
                    # a comment that is followed first by the elsif's message
                    self.comment("Translators:")
                    self.w(rng.choice(["", "\n"]))
                u2 = self.new_unit()
                self.open_tag("elsif")
                self.w(" ")
                self.tstring("elsif-tstring", u2, None)
                self.w(rng.choice([" == 'zz'", ""]))
                self.close_tag()
                if rng.random() < 0.6:
                    self.maybe_comment_then_message(0.4)
            self.open_tag("end" + kind)
            self.close_tag()
        elif kind == "case":
            self.open_tag("case")
            self.w(" ")
            self.tstring("case-tstring", u, None)
            self.close_tag()
            if rng.random() < 0.5:
                self.new_unit()
                self.open_tag("when")
                self.w(" 'yy'")
                self.close_tag()
                self.comment("Translators:")
                self.w(rng.choice(["", "\n"]))
            u2 = self.new_unit()
            self.open_tag("when")
            self.w(" 'zz', ")
            self.tstring("when-tstring", u2, None)
            self.close_tag()
            self.w("W")
            if rng.random() < 0.5:
                self.stmt_message()
            self.open_tag("else")
            self.close_tag()
            self.w("E")
            self.open_tag("endcase")
            self.close_tag()
        elif kind == "with":
            self.open_tag("with")
            self.w(" wv: ")
            self.tstring("with-tstring", u, None)
            self.close_tag()
            self.w("{{ wv }}")
            self.open_tag("endwith")
            self.close_tag()
        elif kind == "for":
            self.open_tag("for")
            self.w(" ch in ")
            self.tstring("for-tstring", u, None)
            self.close_tag()
            self.w("{{ ch | size }}")
            self.open_tag("endfor")
            self.close_tag()
        elif kind == "cycle":
            self.open_tag("cycle")
            self.w(" ")
            self.tstring("cycle-tstring", u, None)
            self.w(", 'b'")
            self.close_tag()
        elif kind in ("include", "render"):
            self.open_tag(kind)
            self.w(" '" + rng.choice(self.partials) + "', arg: ")
            self.tstring(kind + "-arg-tstring", u, None)
            self.close_tag()
        elif kind == "translate-arg":
            s = self.new_site("tag", "translate-tag", u)
            s["filter"] = "translate"
            s["lines"] = [self.line]
            self.open_tag(self.nm("translate"))
            self.w(" who: ")
            self.tstring("translate-arg-tstring", u, None)
            self.close_tag()
            self.w(s["singular"] + " {{ who }}")
            self.open_tag(self.nm("endtranslate"))
            self.close_tag()
        elif kind == "macro":
            self.macros += 1
            name = f"mac{self.macros}"
            self.open_tag("macro")
            self.w(f" {name} a, b: ")
            self.tstring("macro-default-tstring", u, None)
            self.close_tag()
            self.w("{{ a }}{{ b }}")
            self.in_macro += 1
            self.stmt_message(host="output")
            self.in_macro -= 1
            self.open_tag("endmacro")
            self.close_tag()
            u2 = self.new_unit()
            self.open_tag("call")
            self.w(f" {name} ")
            self.tstring("call-arg-tstring", u2, None)
            self.close_tag()
        else:
            s = self.new_site("filter", "output", u)
            s["filter"], s["form"] = "t", "t"
            s["lines"] = [self.line]
            s["lit_line"] = self.line
            self.w("{{ " + self.lit_full(s["singular"]) + " | " + self.nm("t") + ": extra: ")
            self.tstring("filter-arg-tstring", u, None)
            self.w(" }}")

    def stmt_partial(self) -> None:
        if not self.partials:
            return
        self.new_unit()
        self.open_tag("render" if self.in_macro else self.rng.choice(["include", "render"]))
        self.w(" '" + self.rng.choice(self.partials) + "'")
        self.close_tag()

    def maybe_comment_then_message(self, p: float = 0.42) -> None:
        """A message statement, often with a comment right before it."""
        rng = self.rng
        if rng.random() < p:
            tag = rng.choices(["Translators:", "NOTE:", None], [80, 12, 8])[0]
            self.comment(tag)
            if not self.in_liquid:
                self.w(rng.choice(["", "\n", "\n", "\n", " ", "\n\n", " filler\n", "\n  "]))
                if rng.random() < 0.08:
                    self.comment("Translators:")  # two comments in a row
                    self.w(rng.choice(["", "\n"]))
        if self.in_liquid or rng.random() < 0.7:
            self.stmt_message()
        else:
            self.stmt_translate()
        if rng.random() < 0.12:
            # a comment right AFTER a message: must never be attached to it
            if not self.in_liquid:
                self.w(rng.choice(["", " ", "\n"]))
            self.comment("Translators:")

    MULTI_SHAPES = ("ternary-both", "ternary-both", "ternary-tail-arg", "tstring2", "filter-arg")

    def stmt_comment_then_multi(self, shape: str | None = None, host: str | None = None,
                                kind: str | None = None, sep: str | None = None) -> None:
        """A translator comment right before ONE expression that yields 2+ messages:
        only the first of them may carry the comment."""
        rng = self.rng
        self.comment("Translators:", kind)
        if not self.in_liquid:
            self.w(sep if sep is not None else rng.choice(["", "\n", "\n", " "]))
        first = len(self.sites)
        self.stmt_message(host=host, shape=shape or rng.choice(self.MULTI_SHAPES))
        for s in self.sites[first:]:
            s["flags"].append("multi-message-expression")

    def stmt_bind_special(self) -> None:
        """Bind, in the surrounding scope, a name the translate machinery treats
        specially; tags / filters that do not pass it must not pick it up."""
        rng = self.rng
        self.new_unit()
        name, val = rng.choice([
            ("context", "'asgctx'"), ("context", "'asgctx'"), ("context", "5"), ("context", "who"),
            ("count", "0"), ("count", "5"), ("plural", "'assigned plural'"),
            ("message_context", "'asgctx2'"), ("singular", "'assigned singular'"),
        ])
        if rng.random() < 0.2 and not self.in_liquid:
            self.open_tag("capture")
            self.w(" " + name)
            self.close_tag()
            self.w("capctx")
            self.open_tag("endcapture")
            self.close_tag()
        else:
            self.open_tag("assign")
            self.w(f" {name} = {val}")
            self.close_tag()
        self.special += 1  # assignments stay in scope for the rest of the template

    def body(self, depth: int, n: int, top: bool = False) -> None:
        if not top:
            self.nest += 1
        try:
            self._body(depth, n)
        finally:
            if not top:
                self.nest -= 1

    def _body(self, depth: int, n: int) -> None:
        rng = self.rng
        for _ in range(n):
            k = rng.choices(
                ["msg", "text", "block", "tstring-tag", "partial", "comment", "liquid",
                 "multi", "bind", "reuse"],
                [40, 15, 14 if depth < 3 else 0, 7, 5, 5, 5 if not self.in_liquid else 0, 7, 3, 9],
            )[0]
            if self.in_liquid:
                self.w(rng.choice(["", "  ", "\t", "    "]))
            if k == "msg":
                self.maybe_comment_then_message()
            elif k == "text":
                self.stmt_text()
            elif k == "block":
                self.stmt_block(depth)
            elif k == "tstring-tag":
                self.stmt_tstring_tag()
            elif k == "partial":
                self.stmt_partial()
            elif k == "comment":
                self.comment(rng.choice(["Translators:", "Translators:", "NOTE:", None]))
            elif k == "multi":
                self.stmt_comment_then_multi()
            elif k == "bind":
                self.stmt_bind_special()
            elif k == "reuse":
                self.stmt_reuse()
            else:
                self.stmt_liquid(depth)
            if not self.in_liquid:
                self.w(rng.choice(["\n", "\n", "\n", "", " ", "\n\n"]))

    def stmt_block(self, depth: int) -> None:
        rng = self.rng
        kind = rng.choice(["if", "if", "unless", "for", "for", "case", "capture", "with", "macro",
                           "for-special", "with-special", "macro-special"])
        if self.in_liquid and kind.startswith("macro"):
            kind = "if"
        n = rng.randint(1, 3)
        self.new_unit()
        eol = "" if self.in_liquid else rng.choice(["", "\n", "\n  "])
        if kind in ("if", "unless"):
            self.open_tag(kind)
            self.w(" " + rng.choice(CONDS))
            self.close_tag()
            self.w(eol)
            self.body(depth + 1, n)
            if kind == "if" and rng.random() < 0.4:
                self.new_unit()
                self.open_tag("elsif")
                self.w(" " + rng.choice(CONDS))
                self.close_tag()
                self.body(depth + 1, 1)
            if rng.random() < 0.5:
                self.new_unit()
                self.open_tag("else")
                self.close_tag()
                self.body(depth + 1, rng.randint(1, 2))
            self.open_tag("end" + kind)
            self.close_tag()
        elif kind == "for":
            self.open_tag("for")
            self.w(" i in " + rng.choice(["items", "(1..n2)", "(1..3)", "items limit: 0", "items limit: 1"]))
            self.close_tag()
            self.w(eol)
            if rng.random() < 0.35 and not self.in_liquid:
                # the loop variable as the count of a translate block
                self.stmt_translate({"plural": True, "count": ("i", "var")})
            self.body(depth + 1, n)
            if rng.random() < 0.35:
                self.new_unit()
                self.open_tag("else")
                self.close_tag()
                self.body(depth + 1, 1)
            self.open_tag("endfor")
            self.close_tag()
        elif kind == "case":
            self.open_tag("case")
            self.w(" " + rng.choice(["n2", "n", "who"]))
            self.close_tag()
            if not self.in_liquid:
                self.w(rng.choice(["", "\n"]))
            for w in rng.sample(["2", "1, 3", "'World'", "0"], 2):
                self.new_unit()
                self.open_tag("when")
                self.w(" " + w)
                self.close_tag()
                self.body(depth + 1, rng.randint(1, 2))
            if rng.random() < 0.6:
                self.new_unit()
                self.open_tag("else")
                self.close_tag()
                self.body(depth + 1, 1)
            self.open_tag("endcase")
            self.close_tag()
        elif kind == "capture":
            self.vars += 1
            self.open_tag("capture")
            self.w(f" cap{self.vars}")
            self.close_tag()
            self.body(depth + 1, n)
            self.open_tag("endcapture")
            self.close_tag()
            if rng.random() < 0.5:
                self.new_unit()
                if self.in_liquid:
                    self.w(f"echo cap{self.vars}\n")
                else:
                    self.w("{{ cap%d }}" % self.vars)
        elif kind == "with":
            self.open_tag("with")
            self.w(" who: 'Withy', other: " + rng.choice(["0", "1", "n2"]))
            self.close_tag()
            self.body(depth + 1, n)
            self.open_tag("endwith")
            self.close_tag()
        elif kind in ("for-special", "with-special", "macro-special"):
            # the body runs with context / count / plural bound by the enclosing block
            name = ""
            if kind == "for-special":
                self.open_tag("for")
                self.w(" " + rng.choice(["context", "context", "count", "plural"]) + " in "
                       + rng.choice(["items", "(0..2)", "(1..2)"]))
                end = "endfor"
            elif kind == "with-special":
                self.open_tag("with")
                self.w(" " + ", ".join(rng.sample(
                    ["context: 'withctx'", "count: 0", "count: 3", "plural: 'with plural'",
                     "message_context: 'withctx2'", "context: who"], rng.randint(1, 3))))
                end = "endwith"
            else:
                self.macros += 1
                name = f"mac{self.macros}"
                self.open_tag("macro")
                self.w(f" {name} context, count: 0, plural: 'macro plural'")
                end = "endmacro"
                self.in_macro += 1
            self.close_tag()
            self.w(eol)
            self.special += 1
            self.body(depth + 1, n)
            if not self.in_liquid and rng.random() < 0.5:
                self.stmt_translate({"ctx": "none"})
            self.special -= 1
            self.open_tag(end)
            self.close_tag()
            if name:
                self.in_macro -= 1
                self.new_unit()
                self.open_tag("call")
                self.w(f" {name} 'callctx'")
                self.close_tag()
        else:
            self.macros += 1
            name = f"mac{self.macros}"
            self.open_tag("macro")
            self.w(f" {name} a, who: 'Mac'")
            self.close_tag()
            self.in_macro += 1
            self.body(depth + 1, n)
            self.in_macro -= 1
            self.open_tag("endmacro")
            self.close_tag()
            self.w(rng.choice(["", "\n"]))
            for _ in range(rng.choice([0, 1, 1, 2])):
                self.new_unit()
                self.open_tag("call")
                self.w(f" {name} 1")
                self.close_tag()

    def stmt_liquid(self, depth: int) -> None:
        rng = self.rng
        self.new_unit()
        self.w("{%" + self.wc() + " liquid" + rng.choice(["\n", "\n\n", " \n  "]))
        self.in_liquid = True
        try:
            self.body(depth + 1, rng.randint(2, 5))
            if rng.random() < 0.3 and self.partials:
                self.stmt_partial()
        finally:
            self.in_liquid = False
        # the last statement wrote its own newline
        self.w(rng.choice(["", "  "]) + self.wc() + "%}")


def build_case(rng: random.Random, size: int, rare: bool = True) -> dict[str, Any]:
    """A root template plus partials, with the position map and render data."""
    names = ["pB", "pC"] + (["pD"] if rng.random() < 0.3 else [])
    templates: dict[str, str] = {}
    sites: list[dict[str, Any]] = []
    comments: list[dict[str, Any]] = []
    eol = rng.choice(["\n", "\n", "\n", "\r\n"])
    alias: dict[str, str] = {}
    kwmode = None
    if rng.random() < 0.3:
        alias = rng.choice(ALIAS_SETS)
        kwmode = rng.choice(["alias-dict", "alias-list", "default+alias"])
        if alias == {"translate": "trans"} and rng.random() < 0.5:
            kwmode = None  # 'trans' is a default keyword
    for name in names:
        r = rng.random()
        if r < 0.06:
            templates[name] = ""
            continue
        if r < 0.10:
            templates[name] = rng.choice(["{# Translators: lonely #}", "{% comment %}Translators: only{% endcomment %}\n",
                                          "{% # Translators: x %}", "\n\n", "plain text only"])
            continue
        e = Emit(rng, name, [], rng.choice([0.0, 0.2, 0.5]), size, rare)
        e.alias = alias
        e.body(1, rng.randint(1, max(2, size // 3)), top=True)
        templates[name] = e.source().replace("\n", eol)
        sites += e.sites
        comments += e.comments
    e = Emit(rng, "tA", names, rng.choice([0.0, 0.2, 0.4, 0.7]), size, rare)
    e.alias = alias
    e.body(0, rng.randint(max(1, size // 2), size), top=True)
    templates["tA"] = e.source().replace("\n", eol)
    sites += e.sites
    comments += e.comments
    datas = []
    for i, nv in enumerate([2, rng.choice([0, 1]), rng.choice(N_VALUES)]):
        d = dict(BASE_DATA)
        d["n"] = nv
        if i == 1:
            d["flag"] = False
            d["items"] = []
            d["n2"] = 1
        if i == 2:
            d["flag"] = rng.random() < 0.5
            d["cx"] = rng.choice(["dynctx", "", None, 5])
            d["items"] = rng.choice([[1, 2], [1, 2, 3, 5], [2]])
        if i:
            d["h"] = rng.choice(HOSTILE)
            d["hc"] = rng.choice(HOSTILE)
        if i and rng.random() < 0.6:
            # names the translate machinery treats specially, bound by the caller
            d.update(rng.choice(SPECIAL_DATA))
        datas.append(d)
    return {
        "templates": templates, "root": "tA", "sites": sites, "comments": comments,
        "datas": datas, "modes": ["sync", "sync", "async"],
        "auto_escape": rng.random() < 0.3,
        "aliases": alias, "kwmode": kwmode,
    }


def keywords_for(case: dict[str, Any]) -> Any:
    """The `keywords` argument that tells extraction about the case's alias names."""
    al = case.get("aliases") or {}
    mode = case.get("kwmode")
    if not al or mode is None:
        return None
    spec = {al.get(canon, canon): sp for canon, sp in ALIAS_SPECS.items()}
    if mode == "alias-dict":
        return spec
    if mode == "alias-list":
        return list(spec)
    from liquid2.messages import DEFAULT_KEYWORDS

    return {**DEFAULT_KEYWORDS, **spec}


STD_SPECS = {"gettext": (1,), "ngettext": (1, 2), "pgettext": ((1, "c"), 2),
             "npgettext": ((1, "c"), 2, 3)}


def keyword_variants(case: dict[str, Any]) -> list[tuple[str, Any]]:
    """Every style of `keywords` mapping Babel allows for extract_from_templates: None
    specs (Babel: 'default spec') for standard names, explicit tuple specs, only the general
    filter + tag, random subsets, aliases only, standard + aliases."""
    from liquid2.messages import DEFAULT_KEYWORDS

    al = case.get("aliases") or {}
    reg = {canon: al.get(canon, canon) for canon in ALIAS_SPECS}  # canonical -> registered name
    rng = random.Random("kw:" + case["templates"][case["root"]])
    out: list[tuple[str, Any]] = [("default", None) if not al else ("default+alias", {
        **DEFAULT_KEYWORDS, **{n: ALIAS_SPECS[c] for c, n in reg.items()}})]
    out.append(("all-none", dict.fromkeys([*reg.values(), *ALL_FUNCS])))
    out.append(("explicit-specs", {**{n: (STD_SPECS.get(c) if c in STD_SPECS else None)
                                      for c, n in reg.items()}, **STD_SPECS}))
    out.append(("general-only", {reg["t"]: None, reg["translate"]: None}))
    out.append(("registered-names-none", dict.fromkeys(reg.values())))
    sub: dict[str, Any] = {}
    for c, n in reg.items():
        if rng.random() < 0.6:
            sub[n] = rng.choice([None, STD_SPECS.get(c)])
    for f in ALL_FUNCS:
        if rng.random() < 0.5:
            sub[f] = rng.choice([None, STD_SPECS[f]])
    if sub:
        out.append(("subset", sub))
    if al:
        out.append(("alias-only", {n: ALIAS_SPECS[c] for c, n in reg.items()}))
    return out


# ---------------------------------------------------------------------------
# bounded-exhaustive one-site family
# ---------------------------------------------------------------------------

ENUM_HOSTS = ["output", "output-ml", "echo", "assign-ml", "liquid-echo", "liquid-assign",
              "ternary-left", "ternary-alt", "tstring", "in-for", "in-if-after-comment",
              "in-capture", "in-with-special", "in-for-context", "after-assign-context"]


def enum_cases(rng: random.Random) -> list[dict[str, Any]]:
    """Every obliged filter form x count spelling (where a count appears) x host, and every
    translate-tag variant, each as a template with a single call site."""
    out: list[dict[str, Any]] = []
    counts: list[tuple[str, Any]] = [*COUNT_LITS, ("n", "var"), ("n2", "var")]

    def one(fn, alias: dict[str, str] | None = None, kwmode: str | None = None,  # noqa: ANN001
            hostile: bool = False) -> None:
        e = Emit(rng, "tA", [], 0.0, 1, True)
        e.alias = alias or {}
        fn(e)
        datas = []
        if hostile:
            # one render per hostile value, as the count and as the context
            for v in HOSTILE:
                datas.append({**BASE_DATA, "h": v, "hc": v})
        for nv in (() if hostile else (2, 0, 1)):
            d = dict(BASE_DATA)
            d["n"] = nv
            d["flag"] = nv != 0
            if nv == 1:
                d.update(SPECIAL_DATA[1])
            datas.append(d)
        out.append({"templates": {"tA": e.source()}, "root": "tA", "sites": e.sites,
                    "comments": e.comments, "datas": datas, "modes": ["sync", "sync", "async"],
                    "auto_escape": False, "aliases": alias or {}, "kwmode": kwmode,
                    "catalog": not hostile})

    def with_count(e: Emit, txt: str, val: Any):  # noqa: ANN202
        def pick(s: dict[str, Any], avoid: tuple[str, ...] = ()) -> str:
            s["count"] = {"var": txt} if val == "var" else {"lit": val}
            return txt
        e.pick_count = pick  # type: ignore[method-assign]

    def host_emit(e: Emit, host: str, form: str) -> None:
        if host == "output":
            e.stmt_message(form=form, host="output", shape="simple")
        elif host == "output-ml":
            e.ml = 1.0
            e.w("text\n")
            e.new_unit()
            e.w("{{\n")
            e.message_operand("output-ml", e.unit, True, None, form)
            e.w("\n}}")
        elif host == "echo":
            e.stmt_message(form=form, host="echo", shape="simple")
        elif host == "assign-ml":
            e.new_unit()
            e.w("{% assign v =\n  ")
            e.message_operand("assign-ml", e.unit, False, None, form)
            e.w(" %}{{ v }}")
        elif host in ("liquid-echo", "liquid-assign"):
            e.w("{% liquid\n")
            e.in_liquid = True
            e.stmt_message(form=form, host=host.split("-")[1], shape="simple")
            e.in_liquid = False
            e.w("%}")
        elif host == "ternary-left":
            e.new_unit()
            e.w("{{ ")
            e.message_operand("output-ternary-left", e.unit, False, None, form)
            e.w(" if flag else 'no' }}")
        elif host == "ternary-alt":
            e.new_unit()
            e.w("{{ 'no' if flag else ")
            e.message_operand("output-ternary-alt", e.unit, False, None, form)
            e.w(" }}")
        elif host == "tstring":
            e.new_unit()
            e.w('{{ "a${ ')
            e.single_only = True
            s = e.new_site("filter", "output-tstring", e.unit)
            s["lines"] = [e.line]
            s["lit_line"] = e.line
            e.w(e.lit_full(s["singular"]))
            e.tfilter(s, False, form)
            e.single_only = False
            e.w(' }b" }}')
        elif host == "in-for":
            e.w("{% for i in (1..2) %}\n")
            e.stmt_message(form=form, host="output", shape="simple")
            e.w("\n{% endfor %}")
        elif host == "in-if-after-comment":
            e.w("{% if true %}\n")
            e.comment("Translators:")
            e.w(rng.choice(["", "\n"]))
            e.stmt_message(form=form, host="output", shape="simple")
            e.w("\n{% endif %}")
        elif host == "in-with-special":
            e.w("{% with context: 'withctx', count: 0, plural: 'with plural' %}\n")
            e.special += 1
            e.stmt_message(form=form, host="output", shape="simple")
            e.w("\n{% endwith %}")
        elif host == "in-for-context":
            e.w("{% for context in (1..2) %}{% for count in (0..1) %}\n")
            e.special += 1
            e.stmt_message(form=form, host="echo", shape="simple")
            e.w("\n{% endfor %}{% endfor %}")
        elif host == "after-assign-context":
            e.w("{% assign context = 'asgctx' %}{% assign plural = 'assigned plural' %}\n{% assign count = 0 %}")
            e.special += 1
            e.stmt_message(form=form, host="output", shape="simple")
        else:
            e.w("{% capture c %}\n\n")
            e.stmt_message(form=form, host="output", shape="simple")
            e.w("{% endcapture %}")

    for form in OBLIGED_FORMS:
        needs_count = form in ("t-pl", "t-ctx-pl", "t-count-only", "ngettext", "npgettext")
        for host in ENUM_HOSTS:
            for txt, val in (counts if needs_count else [("", None)]):
                def fn(e: Emit, form=form, host=host, txt=txt, val=val) -> None:
                    if needs_count:
                        with_count(e, txt, val)
                    # enumerated sites keep the documented keyword order / always a count
                    e.rng = random.Random(f"{form}:{host}:{txt}")
                    host_emit(e, host, form)
                one(fn)
    # translate tag variants
    for plural in (False, True):
        for ctx in ("none", "literal", "dynamic", "nonstring", "empty"):
            for cnt in [None, *[c for c in counts if c[0] != "nil"]]:
                if ctx == "empty" and cnt is not None and cnt[0] not in ("1", "2", "5"):
                    continue
                for ml in (False, True):
                    for pre in ("", "comment", "text-lines", "assign-context", "for-context",
                                "with-special", "macro-param-context"):
                        if ml and pre not in ("", "comment", "text-lines"):
                            continue

                        def fn(e: Emit, plural=plural, ctx=ctx, cnt=cnt, ml=ml, pre=pre) -> None:
                            e.rng = random.Random(f"{plural}:{ctx}:{cnt}:{ml}:{pre}")
                            post = ""
                            if pre == "comment":
                                e.comment("Translators:")
                                e.w("\n")
                            elif pre == "text-lines":
                                e.w("a\nb\n  ")
                            elif pre == "assign-context":
                                e.w("{% assign context = 'asgctx' %}\n{% assign count = 0 %}"
                                    "{% assign plural = 'assigned plural' %}\n")
                            elif pre == "for-context":
                                e.w("{% for context in items %}{% for count in (0..1) %}\n")
                                post = "{% endfor %}\n{% endfor %}"
                            elif pre == "with-special":
                                e.w("{% with context: who, count: 0, plural: 'with plural' %}")
                                post = "{% endwith %}"
                            elif pre == "macro-param-context":
                                e.w("{% macro mm context, count: 0 %}\n")
                                post = "{% endmacro %}{% call mm 'callctx' %}"
                            if pre not in ("", "comment", "text-lines"):
                                e.special += 1
                            e.stmt_translate({"plural": plural, "ctx": ctx, "count": cnt, "ml": ml})
                            e.w(post)
                        one(fn)
    # a translator comment directly before ONE expression that yields several messages
    for kind in ("block", "hash", "hash2", "inline", "block-ml", "inline-ml", "liquid-line"):
        for shape in ("ternary-both", "ternary-tail-arg", "tstring2", "filter-arg"):
            for host in ("output", "echo", "assign"):
                for sep in ("", "\n"):
                    if kind == "liquid-line" and sep:
                        continue

                    def fn(e: Emit, kind=kind, shape=shape, host=host, sep=sep) -> None:
                        e.rng = random.Random(f"multi:{kind}:{shape}:{host}:{sep}")
                        if kind == "liquid-line":
                            if host == "output":
                                host = "echo"
                            e.w("{% liquid\n")
                            e.in_liquid = True
                            e.stmt_comment_then_multi(shape, host, kind, sep)
                            e.in_liquid = False
                            e.w("%}")
                        else:
                            e.w("x\n")
                            e.stmt_comment_then_multi(shape, host, kind, sep)
                            e.w("\n")
                            e.stmt_message(host="output", shape="simple")
                    one(fn)
    # hostile count / context VALUES at render time (one render per value of the pool)
    for form in ("t-pl", "t-ctx-pl", "t-count-only", "ngettext", "npgettext"):
        for host in ("output", "liquid-echo", "ternary-alt"):
            def fn(e: Emit, form=form, host=host) -> None:
                with_count(e, "h", "var")
                e.rng = random.Random(f"hostile:{form}:{host}")
                host_emit(e, host, form)
            one(fn, hostile=True)
    for plural in (False, True):
        for cx in ("none", "literal", "hc"):
            for cnt in (("h", "var"), None):
                def fn(e: Emit, plural=plural, cx=cx, cnt=cnt) -> None:
                    e.rng = random.Random(f"hostile-tag:{plural}:{cx}:{cnt}")
                    e.w("a\n")
                    if cx == "hc":
                        # the context value is hostile as well
                        e.stmt_translate({"plural": plural, "ctx": "dynamic", "ctx_var": "hc",
                                          "count": cnt, "ml": False})
                    else:
                        e.stmt_translate({"plural": plural, "ctx": cx, "count": cnt, "ml": False})
                one(fn, hostile=True)
    # the SAME message used twice / three times: every pair of routes, same and other lines
    for fam in ALL_FUNCS:
        for r1 in ("t", "x", "tag"):
            for r2 in ("t", "x", "tag"):
                for sep in ("\n", " ", "\n\nfiller\n"):
                    def fn(e: Emit, fam=fam, r1=r1, r2=r2, sep=sep) -> None:
                        e.rng = random.Random(f"reuse:{fam}:{r1}:{r2}:{sep}")
                        g = e.new_group(fam)
                        e.w("first line\n")
                        e.reuse_use(g, r1)
                        e.w(sep)
                        e.reuse_use(g, r2)
                    one(fn)
        for wrap in ("", "for", "if", "liquid"):
            def fn(e: Emit, fam=fam, wrap=wrap) -> None:
                e.rng = random.Random(f"reuse3:{fam}:{wrap}")
                g = e.new_group(fam)
                if wrap == "liquid":
                    e.w("{% liquid\n")
                    e.in_liquid = True
                    for _ in range(3):
                        e.reuse_use(g)
                    e.in_liquid = False
                    e.w("%}")
                    return
                e.w({"": "", "for": "{% for i in (1..2) %}\n", "if": "{% if flag %}\n"}[wrap])
                for r in ("t", "tag", "x"):
                    e.reuse_use(g, r)
                    e.w("\n")
                e.w({"": "", "for": "{% endfor %}", "if": "{% endif %}"}[wrap])
            one(fn)
    # filters / tag registered under other names, extraction told through `keywords`
    for ai, alias in enumerate(ALIAS_SETS):
        for kwmode in ("alias-dict", "alias-list", "default+alias"):
            for form in ("t", "t-ctx", "t-pl", "t-ctx-pl", "gettext", "ngettext", "pgettext",
                         "npgettext"):
                def fn(e: Emit, form=form, ai=ai, kwmode=kwmode) -> None:
                    e.rng = random.Random(f"alias:{ai}:{kwmode}:{form}")
                    e.pick_count = lambda s, avoid=(): (s.__setitem__("count", {"lit": 2}), "2")[1]  # type: ignore[method-assign]
                    e.w("x\n")
                    e.stmt_message(form=form, host="output", shape="simple")
                one(fn, alias, kwmode)
            for plural in (False, True):
                for cx in ("none", "literal"):
                    def fn(e: Emit, plural=plural, cx=cx, ai=ai, kwmode=kwmode) -> None:
                        e.rng = random.Random(f"alias-tag:{ai}:{kwmode}:{plural}:{cx}")
                        e.w("x\ny\n")
                        e.stmt_translate({"plural": plural, "ctx": cx, "count": ("2", 2), "ml": False})
                    one(fn, alias, kwmode)
    return out


EDGE_TEMPLATES = [
    "", " ", "\n", "\n\n\n", "\r\n", "text", "{# only a comment #}", "{# Translators: lonely #}",
    "{% comment %}Translators: only{% endcomment %}", "{% comment %}{% endcomment %}",
    "{% # Translators: x %}", "{% #%}", "{##}", "{% raw %}{% endraw %}", "{% raw %}{{ 'x' | t }}{% endraw %}",
    "{% liquid %}", "{% liquid\n%}", "{% liquid\n# Translators: x\n%}", "{%- liquid -%}",
    "{% translate %}{% endtranslate %}", "{% translate %}{% plural %}{% endtranslate %}",
    "{% translate %} {% endtranslate %}", "{% translate %}{{ who }}{% endtranslate %}",
    "{% translate count: 2 %}{% plural %}many{% endtranslate %}",
    "{{ '' | t }}", "{{ '' | t: '' }}", "{{ '' | ngettext: '', 2 }}", "{{ nil | t }}", "{{ who | t }}",
    "{{ 'a' | t: plural: who }}", "{{ 'a' | ngettext }}", "{{ 'a' | pgettext }}", "{{ 'a' | npgettext: 'c' }}",
    "{{ 'a' | npgettext }}", "{{ 'a' | ngettext: who }}", "{{ 'a' | pgettext: who }}",
    "{{ 'a' | t: who: 'x' }}", "{{ 'a' | pgettext: who: 'x' }}", "{{ 'a' | ngettext: who: 'x' }}",
    "{{ 'a' | npgettext: who: 'x', you: 'y' }}", "{{ 'a' | gettext: 1, 2, 3 }}",
    "{{- '' -}}", "{%- comment -%}x{%- endcomment -%}", "{% if true %}{% endif %}",
    "{% for i in (1..2) %}{% endfor %}", "{% capture x %}{% endcapture %}",
    "{% macro m %}{% endmacro %}", "{% with a: 1 %}{% endwith %}", "{% case 1 %}{% endcase %}",
    "{% block b %}{% endblock %}", "{% extends 'pB' %}", "{% extends 'pB' %}{% block b %}{{ 'a' | t }}{% endblock %}",
    "{% include 'missing' %}", "{% render 'missing' %}", "{% include who %}",
    "{{ 'a' | t if who }}", "{{ 'a' if who else 'b' || t }}", "{{ \"${'a' | t}\" }}", "{{ \"${who | t}\" | t }}",
    "{% assign x = 'a' | t %}", "{% echo 'a' | t %}", "{% liquid echo 'a' | t %}",
    "{{ 'a' | t }}{# Translators: trailing #}", "{# Translators: c #}{# Translators: d #}{{ 'a' | t }}",
    "{% doc %}Translators: d{% enddoc %}{{ 'a' | t }}",
]


# ---------------------------------------------------------------------------
# the oracle
# ---------------------------------------------------------------------------


def _innermost(tb) -> str:  # noqa: ANN001
    root = os.path.join(os.path.realpath(REPO_DIR), "liquid2") + os.sep
    last = "<outside-liquid2>"
    for fs in traceback.extract_tb(tb):
        fn = os.path.realpath(fs.filename)
        if fn.startswith(root):
            last = fn[len(root):].removesuffix(".py").replace(os.sep, ".") + "." + fs.name
    return last


def _norm_entry(mt: Any) -> dict[str, Any]:
    msg = mt.message
    if isinstance(msg, str):
        msg = (msg,)
    rest = list(msg)
    ctx = None
    if rest and isinstance(rest[0], (tuple, list)):
        ctx = rest[0][0] if rest[0] else None
        rest = rest[1:]
    return {
        "lineno": mt.lineno, "func": mt.funcname, "ctx": ctx,
        "singular": rest[0] if rest else None,
        "plural": rest[1] if len(rest) > 1 else None,
        "comments": list(mt.comments),
    }


class Checker:
    def __init__(self, ctx: Ctx) -> None:
        from liquid2 import DictLoader
        from liquid2 import Environment
        from liquid2.messages import extract_from_template
        from liquid2.messages import extract_from_templates

        self.ctx = ctx
        self.Environment = Environment
        self.DictLoader = DictLoader
        self.extract_from_template = extract_from_template
        self.extract_from_templates = extract_from_templates
        self.verbose = False
        self._best: dict[str, int] = {}

    def viol(self, key: str, what: str, witness: dict[str, Any]) -> None:
        """ctx.violation, but after the first few hits of a key a witness is only
        built into the record when its case is smaller than the smallest seen."""
        ctx = self.ctx
        size = sum(len(t) for t in witness["case"]["templates"].values())
        v = ctx.violations.get(key)
        if v is not None and v["count"] >= 6 and size >= self._best.get(key, 0):
            v["count"] += 1
            return
        if key not in self._best or size < self._best[key]:
            self._best[key] = size
        ctx.violation(key, what, witness)

    # -- extraction under the no-raise monitor -------------------------------------
    def extract(self, t: Any, case: dict[str, Any], name: str, **kw: Any) -> list[dict[str, Any]] | None:
        ctx = self.ctx
        ctx.count("extraction_calls")
        try:
            got = [_norm_entry(m) for m in self.extract_from_template(t, **kw)]
        except Exception as e:  # noqa: BLE001
            where = "empty-template" if not t.nodes else _innermost(e.__traceback__)
            self.viol(
                f"extraction-raises:{type(e).__name__}:{where}",
                f"extract_from_template raised {type(e).__name__}: {str(e)[:100]} on a template that parses",
                {"case": _slim(case, only=name), "template": name, "kwargs": kw},
            )
            return None
        return got

    def register_aliases(self, env: Any, al: dict[str, str]) -> None:
        if not al:
            return
        from liquid2 import builtin as b
        from liquid2.builtin.tags.translate_tag import TranslateTag

        classes = {"t": b.Translate, "gettext": b.GetText, "ngettext": b.NGetText,
                   "pgettext": b.PGetText, "npgettext": b.NPGetText}
        for canon, cls in classes.items():
            if canon in al:
                env.filters[al[canon]] = cls()
        if "translate" in al:
            tag_cls = type("AliasTranslateTag", (TranslateTag,), {
                "end": al.get("endtranslate", "endtranslate"),
                "plural_name": al.get("plural", "plural"),
            })
            env.tags[al["translate"]] = tag_cls(env)

    def parse_all(self, case: dict[str, Any]) -> tuple[Any, dict[str, Any]] | None:
        env = self.Environment(loader=self.DictLoader(case["templates"]),
                               auto_escape=bool(case.get("auto_escape")))
        self.register_aliases(env, case.get("aliases") or {})
        tpls = {}
        for name in case["templates"]:
            try:
                tpls[name] = env.get_template(name)
            except Exception as e:  # noqa: BLE001
                self.ctx.count("generator_parse_failures")
                self.ctx.note(f"generated template did not parse ({type(e).__name__}: {str(e)[:80]}): "
                              f"{case['templates'][name][:300]!r}")
                return None
        return env, tpls

    # -- one case ------------------------------------------------------------------------
    def check_case(self, case: dict[str, Any], only_data: int | None = None) -> None:
        ctx = self.ctx
        parsed = self.parse_all(case)
        if parsed is None:
            return
        env, tpls = parsed
        sites = {(s["tpl"], s["n"]): s for s in case["sites"]}
        comments = {(c["tpl"], c["n"]): c for c in case["comments"]}
        extracted: dict[str, list[dict[str, Any]] | None] = {}
        kw = keywords_for(case)
        kwargs: dict[str, Any] = {"keywords": kw} if kw is not None else {}
        if kw is not None:
            ctx.count("extraction_calls_with_alias_keywords")
            ctx.seen("keyword_modes", case.get("kwmode"))
        groups: dict[tuple[str, int], list[dict[str, Any]]] = {}
        for s in case["sites"]:
            if "group" in s:
                groups.setdefault((s["tpl"], s["group"]), []).append(s)
        for name, t in tpls.items():
            extracted[name] = self.extract(t, case, name, **kwargs)
            if extracted[name] is not None:
                self.check_comments(case, name, extracted[name], sites, comments, ("Translators:",), groups)
            if any(c["tpl"] == name and c["tag"] == "NOTE:" for c in case["comments"]):
                tags = ["NOTE:"]
                alt = self.extract(t, case, name, comment_tags=tags, **kwargs)
                if alt is not None:
                    self.check_comments(case, name, alt, sites, comments, tuple(tags), groups)
        if case.get("catalog"):
            self.check_catalog(case, tpls, extracted, kw)
        if self.verbose:
            for name, ents in extracted.items():
                print(f"extracted from {name}:")
                for en in ents or []:
                    print("   ", en)
        root = tpls[case["root"]]
        for di, data in enumerate(case["datas"]):
            if only_data is not None and di != only_data:
                continue
            mode = case["modes"][di % len(case["modes"])]
            rec = RecordingTranslations()
            try:
                live = materialize(data)
                if mode == "async":
                    drive(root.render_async(translations=rec, **live))
                else:
                    root.render(translations=rec, **live)
            except Exception as e:  # noqa: BLE001
                ctx.count("renders_raising")
                ctx.seen("render_errors", type(e).__name__ + ": " + str(e).split("\n")[0][:60])
            ctx.ev()
            ctx.count("renders")
            if rec.log:
                ctx.nt(sorted(case["templates"].items()), sorted(data.items(), key=str), mode)
            if self.verbose:
                print(f"render #{di} ({mode}) lookups:")
                for lk in rec.log:
                    print("   ", lk)
            pending: dict[tuple[str, int], list[tuple]] = {}
            for lk in rec.log:
                self.check_lookup(case, di, data, lk, sites, extracted, pending=pending)
            for gkey, lks in pending.items():
                self.check_group(case, di, data, gkey, lks, groups[gkey], sites, extracted)

    # -- extract_from_templates (Babel catalog) ---------------------------------------------
    def check_catalog(self, case: dict[str, Any], tpls: dict[str, Any],
                      extracted: dict[str, list[dict[str, Any]] | None], kw: Any) -> None:
        """extract_from_templates under every style of `keywords`: the Babel catalog must
        hold every entry extract_from_template reports under the SAME keywords."""
        ctx = self.ctx
        for style, k in keyword_variants(case):
            ctx.count("extract_from_templates_calls")
            ctx.seen("catalog_keyword_styles", style)
            try:
                cat = self.extract_from_templates(*tpls.values(), keywords=k, strip_comment_tags=True)
            except Exception as e:  # noqa: BLE001
                if any(not t.nodes for t in tpls.values()) and isinstance(e, IndexError):
                    where = "empty-template"
                elif isinstance(e, KeyError) and isinstance(k, dict) and e.args and e.args[0] not in k:
                    where = "keywords-without-gettext-names"
                else:
                    where = _innermost(e.__traceback__)
                self.viol(
                    f"extraction-raises:{type(e).__name__}:{where}",
                    f"extract_from_templates raised {type(e).__name__}: {str(e)[:100]}"
                    + (f" with keywords={k!r}" if isinstance(k, dict) else ""),
                    {"case": _slim(case), "catalog": True},
                )
                continue
            for name, t in tpls.items():
                if k == kw or (k is None and kw is None):
                    ents = extracted.get(name)
                else:
                    ents = self.extract(t, case, name, **({"keywords": k} if k is not None else {}))
                for e in ents or []:
                    if not e["singular"] or e["func"] not in ALL_FUNCS:
                        continue
                    ctx.count("catalog_entries_checked")
                    ctx.seen("catalog_style_x_family", f"{style}:{e['func']}")
                    msg = cat.get(e["singular"], context=e["ctx"] if e["func"] in P_FUNCS else None)
                    ok = msg is not None and any(ln == e["lineno"] for _, ln in msg.locations)
                    if ok and e["func"] in N_FUNCS:
                        ok = isinstance(msg.id, (list, tuple)) and list(msg.id) == [e["singular"], e["plural"]]
                    if not ok:
                        self.viol(
                            f"catalog-missing:{e['func']}:keywords-{style}",
                            f"extract_from_template reports {e['func']} {e['singular']!r} at line "
                            f"{e['lineno']} of {name!r} but, with keywords={k!r}, the catalog of "
                            f"extract_from_templates has "
                            f"{'no such message' if msg is None else 'it as ' + repr(msg.id) + ' at ' + repr(msg.locations)}",
                            {"case": _slim(case), "catalog": True, "template": name, "entry": e,
                             "keywords_style": style},
                        )
        if not case.get("aliases"):
            self.check_babel_entry_point(case, extracted if kw is None else None)

    # -- liquid2.extract_liquid driven by Babel itself -----------------------------------------
    def check_babel_entry_point(self, case: dict[str, Any],
                                extracted: dict[str, list[dict[str, Any]] | None] | None) -> None:
        """`extract_liquid` is the Babel extraction method: Babel opens the file in binary
        mode (extract_from_file / the CLI) and applies the keyword specs itself."""
        import io
        import shutil
        import tempfile

        from babel.messages.extract import extract as babel_extract
        from babel.messages.extract import extract_from_file
        from liquid2 import extract_liquid
        from liquid2.messages import DEFAULT_KEYWORDS

        ctx = self.ctx
        tmp = tempfile.mkdtemp(prefix="vf-c15-babel-")
        try:
            for name, src in case["templates"].items():
                path = os.path.join(tmp, name + ".liquid")
                with open(path, "wb") as f:
                    f.write(src.encode("utf-8"))
                ctx.count("babel_extract_from_file_calls")
                got = None
                try:
                    got = list(extract_from_file(extract_liquid, path, keywords=DEFAULT_KEYWORDS,
                                                 comment_tags=("Translators:",)))
                except Exception as e:  # noqa: BLE001
                    self.viol(
                        f"extraction-raises:{type(e).__name__}:extract_liquid-binary-file",
                        f"babel.messages.extract.extract_from_file(extract_liquid, <file>) raised "
                        f"{type(e).__name__}: {str(e)[:90]} (Babel opens files in binary mode)",
                        {"case": _slim(case), "catalog": True, "template": name, "babel": "file"},
                    )
                if got is None:
                    try:
                        got = list(babel_extract(extract_liquid, io.StringIO(src), keywords=DEFAULT_KEYWORDS,
                                                 comment_tags=("Translators:",)))
                    except Exception as e:  # noqa: BLE001
                        self.viol(
                            f"extraction-raises:{type(e).__name__}:extract_liquid-text",
                            f"babel extract(extract_liquid, StringIO) raised {type(e).__name__}: {str(e)[:90]}",
                            {"case": _slim(case), "catalog": True, "template": name, "babel": "text"},
                        )
                        continue
                ents = (extracted or {}).get(name)
                for e in ents or []:
                    if not e["singular"] or e["func"] not in ALL_FUNCS:
                        continue
                    ctx.count("babel_entries_checked")
                    want = (e["singular"], e["plural"]) if e["func"] in N_FUNCS else e["singular"]
                    same = [g for g in got if g[0] == e["lineno"] and g[1] == want]
                    wctx = e["ctx"] if e["func"] in P_FUNCS else None
                    if not same:
                        how = f"missing:{e['func']}"
                    elif not any(g[3] == wctx for g in same):
                        how = ("context-not-a-string" if any(not isinstance(g[3], (str, type(None)))
                                                              for g in same) else "context")
                    elif not any(list(g[2]) == e["comments"] for g in same if g[3] == wctx):
                        how = "comments"
                    else:
                        continue
                    self.viol(
                        f"babel-extract:{how}",
                        f"extract_from_template reports {e['func']} {want!r} ctx={wctx!r} line {e['lineno']} "
                        f"comments={e['comments']} but Babel's extract() with extract_liquid yields "
                        f"{same or 'nothing for it'}",
                        {"case": _slim(case), "catalog": True, "template": name, "entry": e, "babel": "content"},
                    )
        finally:
            shutil.rmtree(tmp, ignore_errors=True)

    # -- runtime lookup vs extraction ------------------------------------------------------
    def check_lookup(self, case: dict[str, Any], di: int, data: dict[str, Any], lk: tuple,
                     sites: dict[tuple[str, int], dict[str, Any]],
                     extracted: dict[str, list[dict[str, Any]] | None],
                     pending: dict[tuple[str, int], list[tuple]] | None = None,
                     force_site: dict[str, Any] | None = None) -> None:
        ctx = self.ctx
        func, mctx, singular, plural, _n = lk
        singular = str(singular)
        if force_site is not None:
            site = force_site
        else:
            ctx.count("lookups_logged")
            ctx.seen("runtime_funcs", func)
            ids = RE_ID.findall(singular)
            site = sites.get((ids[0][1], int(ids[0][0]))) if len(ids) == 1 else None
            if site is not None and site["kind"] == "filter" and site["singular"] != singular:
                site = None  # a computed string that merely contains the id
            if site is not None and "group" in site and site["singular"] != singular:
                site = None
        if site is None or not site["obliged"]:
            ctx.count("lookups_unobliged")
            return
        if "group" in site and force_site is None and pending is not None:
            # a message with several use sites: judged per render as a multiset
            pending.setdefault((site["tpl"], site["group"]), []).append(lk)
            return
        ents = extracted.get(site["tpl"])
        if ents is None:
            ctx.count("lookups_skipped_extraction_failed")
            return
        kindname = "translate-tag" if site["kind"] == "tag" else f"{site['filter']}-filter"
        if (site.get("count") or {}).get("var") == "h":
            ctx.count("hostile_count_lookups_judged")
            ctx.seen("hostile_count_values", repr(data.get("h")))
            ctx.seen("hostile_count_kinds", kindname)
        r_ctx = func in P_FUNCS
        r_pl = func in N_FUNCS
        ctx_ignored = site["kind"] == "tag" and site["ctx_mode"] == "dynamic"
        mctx = None if mctx is None else str(mctx)
        plural = None if plural is None else str(plural)
        same = [e for e in ents if e["singular"] == singular]

        def pl_ok(e: dict[str, Any]) -> bool:
            return (e["func"] in N_FUNCS) == r_pl and (not r_pl or e["plural"] == plural)

        def ctx_ok(e: dict[str, Any]) -> bool:
            if ctx_ignored:
                return True
            return (e["func"] in P_FUNCS) == r_ctx and (not r_ctx or e["ctx"] == mctx)

        def witness() -> dict[str, Any]:
            return {"case": _slim(case, only=site["tpl"] if site["tpl"] == case["root"] else None),
                    "data_index": di, "lookup": list(lk), "site": site,
                    "extracted_same_id": same}

        if not same:
            self.viol(
                f"not-extracted:{kindname}:{site['construct'].replace('-ml', '')}",
                f"render looked up {func}({singular!r}) but extraction of template "
                f"{site['tpl']!r} reports no message with that id",
                witness(),
            )
            return
        fam = [e for e in same if pl_ok(e) and ctx_ok(e)]
        if not fam:
            reasons = []
            if any(e["func"] not in ALL_FUNCS for e in same):
                # extraction names a function that is not one of the four gettext functions
                reasons.append("funcname-not-a-gettext-name")
            elif "operands-after-keyword" in site["flags"]:
                reasons.append("operands-after-keyword")
            elif not any(pl_ok(e) for e in same):
                reasons.append("count-" + count_class(site, data) if site["plural"]
                               else "plural-not-an-operand")
            if not reasons[:1] in (["funcname-not-a-gettext-name"], ["operands-after-keyword"]) \
                    and not any(ctx_ok(e) for e in same):
                flags = [f for f in site["flags"] if f in ("context-after-keyword", "empty-context",
                                                           "non-string-literal-context")]
                reasons.append(flags[0] if flags else
                               "context-not-an-operand" if site["ctx_mode"] == "none" else "context")
            if not reasons:
                reasons.append("combination")
            self.viol(
                f"family-mismatch:{kindname}:{'+'.join(reasons)}",
                f"render called {func}(ctx={mctx!r}, {singular!r}, plural={plural!r}) but extraction "
                f"reports only {sorted({e['func'] for e in same})} for that id",
                witness(),
            )
            return
        good = [e for e in fam if e["lineno"] in site["lines"]]
        if not good:
            self.viol(
                f"lineno:{site['construct']}",
                f"message {singular!r} was written on line {site['lines']} but extraction reports "
                f"line {sorted({e['lineno'] for e in fam})}",
                witness(),
            )
            return
        ctx.count("lookups_matched")
        if case.get("auto_escape"):
            ctx.count("lookups_matched_auto_escape")
            if r_ctx and site["ctx_mode"] == "literal" and any(ch in (mctx or "") for ch in "&<>'\""):
                ctx.count("lookups_matched_auto_escape_literal_context_with_special_chars")
                ctx.seen("auto_escape_special_ctx_kinds", kindname)
        if "special-names-in-scope" in site["flags"] or any(k in data for k in ("context", "count", "plural")):
            ctx.count("lookups_matched_special_names_in_scope")
            if site["kind"] == "tag" and site["ctx_mode"] == "none":
                ctx.count("tag_lookups_without_context_arg_but_context_in_scope")
        ctx.seen("matched_constructs", site["construct"])
        ctx.seen("matched_forms", f"{kindname}:{func}")
        lit_line = site.get("lit_line", site["lines"][0])
        if all(e["lineno"] != lit_line for e in good):
            ctx.count("lineno_loose_reading")
        elif lit_line > 1:
            ctx.count("lineno_matched_beyond_line_1")

    # -- one message, several use sites --------------------------------------------------------
    def check_group(self, case: dict[str, Any], di: int, data: dict[str, Any],
                    gkey: tuple[str, int], lks: list[tuple], members: list[dict[str, Any]],
                    sites: dict[tuple[str, int], dict[str, Any]],
                    extracted: dict[str, list[dict[str, Any]] | None]) -> None:
        """All use sites of a group are siblings (or all at the top level of their template),
        so they are executed equally often and make the same catalog request: r lookups
        by k sites.  Each use site needs its own extracted entry: right family, its line."""
        ctx = self.ctx
        ents = extracted.get(gkey[0])
        if ents is None:
            ctx.count("lookups_skipped_extraction_failed", len(lks))
            return
        sigs = {(f, None if c is None else str(c), None if p is None else str(p)) for f, c, _s, p, _n in lks}
        k = len(members)
        if len(sigs) != 1 or len(lks) % k:
            # not the execution pattern the generator intended (e.g. a render error in between):
            # fall back to the per-lookup judgement against the first use site
            ctx.count("reuse_groups_fallback")
            for lk in lks:
                self.check_lookup(case, di, data, lk, sites, extracted, force_site=members[0])
            return
        func, mctx, plural = next(iter(sigs))
        singular = members[0]["singular"]
        r_ctx, r_pl = func in P_FUNCS, func in N_FUNCS

        def fam_ok(e: dict[str, Any]) -> bool:
            return (e["singular"] == singular and e["func"] in ALL_FUNCS
                    and (e["func"] in N_FUNCS) == r_pl and (not r_pl or e["plural"] == plural)
                    and (e["func"] in P_FUNCS) == r_ctx and (not r_ctx or e["ctx"] == mctx))

        fam = [i for i, e in enumerate(ents) if fam_ok(e)]
        # bipartite matching use site -> entry (augmenting paths; groups are tiny)
        cand = {j: [i for i in fam if ents[i]["lineno"] in m["lines"]] for j, m in enumerate(members)}
        owner: dict[int, int] = {}

        def assign(j: int, seen: set[int]) -> bool:
            for i in cand[j]:
                if i in seen:
                    continue
                seen.add(i)
                if i not in owner or assign(owner[i], seen):
                    owner[i] = j
                    return True
            return False

        unmatched = [j for j in sorted(cand, key=lambda j: len(cand[j])) if not assign(j, set())]
        per_site = len(lks) // k
        for j, m in enumerate(members):
            if j not in unmatched:
                ctx.count("lookups_matched", per_site)
                ctx.count("reuse_use_sites_matched")
                ctx.seen("matched_constructs", m["construct"])
                ctx.seen("reuse_routes", f"{m['construct']}:{func}")
                if m["lines"][0] > 1:
                    ctx.count("lineno_matched_beyond_line_1", per_site)
        if k > 1 and not unmatched:
            ctx.count("reuse_groups_matched")
            if len({m["construct"] for m in members}) > 1:
                ctx.count("reuse_groups_matched_mixed_routes")
        for j in unmatched:
            m = members[j]
            if not fam:
                # nothing of the right family at all: the ordinary judgement names the reason
                self.check_lookup(case, di, data, lks[0], sites, extracted, force_site=m)
                continue
            kindname = "translate-tag" if m["kind"] == "tag" else f"{m['filter']}-filter"
            at_line = [e for e in ents if e["singular"] == singular and e["lineno"] in m["lines"]]
            if at_line and len(at_line) >= sum(1 for x in members if x["lines"] == m["lines"]):
                # this use IS reported on its line, under another function family
                odd = any(e["func"] not in ALL_FUNCS for e in at_line)
                self.viol(
                    f"family-mismatch:{kindname}:"
                    + ("funcname-not-a-gettext-name" if odd else "reused-message"),
                    f"render called {func}(ctx={mctx!r}, {singular!r}, plural={plural!r}) for the use on "
                    f"line {m['lines']} but extraction reports {sorted({e['func'] for e in at_line})} there",
                    {"case": _slim(case), "data_index": di, "lookup": list(lks[0]), "site": m,
                     "extracted_same_id": at_line},
                )
                continue
            self.viol(
                f"reused-message:use-site-not-reported:{kindname}",
                f"message {singular!r} is used at lines {[x['lines'] for x in members]} and every use "
                f"made a {func} lookup, but extraction reports it only at lines "
                f"{[ents[i]['lineno'] for i in fam]}: no entry for the use on line {m['lines']}",
                {"case": _slim(case), "data_index": di, "lookup": list(lks[0]), "site": m,
                 "extracted_same_id": [ents[i] for i in fam]},
            )

    # -- comments ------------------------------------------------------------------------------
    def check_comments(self, case: dict[str, Any], name: str, ents: list[dict[str, Any]],
                       sites: dict[tuple[str, int], dict[str, Any]],
                       comments: dict[tuple[str, int], dict[str, Any]],
                       tags: tuple[str, ...],
                       groups: dict[tuple[str, int], list[dict[str, Any]]] | None = None) -> None:
        ctx = self.ctx
        # units of all messages extraction reported for this template (by id)
        ent_site: list[dict[str, Any] | None] = []
        used: set[tuple[str, int]] = set()
        for e in ents:
            ids = RE_ID.findall(e["singular"] or "")
            s = sites.get((ids[0][1], int(ids[0][0]))) if len(ids) == 1 else None
            if s is not None and "group" in s:
                # several use sites share the id: the entry belongs to the use on its line
                s = next((m for m in (groups or {}).get((s["tpl"], s["group"]), [])
                          if e["lineno"] in m["lines"] and (m["tpl"], m["n"]) not in used), None)
                if s is not None:
                    used.add((s["tpl"], s["n"]))
            ent_site.append(s if s is not None and s["tpl"] == name else None)
        units = sorted({s["unit"] for s in ent_site if s is not None})
        attached: dict[str, tuple[str, int]] = {}

        def viol(how: str, what: str, e: dict[str, Any], c: dict[str, Any] | None) -> None:
            self.viol(f"comment-attached:{how}", what,
                          {"case": _slim(case, only=name), "template": name, "entry": e,
                           "comment": c, "comment_tags": list(tags)})

        for e, s in zip(ents, ent_site):
            if not e["comments"]:
                ctx.count("messages_without_comment")
                continue
            for text in e["comments"]:
                ids = RE_CID.findall(text)
                c = comments.get((ids[0][1], int(ids[0][0]))) if len(ids) == 1 else None
                if c is None or c["tpl"] != name:
                    if s is not None:
                        viol("unknown-text", f"comment {text!r} is not a comment of template {name!r}", e, None)
                    continue
                if s is None:
                    continue
                ctx.count("comment_attachments_checked")
                ctx.seen("comment_kinds_attached", c["kind"])
                if c["tag"] not in tags:
                    viol("untagged-comment", f"comment {text!r} does not start with any of {tags}", e, c)
                elif c["unit"] > s["unit"]:
                    viol("to-preceding-message",
                         f"comment {c['id']} (unit {c['unit']}, line {c['line']}) is attached to message "
                         f"{e['singular']!r} which precedes it (unit {s['unit']})", e, c)
                elif any(c["unit"] < u < s["unit"] for u in units):
                    skipped = [x for x in ent_site if x is not None and c["unit"] < x["unit"] < s["unit"]]
                    viol(f"across-intervening-message:{skipped[0]['construct']}",
                         f"comment {c['id']} is attached to {e['singular']!r} although message "
                         f"{skipped[0]['singular']!r} lies between them", e, c)
                elif c["id"] in attached and attached[c["id"]] != (s["tpl"], s["n"]):
                    first = sites[attached[c["id"]]]
                    rel = "same-statement" if first["unit"] == s["unit"] else "different-statements"
                    viol(f"to-more-than-one-message:{rel}",
                         f"comment {c['id']} is attached to {first['singular']!r} and also to "
                         f"{e['singular']!r}", e, c)
                elif s["unit_line"] - c["end_line"] >= 2:
                    viol("not-adjacent",
                         f"comment {c['id']} ends on line {c['end_line']} but the statement of message "
                         f"{e['singular']!r} starts on line {s['unit_line']}: at least one whole line "
                         f"lies between them, the message does not immediately follow", e, c)
                else:
                    attached[c["id"]] = (s["tpl"], s["n"])
                    if "multi-message-expression" in s["flags"]:
                        ctx.count("comment_attachments_multi_message_expr")
                    if c["line"] != s.get("lit_line", c["line"]):
                        ctx.count("comment_attachments_across_lines")


def _slim(case: dict[str, Any], only: str | None = None) -> dict[str, Any]:
    """A replayable copy of the case."""
    return {k: case[k] for k in ("templates", "root", "sites", "comments", "datas", "modes",
                                  "auto_escape", "aliases", "kwmode") if k in case}


# ---------------------------------------------------------------------------
# shards
# ---------------------------------------------------------------------------


def shards(tier: str, seed: int) -> list[dict[str, Any]]:
    specs: list[dict[str, Any]] = []
    ng = 12 if tier == "quick" else 16
    for i in range(ng):
        specs.append({"kind": "gen", "i": i, "n": ng})
    ns = 2 if tier == "quick" else 8
    for i in range(ns):
        specs.append({"kind": "small", "i": i, "n": ns})
    ne = 2 if tier == "quick" else 4
    for i in range(ne):
        specs.append({"kind": "enum", "i": i, "n": ne})
    specs.append({"kind": "edge", "i": 0, "n": 1})
    return specs


def floors(tier: str) -> dict[str, int]:
    # DESIGN 5.1 asks for >= 3 000 matched lookups, >= 500 comment attachments and
    # >= 2 000 extraction calls (quick; x20 thorough); the calibrated floors are higher.
    k = 1 if tier == "quick" else 20
    return {
        "evaluations": 10_000 * k,
        "distinct_nontrivial": 8_000 * k,
        "lookups_matched": 40_000 * k,
        "comment_attachments_checked": 5_000 * k,
        "extraction_calls": 10_000 * k,
        "lineno_matched_beyond_line_1": 30_000 * k,
        "mutants_extracted": 1_500 * k,
        "set:matched_constructs": 55,
        "set:matched_forms": 12,
        "set:comment_kinds_attached": 6,
        "set:runtime_funcs": 4,
        "enum_cases": 2_330,
        "enum_cases_auto_escape": 1_100,
        "lookups_matched_auto_escape": 30_000 * k,
        "lookups_matched_auto_escape_literal_context_with_special_chars": 1_000 * k,
        "babel_extract_from_file_calls": 1_000 * k,
        "set:catalog_keyword_styles": 7,
        "set:catalog_style_x_family": 26,
        "set:hostile_count_values": 30,
        "hostile_count_lookups_judged": 3_000 * k,
        "reuse_use_sites_matched": 8_000 * k,
        "reuse_groups_matched": 3_000 * k,
        "reuse_groups_matched_mixed_routes": 1_000 * k,
        "extraction_calls_with_alias_keywords": 800 * k,
        "catalog_entries_checked": 3_000 * k,
        "set:keyword_modes": 3,
        "comment_attachments_multi_message_expr": 2_000 * k,
        "lookups_matched_special_names_in_scope": 30_000 * k,
        "tag_lookups_without_context_arg_but_context_in_scope": 4_000 * k,
        "edge_templates_extracted": 900,
    }


def run_shard(spec: dict[str, Any], ctx: Ctx) -> None:
    ck = Checker(ctx)
    kind = spec["kind"]
    tier = spec["tier"]
    rng = random.Random(f"{spec['seed']}:{kind}:{spec['i']}")
    if kind == "gen":
        n = 260 if tier == "quick" else 6_000
        for j in range(n):
            case = build_case(rng, rng.choice([6, 10, 16, 24]))
            case["catalog"] = j % 10 == 0
            ck.check_case(case)
            _mutants_no_raise(ck, case, rng, 4)
            if j < 2:
                ctx.sample({"kind": "gen", "root": case["templates"]["tA"],
                            "sites": len(case["sites"]), "comments": len(case["comments"])})
            ctx.check_deadline()
    elif kind == "small":
        n = 1_500 if tier == "quick" else 12_000
        for j in range(n):
            case = build_case(rng, rng.choice([1, 2, 3]))
            case["catalog"] = j % 25 == 0
            ck.check_case(case)
            ctx.check_deadline()
        ctx.sample({"kind": "small", "root": case["templates"]["tA"]})
    elif kind == "enum":
        cases = enum_cases(random.Random(f"{spec['seed']}:enum"))
        for j, case in enumerate(cases):
            if j % spec["n"] != spec["i"]:
                continue
            ck.check_case(case)
            ctx.count("enum_cases")
            if j % 2 == 0:
                # a share of every family also under Environment(auto_escape=True)
                ck.check_case({**case, "auto_escape": True, "catalog": False})
                ctx.count("enum_cases_auto_escape")
        ctx.sample({"kind": "enum", "root": case["templates"]["tA"]})
    elif kind == "edge":
        _edge(ck, ctx)


def _mutants_no_raise(ck: Checker, case: dict[str, Any], rng: random.Random, k: int) -> None:
    """Single-edit mutants of a generated root: whatever still parses must extract."""
    src = case["templates"][case["root"]]
    if not src:
        return
    for _ in range(k):
        i = rng.randrange(len(src))
        how = rng.random()
        if how < 0.4:
            m = src[:i] + src[i + 1:]
        elif how < 0.7:
            m = src[:i]
        else:
            j = min(len(src), i + rng.randint(1, 40))
            m = src[:i] + src[j:]
        _extract_only(ck, {**case["templates"], case["root"]: m}, case["root"], "mutants_extracted")


def _extract_only(ck: Checker, templates: dict[str, str], name: str, counter: str) -> None:
    env = ck.Environment(loader=ck.DictLoader(templates))
    try:
        t = env.get_template(name)
    except Exception:  # noqa: BLE001
        ck.ctx.count("unparseable_skipped")
        return
    case = {"templates": templates, "root": name, "sites": [], "comments": [],
            "datas": [dict(BASE_DATA)], "modes": ["sync"], "auto_escape": False}
    if ck.extract(t, case, name) is not None:
        ck.ctx.count(counter)
    ck.ctx.ev()


def _edge(ck: Checker, ctx: Ctx) -> None:
    partials = {"pB": "{% block b %}{{ 'pb' | t }}{% endblock %}", "missing2": ""}
    for src in EDGE_TEMPLATES:
        ctx.seen("edge_sources", src)
        tpls = {**partials, "tA": src}
        _extract_only(ck, tpls, "tA", "edge_templates_extracted")
        # and the full check (render with the recording catalog; no sites => nothing obliged)
        case = {"templates": tpls, "root": "tA", "sites": [], "comments": [],
                "datas": [dict(BASE_DATA)], "modes": ["sync"], "auto_escape": False, "catalog": True}
        env = ck.Environment(loader=ck.DictLoader(tpls))
        try:
            env.get_template("tA")
        except Exception:  # noqa: BLE001
            continue
        ck.check_case(case)
    for c in corpus.valid_cases():
        tpls = dict(c["templates"])
        tpls["__root__"] = c["template"]
        for name in tpls:
            _extract_only(ck, tpls, name, "edge_templates_extracted")
    ctx.sample({"kind": "edge", "sources": EDGE_TEMPLATES[:8]})


def replay(wit: dict[str, Any], ctx: Ctx) -> None:
    ck = Checker(ctx)
    ck.verbose = True
    case = wit["case"]
    for name, src in case["templates"].items():
        print(f"--- template {name} ---")
        for i, line in enumerate(src.splitlines() or [""], 1):
            print(f"{i:4d} | {line}")
    if "site" in wit:
        print("site (emitter's position map):", wit["site"])
    if wit.get("catalog"):
        case = {**case, "catalog": True}
    ck.check_case(case, only_data=wit.get("data_index"))
    print("violations on replay:", sorted(ctx.violations))
