"""C09 — a render depends only on its inputs, never on earlier or concurrent renders.

History-vs-fresh oracle: every step of a history executed on long-lived shared
Environment / Template / loader objects is compared (output | error class) with the same
call on freshly constructed objects holding the same configuration and contents, under
the same reading of a harness-controlled clock.  Faults are injected at the k-th data
access / loader call; the steps after a failed render are still compared with fresh.
"""

from __future__ import annotations

import copy
import random
from collections.abc import Mapping
from typing import Any

from ..core import Ctx
from ..gen import corpus
from ..gen import emit as E
from ..gen.programs import Gen
from ..instr import astfp
from ..instr import clock as clk
from ..instr import sched
from ..instr import staticstate

ID = "C09"
LEVEL = "exploration"
RULE = (
    "histories (length <= 6 quick, <= 12 thorough) over {render, render_async, analyze, "
    "from_string, get_template+render, liquid2.render/parse, configure-environment (add/replace "
    "filter, add global), render with a fault at the k-th data access, get_template with a "
    "failing loader} on two long-lived Environments, a shared (caching or plain) dict loader "
    "and a fixed set of stateful templates (counters, cycles, offset: continue, captures, "
    "macros, block overrides, translate, now/today/'now' | date, custom filters, globals) plus "
    "grammar-generated and corpus templates; the clock advances between steps. A sample of "
    "histories has its last step re-executed by a brand-new interpreter (process-global state "
    "cannot hide there), including loader-less environments configured one at a time; the node "
    "tree of every shared Template is fingerprinted after each step. distinct = hash "
    "of the history; non-trivial = >= 2 steps share an object, or a fault, or a clock advance."
)
ASSUMPTIONS = [
    "environment configuration (registered filters, globals) is an input: the fresh twin is "
    "built with the same configuration actions; the *other* environment's twin is not",
    "the clock shim replaces the datetime module global of liquid2.context and "
    "liquid2.builtin.filters.misc, the only two modules that read the wall clock",
]


class Boom(Exception):
    """Injected fault (raised by a drop or by the loader)."""


class FaultDrop(Mapping):
    """Mapping that raises at its k-th item access (k counted across nested drops)."""

    def __init__(self, d: dict[str, Any], state: list[int], fail_at: int, exc: type[BaseException]):
        self._d, self._s, self._k, self._exc = d, state, fail_at, exc

    def _hit(self) -> None:
        self._s[0] += 1
        if self._s[0] == self._k:
            raise self._exc("injected fault")

    def __getitem__(self, k: Any) -> Any:
        self._hit()
        v = self._d[k]
        if isinstance(v, dict):
            return FaultDrop(v, self._s, self._k, self._exc)
        return v

    def __iter__(self):
        return iter(self._d)

    def __len__(self) -> int:
        return len(self._d)


# --------------------------------------------------------------------------- fixtures

TEMPLATES: dict[str, str] = {
    "counters": "{% increment a %}{% increment a %}{% decrement b %}{{ a }}|{{ b }}{% increment n %}",
    "cycle": "{% cycle 'a', 'b', 'c' %}{% cycle 'a', 'b', 'c' %}{% cycle g: 1, 2 %}{% for i in (1..3) %}{% cycle 'x', 'y' %}{% endfor %}",
    "offset": "{% for i in xs limit: 2 %}{{ i }}{% endfor %}|{% for i in xs offset: continue %}{{ i }}{% endfor %}|{% for i in xs offset: continue %}{{ i }}{% else %}E{% endfor %}",
    "capture": "{{ leftover }}{{ c }}{% capture c %}{{ v }}!{% endcapture %}{{ c }}{% assign leftover = v %}{{ leftover }}",
    "macro": "{% call m 1 %}{% macro m x %}[{{ x }}{{ v }}]{% endmacro %}{% call m 2 %}{% call later %}",
    "macro2": "{% macro later %}LATER{% endmacro %}{% call later %}{% call m 9 %}",
    "macro3": "{% if formal %}{% macro greet name, greeting: 'Good day' %}{{ greeting }}, {{ name }}!{% endmacro %}{% else %}"
              "{% macro greet name, greeting: 'Hi' %}{{ greeting }}, {{ name }}!{% endmacro %}{% endif %}{% call greet v %}"
              "{% for i in xs %}{% call greet i %}{% endfor %}",
    "babel": "{{ 1.1 | decimal }}|{{ 1234.5 | currency }}|{{ 2.5 | money }}|{{ 3.25 | unit: 'length-meter' }}|{{ 7 | decimal }}"
             "|{{ 1234567890123456 | plus: 0.5 }}|{{ 3.141592653589793 | times: 2 }}|{{ xs | sum }}|{{ 1700000000 | datetime }}",
    "striphtml": "{{ v | strip_html }}|{{ 'Have <em>you</em> read <b>it</b>?' | strip_html }}|{{ 'nice post <script>track(' | strip_html }}"
                 "|{{ 'a <style>p{' | strip_html }}|{{ '</script> after' | strip_html }}|{{ 'x <b>y</b> z' | strip_html }}",
    "macrorender": "{% macro card t %}<{% render 'rp', x: t %}>{% endmacro %}{% call card v %}{% call card 'z' %}",
    "renderblock": "{% render 'blocky', v: v %}|{% render 'child2', v: v %}",
    "blocky": "{% block b %}[{{ v }}]{% endblock %}",
    "child": "{% extends 'base' %}{% block a %}child-a {{ block.super }}{% endblock %}stray",
    "child2": "{% extends 'base' %}{% block b %}child2-b {{ v }}{% endblock %}",
    "base": "<{% block a %}base-a{% endblock %}|{% block b %}base-b{% endblock %}>",
    "now": "{{ now | date: '%Y-%m-%d %H:%M:%S' }}|{{ today }}|{{ 'now' | date: '%s' }}|{{ 'today' | date: '%Y%j' }}|{{ 'now' | date: '%H%M%S' }}",
    "translate": "{% translate who: v %}Hi {{ who }}{% plural %}His {{ who }}{% endtranslate %}{{ 'x' | t }}{{ 'a' | ngettext: 'b', 2 }}",
    "include": "{% include 'inc' %}{{ set_by_inc }}{% increment k %}",
    "inc": "({{ set_by_inc }}{% assign set_by_inc = v %}{% increment k %})",
    "render": "{% render 'rp', x: v %}{% render 'rp' for xs as x %}{{ inner }}",
    "rp": "[{{ x }}{{ inner }}{% assign inner = x %}{% increment r %}{% cycle 1, 2 %}]",
    "custom": "{{ v | shout }}|{{ site }}|{{ v | upcase }}",
    "drop": "{{ d.a }}{{ d.b.c }}{% increment n %}{% for x in d.list %}{{ x }}{% cycle 1, 2 %}{% endfor %}{{ d.z }}{% assign q = d.a %}{{ q }}{% capture w %}{{ d.b.c }}{% endcapture %}{{ w }}",
    "with": "{% with v: 'shadow' %}{{ v }}{% endwith %}{{ v }}{{ xs | map: i => i | join: ',' }}{{ xs | where: i => i > 1 | size }}",
    "undefined": "{{ nosuch }}{{ v | default: 'd' }}{% if nosuch %}t{% else %}f{% endif %}{{ nosuch.deeper | size }}",
    "brokenpartial": "{{ v }}{% render 'nosuchpartial__' %}{{ nosuch }}",
    "brokenpartial2": "{% include 'inc' %}{% include 'nosuchpartial__' %}",
    "ifchanged": "{% for i in xs %}{% if forloop.first %}F{% endif %}{{ forloop.index }}{% endfor %}{% liquid\nassign z = v\necho z %}",
}
ROOTS = ["counters", "cycle", "offset", "capture", "macro", "macro2", "macro3", "macrorender", "renderblock", "babel", "striphtml", "child", "child2", "now", "translate",
         "include", "render", "custom", "drop", "with", "undefined", "ifchanged", "brokenpartial", "brokenpartial2"]


# alternative texts for templates whose source is edited in the middle of a history
EDITS: dict[str, list[str]] = {
    "base": ["<<{% block a %}BASE2-a{% endblock %}#{% block b %}BASE2-b{% endblock %}>>",
             "({% block b %}b3{% endblock %}{% block a %}a3{% endblock %}{% block c %}c3{% endblock %})"],
    "child": ["{% extends 'base' %}{% block b %}edited-child-b {{ block.super }}{% endblock %}",
              "{% extends 'base' %}{% block a %}A{% endblock %}{% block b %}B{{ v }}{% endblock %}"],
    "child2": ["{% extends 'base' %}{% block a %}child2-now-overrides-a{% endblock %}"],
    "inc": ["(edited {{ v }})"],
    "rp": ["<{{ x }}>"],
    "blocky": ["{% block b %}edited[{{ v }}]{% endblock %}{% block z %}z{% endblock %}"],
    "macro2": ["{% macro later %}LATER2{% endmacro %}{% call later %}"],
}


def make_data(rng: random.Random) -> dict[str, Any]:
    return {"v": rng.choice(["al", "bo", 7, "Ü"]), "xs": [1, 2, 3, 4][: rng.randint(0, 4)], "formal": rng.random() < 0.5,
            "d": {"a": rng.choice(["A", 1]), "b": {"c": "C"}, "list": [1, 2], "z": None}}


def shout(s: object) -> str:
    return str(s).upper() + "!"


def whisper(s: object) -> str:
    return str(s).lower() + "…"


def upcase_override(s: object) -> str:
    return "<" + str(s) + ">"


CONFIG_ACTIONS = [("filter", "shout", "shout"), ("filter", "shout", "whisper"), ("global", "site", "S1"),
                  ("global", "site", "S2"), ("filter", "upcase", "upcase_override"), ("global", "v", "GLOBAL-V")]
IMPLS = {"shout": shout, "whisper": whisper, "upcase_override": upcase_override}


class World:
    def __init__(self, sources: dict[str, str], caching: bool):
        self.sources = dict(sources)
        self.caching = caching
        self.cfg: dict[str, list[tuple]] = {"A": [], "B": []}
        self.fail_next_load = [0]
        self.loaders = {e: self._loader(self.fail_next_load) for e in "AB"}
        self.envs = {e: self._env(e, self.loaders[e]) for e in "AB"}
        self.tpls: dict[tuple[str, str], Any] = {}
        self.fps: dict[int, Any] = {}

    def _loader(self, fail_flag: list[int]):  # noqa: ANN202
        from liquid2 import CachingDictLoader
        from liquid2 import DictLoader

        base = CachingDictLoader if self.caching else DictLoader

        class L(base):  # type: ignore[misc, valid-type]
            def get_source(self, env, template_name, *, context=None, **kwargs):  # noqa: ANN001
                if fail_flag[0] > 0:
                    fail_flag[0] -= 1
                    if fail_flag[0] == 0:
                        raise Boom("injected loader fault")
                return super().get_source(env, template_name, context=context, **kwargs)

        return L(dict(self.sources))

    def _env(self, e: str, loader):  # noqa: ANN001, ANN202
        from liquid2 import Environment
        from liquid2 import StrictUndefined
        from liquid2 import Undefined

        # environment B is configured with the strict undefined type (part of its configuration,
        # so the fresh twin has it too): nothing that happens on it may relax or tighten that
        env = Environment(loader=loader, undefined=StrictUndefined if e == "B" else Undefined)
        for act in self.cfg[e]:
            self._apply(env, act)
        return env

    @staticmethod
    def _apply(env, act: tuple) -> None:  # noqa: ANN001
        if act[0] == "filter":
            env.filters[act[1]] = IMPLS[act[2]]
        elif act[0] == "global":
            env.globals[act[1]] = act[2]

    def configure(self, e: str, act: tuple) -> None:
        self.cfg[e].append(act)
        self._apply(self.envs[e], act)
        if act[0] == "global":
            # environment globals are merged into a template when it is loaded
            # (Environment.make_globals): templates held from before are fetched again
            for k in [k for k in self.tpls if k[0] == e]:
                del self.tpls[k]

    def edit(self, name: str, src: str) -> None:
        """The template's source changes (in every loader); templates held by callers that
        were made from the old text are fetched again, as a caller would."""
        self.sources[name] = src
        for ld in self.loaders.values():
            ld.templates[name] = src
        for k in [k for k in self.tpls if k[1] == name]:
            del self.tpls[k]

    def fresh_env(self, e: str):  # noqa: ANN202
        return self._env(e, self._loader([0]))

    def shared_template(self, e: str, name: str, how: str):  # noqa: ANN202
        key = (e, name)
        t = self.tpls.get(key)
        if t is None or how == "reload":
            if how == "from_string":
                t = self.envs[e].from_string(self.sources[name], name=name)
            else:
                t = self.envs[e].get_template(name)
            self.tpls[key] = t
        return t


def outcome(fn) -> tuple:  # noqa: ANN001
    from liquid2.exceptions import LiquidError

    try:
        return ("ok", fn())
    except LiquidError as e:
        return ("err", type(e).__name__)
    except Boom:
        return ("boom",)
    except RecursionError:
        return ("err", "RecursionError")
    except Exception as e:  # noqa: BLE001
        return ("exc", type(e).__name__)


def analysis_key(a) -> Any:  # noqa: ANN001
    return tuple((f, sorted(str(k) for k in getattr(a, f))) for f in ("variables", "locals", "globals", "filters", "tags")
                 if hasattr(a, f))


def do_step(w: World, step: dict[str, Any], fresh: bool) -> tuple:
    """Execute one step on the shared objects (fresh=False) or on new twins."""
    import liquid2

    op = step["op"]
    e = step.get("env", "A")
    name = step.get("tpl", "")
    data = copy.deepcopy(step.get("data") or {})
    if "fault" in step:
        exc = Boom if step["fault"]["exc"] == "boom" else KeyError
        data["d"] = FaultDrop(data["d"], [0], step["fault"]["k"], exc)

    def template():  # noqa: ANN202
        if fresh:
            env = w.fresh_env(e)
            if step.get("how") == "from_string":
                return env.from_string(w.sources[name], name=name)
            return env.get_template(name)
        return w.shared_template(e, name, step.get("how", "get_template"))

    if op == "render":
        return outcome(lambda: template().render(**data))
    if op == "render_async":
        return outcome(lambda: sched.drive(template().render_async(**data)))
    if op == "analyze":
        return outcome(lambda: analysis_key(template().analyze()))
    if op == "from_string":
        env = w.fresh_env(e) if fresh else w.envs[e]
        return outcome(lambda: str(env.from_string(w.sources[name])))
    if op == "reload":
        if fresh:
            return outcome(lambda: w.fresh_env(e).get_template(name).render(**data))
        return outcome(lambda: w.shared_template(e, name, "reload").render(**data))
    if op == "load_fault":
        if fresh:
            env = w.fresh_env(e)
            env.loader.__class__  # noqa: B018
            # a fresh loader whose first call fails
            ff = [1]
            env2 = w._env(e, w._loader(ff))
            return outcome(lambda: env2.get_template(name).render(**data))
        w.fail_next_load[0] = 1
        try:
            return outcome(lambda: w.envs[e].get_template(name).render(**data))
        finally:
            w.fail_next_load[0] = 0
    if op == "pkg_render":
        # package-level convenience functions share liquid2.DEFAULT_ENVIRONMENT
        if fresh:
            saved = liquid2.DEFAULT_ENVIRONMENT
            liquid2.DEFAULT_ENVIRONMENT = liquid2.Environment()
            try:
                return outcome(lambda: liquid2.render(w.sources[name], **data))
            finally:
                liquid2.DEFAULT_ENVIRONMENT = saved
        return outcome(lambda: liquid2.render(w.sources[name], **data))
    if op == "pkg_parse":
        if fresh:
            saved = liquid2.DEFAULT_ENVIRONMENT
            liquid2.DEFAULT_ENVIRONMENT = liquid2.Environment()
            try:
                return outcome(lambda: liquid2.parse(w.sources[name]).render(**data))
            finally:
                liquid2.DEFAULT_ENVIRONMENT = saved
        return outcome(lambda: liquid2.parse(w.sources[name]).render(**data))
    raise ValueError(op)


PKG_OK = ["counters", "cycle", "offset", "capture", "macro", "now", "with", "undefined", "ifchanged", "drop"]


def gen_history(rng: random.Random, n: int, roots: list[str]) -> list[dict[str, Any]]:
    h: list[dict[str, Any]] = []
    for _ in range(n):
        r = rng.random()
        e = rng.choice("AAB")
        name = rng.choice(roots)
        data = make_data(rng)
        adv = rng.choice([0, 0, 1, 61, 3600, 86400, 86400 * 40])
        if r < 0.30:
            st: dict[str, Any] = {"op": "render", "env": e, "tpl": name, "data": data, "how": rng.choice(["get_template", "from_string"])}
        elif r < 0.42:
            st = {"op": "render_async", "env": e, "tpl": name, "data": data}
        elif r < 0.50:
            st = {"op": "analyze", "env": e, "tpl": name}
        elif r < 0.56:
            st = {"op": "from_string", "env": e, "tpl": name}
        elif r < 0.63:
            st = {"op": "reload", "env": e, "tpl": name, "data": data}
        elif r < 0.66:
            nm = rng.choice(sorted(EDITS))
            st = {"op": "edit", "tpl": nm, "src": rng.choice(EDITS[nm])}
        elif r < 0.71:
            st = {"op": "configure", "env": e, "act": list(rng.choice(CONFIG_ACTIONS))}
        elif r < 0.85:
            st = {"op": rng.choice(["render", "render_async"]), "env": e, "tpl": rng.choice(["drop", "drop", name]),
                  "data": data, "fault": {"k": rng.randint(1, 9), "exc": rng.choice(["boom", "boom", "keyerror"])}}
        elif r < 0.90:
            st = {"op": "load_fault", "env": e, "tpl": name, "data": data}
        else:
            nm = rng.choice([x for x in PKG_OK if x in roots] or roots)
            st = {"op": rng.choice(["pkg_render", "pkg_parse"]), "tpl": nm, "data": data}
        st["advance"] = adv
        h.append(st)
    return h


def run_history(ctx: Ctx, sources: dict[str, str], hist: list[dict[str, Any]], caching: bool,
                record: bool = True) -> tuple[int, tuple, tuple] | None:
    """Returns (index, shared outcome, fresh outcome) of the first diverging step."""
    c = clk.install()
    c.t = 1_700_000_000.0
    w = World(sources, caching)
    static = staticstate.Snapshot()
    for i, st in enumerate(hist):
        c.advance(st.get("advance", 0))
        if st["op"] == "configure":
            w.configure(st["env"], tuple(st["act"]))
            if record:
                ctx.count("configure_steps")
            continue
        if st["op"] == "edit":
            # (a caching dict loader has no way to notice: C14's subject, not done there)
            if not caching and st["tpl"] in w.sources:
                w.edit(st["tpl"], st["src"])
                if record:
                    ctx.count("source_edits")
            continue
        t0 = c.t
        shared = do_step(w, st, fresh=False)
        c.t = t0
        if st["op"] == "load_fault" and caching:
            # a caching loader may legitimately serve the template without asking its
            # source (C14's subject): the step is executed for its effect on later
            # steps, its own outcome is not compared
            if record:
                ctx.count("faults_injected")
            continue
        fresh = do_step(w, st, fresh=True)
        c.t = t0
        if record:
            ctx.ev(2)
            ctx.count("steps_compared")
            ctx.seen("ops", st["op"] + ("+fault" if "fault" in st else ""))
            if "fault" in st or st["op"] == "load_fault":
                ctx.count("faults_injected")
                if shared[0] in ("boom", "exc", "err"):
                    ctx.count("faults_that_aborted_a_render")
            if st.get("advance"):
                ctx.count("clock_advances")
        # nothing bound at module or class level in liquid2 may change (it would be seen
        # by every other environment and template of the process)
        moved = static.changed()
        if record:
            ctx.count("static_state_checks")
            ctx.mx("max:static_state_names", static.names)
        if moved:
            return i, ("static-state-mutated", moved[0]), ("ok", "process-wide state unchanged", "static-state")
        if shared != fresh:
            return i, shared, fresh
        # rendering must not write to the parsed template (state on AST nodes outlives the
        # render): compare the structural fingerprint of the shared Template's node tree
        # with the one taken when it was parsed
        tk = (st.get("env", "A"), st.get("tpl", ""))
        t_shared = w.tpls.get(tk)
        if t_shared is not None and st["op"] in ("render", "render_async", "analyze", "reload"):
            fp = astfp.fingerprint_nodes(t_shared)
            base = w.fps.get(id(t_shared))
            if base is None:
                w.fps[id(t_shared)] = (t_shared, astfp.fingerprint_nodes(w.fresh_env(tk[0]).from_string(w.sources[tk[1]])))
                base = w.fps[id(t_shared)]
            if record:
                ctx.count("template_fingerprint_checks")
            d = astfp.diff(base[1], fp)
            if d is not None:
                return i, ("mutated", d), ("ok", "template unchanged", "astfp")
        # absolute clock oracle: module-level caches are shared by the "fresh" twin too,
        # so time-dependent values are also compared with the harness clock itself
        if st.get("tpl") == "now" and st["op"] in ("render", "render_async", "reload", "pkg_render", "pkg_parse") \
                and shared[0] == "ok" and sources.get("now") == TEMPLATES["now"]:
            want = expected_now(t0)
            if record:
                ctx.count("clock_oracle_checks")
            if shared[1] != want:
                return i, shared, ("ok", want, "clock-oracle")
    return None


def expected_now(t: float) -> str:
    import datetime as _dt

    d = _dt.datetime.fromtimestamp(t)
    return "|".join([d.strftime("%Y-%m-%d %H:%M:%S"), str(d.date()), d.strftime("%s"), d.strftime("%Y%j"),
                     d.strftime("%H%M%S")])


def minimise(sources: dict[str, str], hist: list[dict[str, Any]], idx: int, caching: bool) -> list[dict[str, Any]]:
    """Shortest history ending in the failing step that still diverges at its last step."""
    last = hist[idx]
    ctx = Ctx("C09", "quick", 0)
    for j in range(idx):
        cand = [hist[j], last]
        r = run_history(ctx, sources, cand, caching, record=False)
        if r is not None and r[0] == 1:
            return cand
    r = run_history(ctx, sources, [last], caching, record=False)
    if r is not None:
        return [last]
    cur = hist[: idx + 1]
    changed = True
    while changed and len(cur) > 1:
        changed = False
        for j in range(len(cur) - 1):
            cand = cur[:j] + cur[j + 1 :]
            r = run_history(ctx, sources, cand, caching, record=False)
            if r is not None and r[0] == len(cand) - 1:
                cur = cand
                changed = True
                break
    return cur


def _opname(st: dict[str, Any]) -> str:
    s = st["op"]
    if "fault" in st:
        s += "+fault"
    if st["op"] == "configure":
        s += f":{st['act'][0]}:{st['act'][1]}"
    return s


def check_history(ctx: Ctx, sources: dict[str, str], hist: list[dict[str, Any]], caching: bool, origin: str) -> None:
    r = run_history(ctx, sources, hist, caching)
    ctx.nt(origin, repr(hist), caching)
    ctx.count("histories")
    if r is None:
        return
    idx, shared, fresh = r
    small = minimise(sources, hist, idx, caching)
    last = small[-1]
    tname = last.get("tpl", "") if origin == "fixtures" else origin
    same_env = all(s.get("env", "A") == last.get("env", "A") for s in small[:-1] if "env" in s) if len(small) > 1 else True
    if len(fresh) == 3 and fresh[2] == "astfp":
        ctx.violation(f"template-mutated-by-render:{astfp.mechanism(shared[1])}",
                      f"after {_opname(hist[idx])} of '{hist[idx].get('tpl')}' the parsed template differs from a fresh parse: {shared[1]}",
                      {"sources": {k: v for k, v in sources.items() if k in _used(small, sources)},
                       "history": small, "caching": caching, "shared": list(shared), "fresh": list(fresh)})
        return
    if len(fresh) == 3 and fresh[2] == "static-state":
        name = shared[1].split(":")[0].split(" (")[0]
        ctx.violation(f"process-wide-state-mutated-by-render:{name.removeprefix('liquid2.')}",
                      f"after {_opname(hist[idx])} of '{hist[idx].get('tpl')}': {shared[1]}",
                      {"sources": {k: v for k, v in sources.items() if k in _used(small, sources)},
                       "history": small, "caching": caching, "shared": list(shared), "fresh": list(fresh)})
        return
    if len(fresh) == 3 and fresh[2] == "clock-oracle":
        got, want = shared[1].split("|"), fresh[1].split("|")
        fields = ["now|date", "today", "'now'|date:%s", "'today'|date:%Y%j", "'now'|date:%H%M%S"]
        bad = [f for f, a, b in zip(fields, got, want) if a != b]
        ctx.violation(f"clock:stale-time-value:{','.join(bad)}", f"rendered {shared[1]!r}, clock says {fresh[1]!r}",
                      {"sources": {"now": sources["now"]}, "history": small, "caching": caching,
                       "shared": list(shared), "fresh": list(fresh)})
        return
    key = (f"state-leak:{'>'.join(_opname(s) for s in small)}:{tname}"
           f"{'' if same_env else ':across-environments'}{':advance' if any(s.get('advance') for s in small) and tname in ('now',) else ''}")
    ctx.violation(key, f"step {idx}: shared={shared!r} fresh={fresh!r}",
                  {"sources": {k: v for k, v in sources.items() if k in _used(small, sources)},
                   "history": small, "caching": caching, "shared": list(shared), "fresh": list(fresh)})


def _used(hist: list[dict[str, Any]], sources: dict[str, str]) -> set[str]:
    used = {s.get("tpl") for s in hist}
    # partials / parents referenced by name
    for n, src in sources.items():
        if any(f"'{n}'" in sources.get(u, "") for u in list(used) if u):
            used.add(n)
    return {u for u in used if u}


# --------------------------------------------------------------------------- fresh process oracle

NOLOADER_TEMPLATES = {
    "late": "<late {{ v }}>",
    "lay": "[{% block b %}lay{% endblock %}]",
    "card": "({{ card }}{{ site }})",
}
NOLOADER_SOURCES = [
    "{% include 'late' %}", "{% render 'late', v: v %}", "{% extends 'lay' %}{% block b %}kid{% endblock %}",
    "{% include 'card' with v %}{{ site }}", "{{ v | shout }}", "{{ site }}{{ v }}", "{% render 'card' %}",
]


def noloader_env(actions: list[Any]):  # noqa: ANN201
    """An Environment built WITHOUT a loader argument, configured by actions."""
    from liquid2 import Environment

    env = Environment()
    for act in actions:
        noloader_apply(env, act)
    return env


def noloader_apply(env, act) -> None:  # noqa: ANN001
    act = tuple(act)
    if act[0] == "template":
        env.loader.templates[act[1]] = NOLOADER_TEMPLATES[act[1]]
    else:
        World._apply(env, act)


def noloader_step(cfg: dict[str, list[Any]], step: dict[str, Any], fresh: bool, shared_envs: Any) -> tuple:
    import liquid2

    e = step.get("env", "A")
    data = copy.deepcopy(step.get("data") or {})
    if step["op"] == "pkg_render":
        # the package-level functions use liquid2.DEFAULT_ENVIRONMENT (also loader-less)
        return outcome(lambda: liquid2.render(step["src"], **data))
    env = noloader_env(cfg[e]) if fresh else shared_envs[e]
    if step["op"] == "render_async":
        return outcome(lambda: sched.drive(env.from_string(step["src"]).render_async(**data)))
    if step["op"] == "get_template":
        return outcome(lambda: env.get_template(step["name"]).render(**data))
    return outcome(lambda: env.from_string(step["src"]).render(**data))


def xproc(req: dict[str, Any]) -> tuple:
    """Outcome of one step computed by a brand-new interpreter."""
    import json
    import os
    import subprocess
    import sys

    from ..core import VERIF_DIR
    from ..core import from_tagged
    from ..core import to_tagged

    env = dict(os.environ)
    env["PYTHONHASHSEED"] = "0"
    p = subprocess.run([sys.executable, "-B", "-m", "vf.c09_xproc"], input=json.dumps(to_tagged(req)),
                       capture_output=True, text=True, cwd=VERIF_DIR, env=env, timeout=120)
    if p.returncode != 0:
        raise RuntimeError(f"fresh-process oracle failed: {p.stderr[-400:]}")
    return tuple(from_tagged(json.loads(p.stdout)))


def xproc_history(ctx: Ctx, rng: random.Random) -> None:
    c = clk.install()
    c.t = 1_700_000_000.0
    if rng.random() < 0.35:
        # loader-less environments: configuring one must not configure another
        cfg: dict[str, list[Any]] = {"A": [], "B": []}
        shared = {e: noloader_env([]) for e in "AB"}
        steps: list[dict[str, Any]] = []
        last = None
        shared_out = None
        for j in range(rng.randint(2, 5)):
            c.advance(rng.choice([0, 30, 86400]))
            if rng.random() < 0.45 and j < 4:
                e = rng.choice("AB")
                act = rng.choice([("template", n) for n in NOLOADER_TEMPLATES] + [("global", "site", "S1"), ("filter", "shout", "shout")])
                cfg[e].append(act)
                noloader_apply(shared[e], act)
                steps.append({"op": "configure", "env": e, "act": list(act)})
                continue
            st = {"op": rng.choice(["render", "render", "render_async", "pkg_render", "get_template"]), "env": rng.choice("AB"),
                  "src": rng.choice(NOLOADER_SOURCES), "name": rng.choice(list(NOLOADER_TEMPLATES)), "data": make_data(rng)}
            shared_out = noloader_step(cfg, st, fresh=False, shared_envs=shared)
            last = st
            # the fresh twin is configured as the environments were WHEN the step ran
            last_cfg = {k: list(v) for k, v in cfg.items()}
            last_clock = c.t
            steps.append(st)
        if last is None:
            return
        fresh = xproc({"noloader": True, "cfg": last_cfg, "step": last, "clock": last_clock})
        ctx.ev(2)
        ctx.count("fresh_process_comparisons")
        ctx.count("fresh_process_comparisons_loaderless")
        ctx.nt("xproc-noloader", repr(steps))
        if tuple(shared_out) != tuple(fresh):
            conf = [s for s in steps[: steps.index(last)] if s["op"] == "configure"]
            other = any(s["env"] != last.get("env") for s in conf)
            ctx.violation(
                f"process-state-leak:loaderless-env:{last['op']}{':configured-on-another-environment' if other else ''}",
                f"shared objects gave {shared_out!r}, a fresh interpreter gives {fresh!r}",
                {"noloader": True, "steps": steps, "shared": list(shared_out), "fresh": list(fresh)})
        return
    hist = gen_history(rng, rng.randint(2, 6), ROOTS)
    hist = [s for s in hist if "fault" not in s and s["op"] not in ("load_fault", "edit")] or [
        {"op": "render", "env": "A", "tpl": rng.choice(ROOTS), "data": make_data(rng), "advance": 0}]
    if hist[-1]["op"] == "configure" or "fault" in hist[-1] or hist[-1]["op"] == "load_fault":
        hist.append({"op": "render", "env": rng.choice("AB"), "tpl": rng.choice(ROOTS), "data": make_data(rng), "advance": 3600})
    caching = rng.random() < 0.5
    w = World(TEMPLATES, caching)
    out = None
    for st in hist:
        c.advance(st.get("advance", 0))
        if st["op"] == "configure":
            w.configure(st["env"], tuple(st["act"]))
            continue
        out = do_step(w, st, fresh=False)
    last = hist[-1]
    fresh = xproc({"sources": TEMPLATES, "caching": caching, "cfg": {e: [list(a) for a in acts] for e, acts in w.cfg.items()},
                   "step": last, "clock": c.t})
    ctx.ev(2)
    ctx.count("fresh_process_comparisons")
    ctx.nt("xproc", repr(hist), caching)
    if tuple(out) != tuple(fresh):
        ctx.violation(f"process-state-leak:{_opname(last)}:{last.get('tpl')}",
                      f"after {len(hist) - 1} earlier steps the shared objects gave {out!r}, a fresh interpreter gives {fresh!r}",
                      {"history": hist, "caching": caching, "shared": list(out), "fresh": list(fresh), "xproc": True})


# --------------------------------------------------------------------------- faults sweep


def fault_sweep(ctx: Ctx, rng: random.Random, caching: bool) -> None:
    """For every k up to the number of data accesses of the fault-free run: fail at k,
    then render every stateful template and compare with fresh."""
    data = make_data(rng)
    sources = TEMPLATES
    probe = [0]
    d2 = copy.deepcopy(data)
    d2["d"] = FaultDrop(d2["d"], probe, 10**9, Boom)
    from liquid2 import DictLoader
    from liquid2 import Environment

    Environment(loader=DictLoader(dict(sources))).from_string(sources["drop"]).render(**d2)
    n = probe[0]
    ctx.mx("max:data_accesses_in_fault_free_run", n)
    for k in range(1, n + 1):
        for mode in ("render", "render_async"):
            for exc in ("boom", "keyerror"):
                follow = rng.sample(ROOTS, 3)
                hist = [{"op": mode, "env": "A", "tpl": "drop", "data": data, "fault": {"k": k, "exc": exc}, "advance": 0}]
                hist += [{"op": rng.choice(["render", "render_async"]), "env": "A", "tpl": f, "data": make_data(rng),
                          "advance": rng.choice([0, 5])} for f in follow]
                hist.append({"op": "render", "env": "A", "tpl": "drop", "data": data, "advance": 0})
                check_history(ctx, sources, hist, caching, "fixtures")
                ctx.count("fault_positions_swept")


# --------------------------------------------------------------------------- concurrency


def concurrent(ctx: Ctx, rng: random.Random) -> None:
    """k concurrent render_async of ONE shared Template (gated drops): each result must
    equal the result on fresh objects."""
    from . import c03

    name = rng.choice(["counters", "cycle", "offset", "capture", "macro", "drop", "include", "render", "with"])
    # data accesses (await points under render_async) before, between and after the
    # stateful tags
    src = "{{ d.a }}" + TEMPLATES[name].replace("%}{", "%}{{ d.b.c }}{", 2) + "{{ d.list.size }}"
    datas = [make_data(rng) for _ in range(rng.choice([2, 2, 3]))]
    for d in datas:
        d["xs"] = d["xs"] or [1]
    w = c03.Work(ctx, {"seed": rng.random(), "kind": "c09", "i": 0, "tier": ctx.tier})
    before = dict(ctx.violations)
    w.schedules(src, dict(TEMPLATES), datas, rng.choice(["gated", "gated-caching"]), f"c09:{name}")
    for k in list(ctx.violations):
        if k not in before and not k.startswith("concurrent:"):
            v = ctx.violations.pop(k)
            v["key"] = "concurrent:" + k
            ctx.violations["concurrent:" + k] = v
    ctx.count("concurrent_sets")


# --------------------------------------------------------------------------- framework


def shards(tier: str, seed: int) -> list[dict[str, Any]]:
    n = 8 if tier == "quick" else 16
    specs = [{"kind": "hist", "i": i, "n": n, "per": 500 if tier == "quick" else 6000} for i in range(n)]
    specs += [{"kind": "faults", "i": i, "n": 2} for i in range(2)]
    specs += [{"kind": "genhist", "i": i, "n": 3, "per": 200 if tier == "quick" else 3000} for i in range(3)]
    specs += [{"kind": "conc", "i": i, "n": 3, "per": 40 if tier == "quick" else 500} for i in range(3)]
    specs += [{"kind": "xproc", "i": i, "n": 4, "per": 45 if tier == "quick" else 600} for i in range(4)]
    return specs


def floors(tier: str) -> dict[str, int]:
    k = 1 if tier == "quick" else 15
    return {"steps_compared": 5000 * k, "faults_injected": 500 * k, "faults_that_aborted_a_render": 150 * k,
            "schedules_explored": 500 * k, "clock_advances": 1000 * k, "configure_steps": 200 * k,
            "clock_selftest_ok": 1, "set:ops": 10, "clock_oracle_checks": 100 * k,
            "fresh_process_comparisons": 120 * k, "fresh_process_comparisons_loaderless": 30 * k,
            "template_fingerprint_checks": 3000 * k, "source_edits": 150 * k, "static_state_checks": 5000 * k, "max:static_state_names": 25}


def run_shard(spec: dict[str, Any], ctx: Ctx) -> None:
    rng = random.Random(f"{spec['seed']}:{spec['kind']}:{spec['i']}")
    tier = spec["tier"]
    if clk.selftest():
        ctx.count("clock_selftest_ok")
    maxlen = 6 if tier == "quick" else 12
    if spec["kind"] == "hist":
        if spec["i"] == 0:
            # environment configuration followed by REPEATED loads of templates that read it:
            # a second get_template() (a hit, for a caching loader) renders like the first
            for caching in (False, True):
                for e in "AB":
                    for acts in ([("global", "site", "S1")], [("global", "site", "S1"), ("global", "site", "S2")],
                                 [("filter", "shout", "shout"), ("global", "site", "S2")]):
                        for name in ("custom", "include", "child"):
                            hist = []
                            for act in acts:
                                hist.append({"op": "configure", "env": e, "act": list(act)})
                                for op in ("render", "reload", "render_async", "reload", "analyze", "reload"):
                                    hist.append({"op": op, "env": e, "tpl": name, "data": make_data(rng), "how": "get_template"})
                            check_history(ctx, TEMPLATES, hist, caching, "fixtures")
                            ctx.count("configure_then_reload_histories")
            # an analysis (or render) that fails midway, then renders on the same environment
            for caching in (False, True):
                for e in "AB":
                    for bad in ("brokenpartial", "brokenpartial2"):
                        for first in ("analyze", "render", "render_async"):
                            hist = [{"op": "render", "env": e, "tpl": "undefined", "data": make_data(rng), "how": "get_template"},
                                    {"op": first, "env": e, "tpl": bad, "data": make_data(rng), "how": "get_template"}]
                            for name in ("undefined", "custom", "with", "undefined"):
                                hist.append({"op": rng.choice(["render", "render_async"]), "env": e, "tpl": name,
                                             "data": make_data(rng), "how": rng.choice(["get_template", "from_string"])})
                            check_history(ctx, TEMPLATES, hist, caching, "fixtures")
                            ctx.count("failed_step_then_render_histories")
        for _ in range(spec["per"]):
            hist = gen_history(rng, rng.randint(2, maxlen), ROOTS)
            check_history(ctx, TEMPLATES, hist, rng.random() < 0.5, "fixtures")
        ctx.sample({"history": [{k: v for k, v in s.items() if k != "data"} for s in hist]})
    elif spec["kind"] == "faults":
        fault_sweep(ctx, rng, caching=bool(spec["i"]))
    elif spec["kind"] == "genhist":
        cases = corpus.valid_cases()
        for j in range(spec["per"]):
            if j % 2:
                g = Gen(random.Random(rng.random()))
                prog = g.program()
                em = E.emit(prog, E.Layout(random.Random(1)))
                sources = {"root": em.source, **em.partials}
                datas = [g.data(), g.data()]
                origin = "gen"
            else:
                c = rng.choice(cases)
                sources = {"root": c["template"], **c["templates"]}
                datas = [c["data"], c["data"]]
                origin = "corpus"
            hist = []
            for _ in range(rng.randint(2, 5)):
                op = rng.choice(["render", "render", "render_async", "analyze", "reload", "pkg_render" if len(sources) == 1 else "render"])
                hist.append({"op": op, "env": rng.choice("AB"), "tpl": "root", "data": rng.choice(datas),
                             "how": rng.choice(["get_template", "from_string"]), "advance": rng.choice([0, 7])})
            check_history(ctx, sources, hist, rng.random() < 0.5, origin)
        ctx.sample({"origin": origin, "sources": sources, "history": [{k: v for k, v in s.items() if k != "data"} for s in hist]})
    elif spec["kind"] == "xproc":
        for _ in range(spec["per"]):
            xproc_history(ctx, rng)
    else:
        for _ in range(spec["per"]):
            concurrent(ctx, rng)


def replay(wit: dict[str, Any], ctx: Ctx) -> None:
    if wit.get("noloader") or wit.get("xproc"):
        print("replay C09 (fresh-process oracle): shared =", wit.get("shared"), " fresh interpreter =", wit.get("fresh"))
        print("            steps =", wit.get("steps") or wit.get("history"))
        ctx.violation("replayed", "see recorded outcomes (re-run the xproc shard to re-execute)", wit)
        return
    sources = dict(TEMPLATES)
    sources.update(wit.get("sources") or {})
    hist = wit["history"]
    r = run_history(ctx, sources, hist, wit.get("caching", False))
    print("replay C09: history =", [_opname(s) + ":" + str(s.get("tpl")) for s in hist])
    print("            divergence =", r)
    if r is not None:
        ctx.violation("replayed", f"shared={r[1]!r} fresh={r[2]!r}", wit)
