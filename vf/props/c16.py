"""C16 — strict undefined raises only for missing variables and refines the default.

Monitor: every case is rendered three times, under *counting subclasses* of
`Undefined`, `StrictUndefined` and `FalsyStrictUndefined` (passed as
`Environment(undefined=...)`).  The subclasses log every creation `(path, hint)` and
every *touch* (any method the undefined types or their ABC bases define, invoked on the
object, and any attribute read other than the passive slots), the liquid2 function the
first raising touch came from, and -- while a witness is being reported -- the site and
result of every touch.  A wrapper on `RenderContext.get` / `get_async` (installed on the
class object) records every path looked up and decides, with a small independent
resolver over plain dict/list/str data, whether that path exists.

Clauses (mechanism key = `<clause>:<construct>`; the construct is computed on the
*minimised* witness and names where the policies first diverged / which touch raised:
`<liquid2 module.function>/<touch>`, or `<UndefinedClass>.<method>` when the same
operation at the same place answered differently, or `no-touch@<function>`; `P` is
`strict` or `falsy`):

  from the property statement
  default-raises                    the default policy raised UndefinedError
  P-success-differs                 P render succeeded, output != default output
  P-success-default-error           P succeeded while the default policy failed
  P-raises-untouched                the default run touched no undefined object (executions
                                    are identical up to the first touch) yet P raised
  P-differs-untouched               ... or ended in a different error
  undefined-error-without-missing   UndefinedError while that run created no undefined
  undefined-error-on-complete-data  UndefinedError although every referenced path is
                                    resolvable by construction (generator) / by
                                    observation (default run created no undefined)
  undefined-error-for-existing      the UndefinedError message is the hint of an undefined
                                    that `get()` created for a path the independent
                                    resolver finds in the data
  P-undefined-error-on-unused       P raised although the only missing paths of the
                                    program sit where they are not *used*: assigned /
                                    passed to a partial, `with` or macro but never read,
                                    dead branches, short-circuited operands, the unused
                                    argument or the input of `default`; for falsy also
                                    truthiness and equality tests

  P-non-liquid-error                an exception that is not a LiquidError escaped under
                                    policy P (default: a missing variable "behaves as
                                    nil/empty", it must not crash the render; falsy/strict:
                                    the failure must be an UndefinedError); key
                                    `<Type>@<innermost liquid2 function>`
  default-missing-raises-where-nil-renders   the default policy fails with a LiquidError
                                    when top-level variables are absent although the same
                                    template renders both with them set to nil and to ''
                                    ("a missing variable behaves as nil/empty")

  P-undefined-error-under-<layers|json-hook|...>   P raised UndefinedError with the data
                                    delivered through other layers (a variable present in
                                    any layer exists) / with a documented filter hook, but
                                    not with plain render arguments; key names the layer,
                                    loader and load number
  default-differs-under-<...>       the default policy's outcome differs from the plain
                                    delivery / unconfigured filter

  from the documentation of the undefined types (what "uses" means), reported under
  their own keys so they can be told apart
  P-raises-in-default-filter        UndefinedError came from inside the `default` filter
                                    (migration.md: StrictUndefined "plays nicely with the
                                    default filter"; tests/test_undefined.py)
  falsy-raises-on-truthiness-or-equality   FalsyStrictUndefined raised inside is_truthy /
                                    _eq (variables_and_drops.md: "can be tested for
                                    truthiness and equality without raising")
  P-touch-did-not-raise             an operation other than the documented quiet ones
                                    returned normally on a strict undefined (docs: "any
                                    operation on an undefined variable will raise")
  missing-lookup-not-undefined      `get()` (no default) returned something that is not an
                                    instance of the environment's undefined type for a
                                    path the independent resolver cannot find (docs: "if a
                                    variable can not be resolved, an instance of Undefined
                                    is used instead"; property anchor `RenderContext.get
                                    returns env.undefined(...)`) -- without it "strict
                                    raises" would hold vacuously
"""

from __future__ import annotations

import copy
import itertools
import json
import random
import re
import sys
from typing import Any

from .. import c16_gen as G
from ..core import Ctx
from ..gen import corpus
from ..instr.sched import drive
from ..minimize import ddmin
from ..minimize import ddmin_str

ID = "C16"
LEVEL = "exploration"
RULE = (
    "cases = (a) every valid compliance-corpus template with its data and partials x "
    "subsets of deletions (all subsets when <= 6 candidates in thorough / <= 4 in quick, "
    "seeded samples beyond) of the variables / nested properties / list elements it "
    "references (paths from the lookup hook of a first run plus template.analyze()); "
    "(b) seeded 1-3 statement programs from 243 statement forms (outputs, 83 filter forms "
    "with the maybe-missing value as input or argument, 25 lambda forms, 26 condition "
    "forms, default filter incl. allow_false, for/tablerow/case/ternary/assign/capture/"
    "include/render/with/macro/cycle/liquid/translate, template strings, array literals "
    "holding undefined, size/first/last, nested and computed paths, out-of-range indexes) "
    "over a fixed fully-known data set x deletion subsets; (c) a seed-independent sweep of "
    "every statement form x each of 20 never-resolvable expressions (x 9 arrays where an "
    "array meets the missing value) and of 57 'not used' forms x 13 missing expressions; (d) 26 short-circuit forms "
    "(and/or, nested, with not, in if/elsif/unless/ternary/liquid/partials/lambdas) whose "
    "left operand decides x 13-17 right operands that compare / test membership / size of "
    "a variable x {nothing, the variable, its properties} deleted, always sync and async; "
    "(e) 31 forms of the filters that look up optional context names themselves (currency, "
    "money*, decimal, datetime, unit, t/gettext family, translate tag) with every referenced "
    "variable present x {no optional name, all 11, each one} supplied, sync and async, and "
    "random optional-name subsets added to 40% of the seeded programs; "
    "(f) 13 object-valued + 6 scalar template-local binders (loop variable, assign, capture, "
    "macro parameter, render/include argument or with/for alias, with-block, tablerow "
    "variable) x 45 + 21 uses of the local in every expression position (render/include "
    "with|for|kw, call, with, cycle, case/when, for in/limit/offset/range, tablerow, echo, "
    "assign, capture, filter arguments, lambda bodies, template strings, translate, "
    "ternary, if, liquid tag, computed index, array literal) at nesting depth 0, 1 and 2 "
    "(if/for/with/unless/case/macro/render/include wrappers), complete by construction, "
    "sync and async; "
    "(g) 31 forms that iterate / index / measure arrays and hashes x 9 data shapes (tuple, "
    "range, abc.Sequence drop, UserList; abc.Mapping drop, dict subclass) sync and async, "
    "every template-local program once more in a rotating shape and one reshaped variant "
    "of every seeded complete program; (h) 32 forms using a variable as key / index at "
    "depth >= 2, filter argument, range bound, loop limit / offset, cycle member, case / "
    "when value x deletion of only that inner variable (110 programs, sync and async); "
    "(j) 12 lambda-taking filters x 15 scope patterns in which the lambda uses a variable "
    "that exists only in the inner scope (macro parameter, render/include keyword or bound "
    "value, with, loop variable) after the same filter name was used outside / by a "
    "sibling; (k) the bottom of the deletion lattice: 34 programs whose every name is bound "
    "by a tag from literals / ranges rendered with NO data at all, and an all-data-deleted "
    "variant of every corpus case and seeded program; "
    "(l) WHERE the data comes from: ~3400 of the programs above and every corpus case with "
    "data again with the referenced variables split (10 patterns) over Environment "
    "globals, template globals (get_template(globals=)), loader matter and a "
    "make_globals() override, the root template loaded BY NAME through DictLoader / "
    "CachingDictLoader once, twice or three times, sync and async, compared with the plain "
    "delivery; (m) configured filters: JSON(default=hook raising TypeError), the "
    "translation filters with an identity catalog passed as default_translations, the "
    "babel filters constructed with explicit default arguments; "
    "(i) `empty` / `blank` as filter and keyword arguments (ordinary, absent variables "
    "there); "
    "sync and async; each case = one policy triple (Undefined, StrictUndefined, "
    "FalsyStrictUndefined). distinct = hash(source, data, mode); non-trivial = at least "
    "one variable deleted or a strict policy raised UndefinedError."
)
ASSUMPTIONS = [
    "touch = a call of any method found in the undefined class's MRO below `object` "
    "(except __init__/__new__/__repr__/__getattribute__ and allocation hooks) or a read of "
    "any attribute other than path/obj/hint/token/msg/__class__/__repr__; type checks "
    "(isinstance / is_undefined) are not touches and behave the same under all policies",
    "the independent path resolver only decides lookups whose intermediate objects are "
    "exactly dict/list/tuple/str/int/float/bool/None and whose keys are not undefined; "
    "roots are looked up through the context's own scope chain (trusted)",
    "a candidate violation is re-executed once; cases whose default render is not "
    "reproducible (clock) are skipped and counted",
    "LiquidErrors other than UndefinedError and non-Liquid exceptions are compared only "
    "in the untouched clause (the property speaks about UndefinedError and about "
    "successful outputs)",
    "'not used' is decided syntactically, for a fixed list of forms only (vf/c16_gen.py "
    "NOUSE / FALSY_NOUSE); whether e.g. a lambda over items lacking a key, or a value that "
    "cannot influence the output, counts as a use is left to the implementation",
    "the clauses derived from the documentation of the undefined types (see module "
    "docstring) go beyond the literal property sentence; they have their own keys",
    "a strict policy that silently consumes an undefined without touching it (and renders "
    "what the default renders) is invisible to every clause",
]

PASSIVE = frozenset(
    ["path", "obj", "hint", "token", "msg", "__class__", "__repr__", "__slots__",
     "__dict__", "__doc__", "__module__"]
)
NO_WRAP = frozenset(
    ["__init__", "__new__", "__repr__", "__getattribute__", "__setattr__", "__delattr__",
     "__init_subclass__", "__subclasshook__", "__class_getitem__", "__dir__", "__sizeof__",
     "__reduce__", "__reduce_ex__", "__getstate__", "__class__"]
)
MAXLOG = 400
# docs: "any operation on an undefined variable will raise an UndefinedError", except the
# default filter's probe (migration.md) and, for FalsyStrictUndefined, truthiness/equality
QUIET_STRICT = frozenset(["attr:force_liquid_default"])
QUIET_FALSY = frozenset(["attr:force_liquid_default", "__bool__", "__eq__", "__ne__",
                         "__liquid__", "attr:__bool__", "attr:__eq__", "attr:__liquid__"])


class Log:
    """What one render did with undefined objects."""

    __slots__ = ("created", "touches", "lookups", "bogus", "notundef", "decided",
                 "n_created", "n_touches", "detail", "raise_site", "silent")

    def __init__(self) -> None:
        self.reset()

    def reset(self) -> None:
        self.created: list[tuple[str, str | None]] = []
        self.touches: list[tuple[str, str]] = []
        self.lookups: set[tuple] = set()
        self.bogus: list[tuple[str, str | None, str]] = []
        self.notundef: list[tuple[str, str]] = []
        self.decided = [0, 0, 0]  # exists, missing, undecided
        self.n_created = 0
        self.n_touches = 0
        # detail mode (only while reporting): [name, site, result] per touch
        self.detail: list[list[str]] | None = None
        # (touch, liquid2 site) of the first touch that raised UndefinedError
        self.raise_site: tuple[str, str] | None = None
        # first touch of a strict/falsy undefined that returned normally although it is
        # not one of the documented quiet operations
        self.silent: tuple[str, str] | None = None


_CUR: list[Log | None] = [None]

HELPER_MODS = ("filter", "stringify", "limits", "utils", "undefined")


def _site() -> str:
    """Innermost liquid2 frame (outside undefined.py) from which the touch came; for the
    shared helper modules the first non-helper caller is appended."""
    f = sys._getframe(1)
    frames: list[tuple[str, str]] = []
    while f is not None and len(frames) < 12:
        fn = f.f_code.co_filename
        i = fn.rfind("/liquid2/")
        if i >= 0:
            mod = fn[i + 9:].removesuffix(".py").replace("/", ".")
            mod = mod.removeprefix("builtin.")
            if mod != "undefined":
                frames.append((mod, f.f_code.co_qualname))
        f = f.f_back
    if not frames:
        return "<outside-liquid2>"
    mod, qn = frames[0]
    site = f"{mod}.{qn}"
    if mod.split(".")[0] in HELPER_MODS:
        for m2, q2 in frames[1:]:
            if m2.split(".")[0] not in HELPER_MODS:
                site += f"<{m2}.{q2}"
                break
    return site.replace(".<locals>", "")


def _tb_site(tb: Any) -> str:
    """Innermost liquid2 function of a traceback (outside undefined.py); for the shared
    helper modules the nearest non-helper caller is appended."""
    frames: list[tuple[str, str]] = []
    while tb is not None:
        fn = tb.tb_frame.f_code.co_filename
        i = fn.rfind("/liquid2/")
        if i >= 0:
            mod = fn[i + 9:].removesuffix(".py").replace("/", ".").removeprefix("builtin.")
            if mod != "undefined":
                frames.append((mod, tb.tb_frame.f_code.co_qualname.replace(".<locals>", "")))
        tb = tb.tb_next
    if not frames:
        return "<outside-liquid2>"
    mod, qn = frames[-1]
    site = f"{mod}.{qn}"
    if mod.split(".")[0] in HELPER_MODS:
        for m2, q2 in reversed(frames[:-1]):
            if m2.split(".")[0] not in HELPER_MODS:
                site += f"<{m2}.{q2}"
                break
    return site


def _rep(v: Any) -> str:
    if v is None or isinstance(v, (bool, int, float, str)):
        return repr(v)[:40]
    return "<" + type(v).__name__.replace("Counting", "") + ">"


def _detailed(log: "Log", name: str, target: Any, self: Any, a: tuple, k: dict,
              quiet_ok: Any = None) -> Any:
    entry = [name, _site(), "?"]
    if len(log.detail) < MAXLOG:  # type: ignore[arg-type]
        log.detail.append(entry)  # type: ignore[union-attr]
    try:
        res = target(self, *a, **k)
    except BaseException as e:  # noqa: BLE001
        entry[2] = "raise " + type(e).__name__
        if log.raise_site is None and type(e).__name__ == "UndefinedError":
            log.raise_site = (name, entry[1])
        raise
    entry[2] = _rep(res)
    if quiet_ok is not None and name not in quiet_ok and log.silent is None:
        log.silent = (name, entry[1])
    return res



def _counting(base: type, label: str) -> type:
    """A subclass of *base* logging creation and every touch into the current Log."""
    from liquid2.exceptions import UndefinedError as UErr

    # touches documented not to raise (everything else must, under a strict policy)
    quiet_ok = {"default": None, "strict": QUIET_STRICT, "falsy": QUIET_FALSY}[label]

    def __init__(self, path, **kw):  # noqa: ANN001
        log = _CUR[0]
        if log is not None:
            log.n_created += 1
            if len(log.created) < MAXLOG:
                log.created.append((str(path), kw.get("hint")))
        base.__init__(self, path, **kw)

    base_ga = base.__getattribute__

    def __getattribute__(self, name):  # noqa: ANN001
        if name in PASSIVE:
            return base_ga(self, name)
        log = _CUR[0]
        if log is None:
            return base_ga(self, name)
        log.n_touches += 1
        if len(log.touches) < MAXLOG:
            log.touches.append(("attr:" + name, object.__getattribute__(self, "path")))
        if log.detail is None:
            try:
                res = base_ga(self, name)
            except UErr:
                if log.raise_site is None:
                    log.raise_site = ("attr:" + name, _site())
                raise
            if quiet_ok is not None and "attr:" + name not in quiet_ok and log.silent is None:
                log.silent = ("attr:" + name, _site())
            return res
        return _detailed(log, "attr:" + name, base_ga, self, (name,), {}, quiet_ok)

    ns: dict[str, Any] = {
        "__slots__": (),
        "__init__": __init__,
        "__getattribute__": __getattribute__,
        "_vf_label": label,
    }

    def mk(name: str, target: Any):
        def w(self, *a, **k):  # noqa: ANN001
            log = _CUR[0]
            if log is None:
                return target(self, *a, **k)
            log.n_touches += 1
            if len(log.touches) < MAXLOG:
                log.touches.append((name, object.__getattribute__(self, "path")))
            if log.detail is None:
                try:
                    res = target(self, *a, **k)
                except UErr:
                    if log.raise_site is None:
                        log.raise_site = (name, _site())
                    raise
                if quiet_ok is not None and name not in quiet_ok and log.silent is None:
                    log.silent = (name, _site())
                return res
            return _detailed(log, name, target, self, a, k, quiet_ok)

        w.__name__ = name
        return w

    for name in dir(base):
        if name in NO_WRAP or name in PASSIVE:
            continue
        raw = None
        for klass in base.__mro__:
            if klass is object:
                # inherited object slots (__lt__, __format__, ...) are not operations the
                # undefined types define; those that matter end in a wrapped method anyway
                # (object.__ne__ -> __eq__, object.__format__ -> __str__)
                break
            if name in klass.__dict__:
                raw = klass.__dict__[name]
                break
        if raw is None or isinstance(raw, (classmethod, staticmethod, property)):
            continue
        target = getattr(base, name, None)
        if target is None:
            # e.g. __hash__ = None would make the type unhashable; keep as is
            continue
        if not callable(target):
            continue
        ns[name] = mk(name, target)
    return type("Counting" + base.__name__, (base,), ns)


# ---------------------------------------------------------------------------
# lookup hook with an independent resolver
# ---------------------------------------------------------------------------

PLAIN = (dict, list, tuple, str, int, float, bool, type(None))
_MISSING = object()
_UNKNOWN = object()
_HOOKED: list[Any] = []


def _step(obj: Any, key: Any) -> Any:
    """Documented path-segment semantics over plain data.  _MISSING / _UNKNOWN / value."""
    t = type(obj)
    if t not in PLAIN:
        return _UNKNOWN
    kt = type(key)
    if kt not in (str, int, float, bool, type(None)):
        return _UNKNOWN
    if t is dict:
        try:
            if key in obj:
                return obj[key]
        except TypeError:
            return _MISSING
        if kt is str:
            if key == "size":
                return len(obj)
            if key == "first":
                if obj:
                    return next(iter(obj.items()))
                return _MISSING
        return _MISSING
    if t in (list, tuple, str):
        if kt is str:
            if key == "size":
                return len(obj)
            if key == "first":
                return obj[0] if len(obj) else _MISSING
            if key == "last":
                return obj[-1] if len(obj) else _MISSING
            return _MISSING
        if kt in (int, bool):
            return obj[key] if -len(obj) <= key < len(obj) else _MISSING
        return _MISSING
    return _MISSING  # numbers, booleans, nil have no properties


def _resolve(context: Any, path: list[object]) -> Any:
    root = path[0]
    try:
        obj = context.scope[root]
    except (KeyError, TypeError, IndexError):
        return _MISSING
    for seg in path[1:]:
        obj = _step(obj, seg)
        if obj is _MISSING or obj is _UNKNOWN:
            return obj
    return obj


def _after_get(context: Any, path: list[object], default: Any, res: Any, UNDEF: Any) -> None:
    log = _CUR[0]
    if log is None:
        return
    try:
        if all(type(s) in (str, int) for s in path):
            if len(log.lookups) < 200:
                log.lookups.add(tuple(path))
    except Exception:  # noqa: BLE001
        pass
    if default is not UNDEF:
        return
    from liquid2.undefined import Undefined

    verdict = _resolve(context, path)
    is_u = isinstance(res, Undefined)
    if verdict is _UNKNOWN:
        log.decided[2] += 1
        return
    if verdict is _MISSING:
        log.decided[1] += 1
        if not is_u or not isinstance(res, context.env.undefined):
            log.notundef.append((_pstr(path), type(res).__name__))
    else:
        log.decided[0] += 1
        if is_u and verdict is not res:
            log.bogus.append(
                (_pstr(path), object.__getattribute__(res, "hint"), repr(verdict)[:60])
            )


def _pstr(path: list[object]) -> str:
    out = ""
    for i, s in enumerate(path):
        if i == 0:
            out = str(s)
        elif isinstance(s, str) and s.isidentifier():
            out += "." + s
        else:
            out += f"[{s!r}]"
    return out


def install_hook() -> None:
    from liquid2.context import RenderContext
    from liquid2.undefined import UNDEFINED

    if _HOOKED and _HOOKED[0] is RenderContext:
        return
    orig_get = RenderContext.get
    orig_get_async = RenderContext.get_async

    def get(self, path, *, token, default=UNDEFINED):  # noqa: ANN001
        res = orig_get(self, path, token=token, default=default)
        _after_get(self, path, default, res, UNDEFINED)
        return res

    async def get_async(self, path, *, token, default=UNDEFINED):  # noqa: ANN001
        res = await orig_get_async(self, path, token=token, default=default)
        _after_get(self, path, default, res, UNDEFINED)
        return res

    RenderContext.get = get  # type: ignore[method-assign]
    RenderContext.get_async = get_async  # type: ignore[method-assign]
    _HOOKED[:] = [RenderContext]


# ---------------------------------------------------------------------------
# delivery layers and configured filters
# ---------------------------------------------------------------------------


def _json_hook(obj: Any) -> Any:
    """A json `default` hook as documented for json.dumps: it knows nothing."""
    raise TypeError(f"Object of type {type(obj).__name__} is not JSON serializable")


class IdentityTranslations:
    """A translations catalog (gettext API) that translates every message to itself."""

    def gettext(self, message: str) -> str:
        return message

    def ngettext(self, singular: str, plural: str, n: int) -> str:
        return singular if n == 1 else plural

    def pgettext(self, context: str, message: str) -> str:  # noqa: ARG002
        return message

    def npgettext(self, context: str, singular: str, plural: str, n: int) -> str:  # noqa: ARG002
        return singular if n == 1 else plural


def _configure(env: Any, cfg: dict[str, Any]) -> None:
    kind = cfg.get("kind")
    if kind == "json-hook":
        from liquid2.builtin.filters.misc import JSON

        env.filters["json"] = JSON(default=_json_hook)
    elif kind == "translations":
        from liquid2.builtin import GetText
        from liquid2.builtin import NGetText
        from liquid2.builtin import NPGetText
        from liquid2.builtin import PGetText
        from liquid2.builtin import Translate

        cat = IdentityTranslations()
        for cls in (GetText, NGetText, NPGetText, PGetText, Translate):
            env.filters[cls.name] = cls(default_translations=cat, message_interpolation=True)
    elif kind == "babel-args":
        from liquid2.builtin.filters.babel import Currency
        from liquid2.builtin.filters.babel import DateTime
        from liquid2.builtin.filters.babel import Number
        from liquid2.builtin.filters.babel import Unit

        env.filters["currency"] = Currency(default_currency_code="USD", default_locale="en_US")
        env.filters["money"] = Currency(default_input_locale="en_US")
        env.filters["decimal"] = Number(default_locale="en_US")
        env.filters["datetime"] = DateTime(default_locale="en_US")
        env.filters["unit"] = Unit(default_locale="en_US")


def _cfg_label(cfg: dict[str, Any]) -> str:
    if cfg.get("kind") == "layers":
        parts = [f"{k}={sorted(cfg[k])}" for k in ("env", "tpl", "matter", "hook") if cfg.get(k)]
        return (f"data layers {' '.join(parts) or 'none'}, {cfg.get('loader', 'dict')} loader, "
                f"load #{cfg.get('loads', 1)}")
    return str(cfg.get("kind"))


# ---------------------------------------------------------------------------
# one policy triple
# ---------------------------------------------------------------------------

POLICIES = ("default", "strict", "falsy")


class Res:
    __slots__ = ("kind", "out", "err", "msg", "log", "where")

    def __init__(self, kind: str, out: str | None, err: str | None, msg: str | None, log: Log):
        self.where = None  # innermost liquid2 function in the UndefinedError traceback
        self.kind = kind  # ok | undef | error | crash
        self.out = out
        self.err = err
        self.msg = msg
        self.log = log

    def view(self) -> dict[str, Any]:
        lg = self.log
        return {
            "outcome": self.kind, "output": self.out, "error": self.err, "message": self.msg,
            "created": lg.created[:12],
            "touches": lg.detail[:12] if lg.detail is not None else lg.touches[:12],
            "n_created": lg.n_created, "n_touches": lg.n_touches,
            "lookup_verdicts(exists,missing,undecided)": list(lg.decided),
            "undefined_for_existing": lg.bogus[:4], "missing_not_undefined": lg.notundef[:4],
            "raising_touch": lg.raise_site, "raised_in": self.where, "touch_that_did_not_raise": lg.silent,
        }


class Runner:
    def __init__(self, ctx: Ctx):
        from liquid2 import DictLoader
        from liquid2 import Environment
        from liquid2 import FalsyStrictUndefined
        from liquid2 import StrictUndefined
        from liquid2 import Undefined
        from liquid2.exceptions import LiquidError
        from liquid2.exceptions import UndefinedError
        from liquid2.shopify.environment import Environment as ShopifyEnvironment

        install_hook()
        self.ctx = ctx
        self.DictLoader = DictLoader
        self.envcls = {"default": Environment, "shopify": ShopifyEnvironment}
        self.LiquidError = LiquidError
        self.UndefinedError = UndefinedError
        self.classes = {
            "default": _counting(Undefined, "default"),
            "strict": _counting(StrictUndefined, "strict"),
            "falsy": _counting(FalsyStrictUndefined, "falsy"),
        }
        self._envs: dict[tuple[int, str], Any] = {}
        self._tpl: dict[tuple[int, str, str], Any] = {}
        self.minimised = 0
        # roots that are missing from the data of the case being judged (set by case /
        # replay): the default policy is re-rendered with them set to nil and to ''
        self.nilroots: tuple[str, ...] = ()
        self._last: Any = None
        # delivery / configuration of the case being judged (None = plain render args)
        self.cfg: dict[str, Any] | None = None
        self._plain: dict[str, Res] | None = None
        self._cfg_args: Any = None
        self.keycache: dict[tuple[str, str], list[str]] = {}

    # -- environments / templates -------------------------------------------------
    def envs(self, templates: dict[str, str], flavour: str):
        k = (id(templates), flavour)
        e = self._envs.get(k)
        if e is None or e[1] is not templates:
            if len(self._envs) > 32:
                self._envs.clear()
                self._tpl.clear()
            cls = self.envcls[flavour]
            e = (
                {p: cls(loader=self.DictLoader(templates), undefined=self.classes[p])
                 for p in POLICIES},
                templates,
            )
            self._envs[k] = e
        return e[0]

    def parse(self, source: str, templates: dict[str, str], flavour: str):
        """Three parsed templates (one per policy environment) or None."""
        k = (id(templates), flavour, source)
        t = self._tpl.get(k)
        if t is None:
            if len(self._tpl) > 256:
                self._tpl.clear()
            envs = self.envs(templates, flavour)
            try:
                t = {p: envs[p].from_string(source) for p in POLICIES}
            except Exception:  # noqa: BLE001
                t = False
            self._tpl[k] = t
        return t or None

    def render(self, tpl: Any, data: dict[str, Any], mode: str, detail: bool = False) -> Res:
        log = Log()
        if detail:
            log.detail = []
        _CUR[0] = log
        try:
            if mode == "async":
                out = drive(tpl.render_async(**data))
            else:
                out = tpl.render(**data)
            r = Res("ok", out, None, None, log)
        except self.UndefinedError as e:
            r = Res("undef", None, "UndefinedError", str(e.args[0]) if e.args else "", log)
            r.where = _tb_site(e.__traceback__)
        except self.LiquidError as e:
            r = Res("error", None, type(e).__name__, str(e.args[0])[:80] if e.args else "", log)
            r.where = _tb_site(e.__traceback__)
        except RecursionError:
            r = Res("recursion", None, "RecursionError", None, log)
        except Exception as e:  # noqa: BLE001
            r = Res("crash", None, type(e).__name__, str(e)[:80], log)
            r.where = _tb_site(e.__traceback__)
        finally:
            _CUR[0] = None
        return r

    def triple(self, source: str, templates: dict[str, str], data: dict[str, Any],
               mode: str, flavour: str, detail: bool = False) -> dict[str, Res] | None:
        t = self.parse(source, templates, flavour)
        if t is None:
            return None
        self._last = (t, data, mode)
        self._cfg_args = (source, templates, flavour)
        self._plain = None
        # data is deep-copied per render so a mutation in one run cannot leak
        plain = {p: self.render(t[p], copy.deepcopy(data), mode, detail) for p in POLICIES}
        if not self.cfg:
            return plain
        # the same triple with the data delivered through other layers / a configured
        # environment; judged by itself and against the plain delivery
        rs = {p: self.render_cfg(p, source, templates, data, mode, flavour, self.cfg, detail)
              for p in POLICIES}
        self._plain = plain
        return rs

    ROOT = "root.liquid"

    def render_cfg(self, policy: str, source: str, templates: dict[str, str],
                   data: dict[str, Any], mode: str, flavour: str, cfg: dict[str, Any],
                   detail: bool = False) -> Res:
        """Render *source* loaded BY NAME through the configured loader, *loads* times,
        with the data split over environment globals / template globals / loader matter /
        a make_globals() override / render arguments.  The last load's render counts."""
        from liquid2 import CachingDictLoader
        from liquid2.loader import TemplateSource

        data = copy.deepcopy(data)
        layer = {k: {n: data.pop(n) for n in cfg.get(k, ()) if n in data}
                 for k in ("env", "tpl", "matter", "hook")}
        tpls = dict(templates)
        tpls[self.ROOT] = source
        base_loader = CachingDictLoader if cfg.get("loader") == "caching" else self.DictLoader
        matter = layer["matter"]
        root = self.ROOT

        class Loader(base_loader):  # type: ignore[misc, valid-type]
            def get_source(self, env, template_name, *, context=None, **kw):  # noqa: ANN001, ANN003
                src = super().get_source(env, template_name, context=context, **kw)
                if template_name == root and matter:
                    return TemplateSource(src.source, src.name, src.uptodate, dict(matter))
                return src

        hookvars = layer["hook"]
        base_env = self.envcls[flavour]

        class Env(base_env):  # type: ignore[misc, valid-type]
            def make_globals(self, globals=None):  # noqa: A002, ANN001
                g = super().make_globals(globals)
                return {**hookvars, **g}

        try:
            env = Env(loader=Loader(tpls), undefined=self.classes[policy],
                      globals=layer["env"] or None)
            _configure(env, cfg)
        except Exception as e:  # noqa: BLE001
            return Res("crash", None, type(e).__name__, "environment setup: " + str(e)[:60], Log())
        res = None
        for _ in range(int(cfg.get("loads", 1))):
            try:
                if mode == "async":
                    t = drive(env.get_template_async(self.ROOT, globals=layer["tpl"] or None))
                else:
                    t = env.get_template(self.ROOT, globals=layer["tpl"] or None)
            except Exception as e:  # noqa: BLE001
                kind = "error" if isinstance(e, self.LiquidError) else "crash"
                return Res(kind, None, type(e).__name__, "load: " + str(e)[:60], Log())
            res = self.render(t, copy.deepcopy(data), mode, detail)
        assert res is not None
        return res

    def mechanism(self, clause: str, source: str, templates: dict[str, str],
                  data: dict[str, Any], mode: str, flavour: str) -> str:
        """Construct part of the key: where (liquid2 function / touch) the policies first
        diverged, or which touch raised; falls back to the features of the source text."""
        rs = self.triple(source, templates, data, mode, flavour, detail=True)
        text = construct(source, templates)
        if rs is None:
            return text
        if clause == "missing-lookup-not-undefined":
            for p in POLICIES:
                if rs[p].log.notundef:
                    pth = rs[p].log.notundef[0][0]
                    kind = "root" if not ("." in pth or "[" in pth) else (
                        "index" if pth.endswith("]") and not pth.endswith("']") else "property")
                    return kind + ("-async" if mode == "async" else "")
            return text
        pol = clause.split("-")[0]
        if "-under-" in clause and self.cfg:
            return self._cfg_mechanism(clause, rs)
        if clause.endswith("-non-liquid-error"):
            return f"{rs[pol].err}@{rs[pol].where}"
        if clause == "default-missing-raises-where-nil-renders":
            return f"{rs['default'].err}@{rs['default'].where}"
        if clause.endswith("-touch-did-not-raise"):
            sl = rs[pol].log.silent
            return f"{sl[1]}/{sl[0]}" if sl else text
        if pol in ("strict", "falsy") and ("-success-" in clause or "-differs-" in clause):
            a, b = rs["default"].log.detail or [], rs[pol].log.detail or []
            for i in range(max(len(a), len(b))):
                ea = a[i] if i < len(a) else None
                eb = b[i] if i < len(b) else None
                if ea is None or eb is None or (ea[0], ea[2]) != (eb[0], eb[2]):
                    e = eb or ea
                    if ea and eb and ea[:2] == eb[:2] and not e[0].startswith("attr:"):
                        # same operation at the same place, different answer: the
                        # mechanism is the undefined class's own method
                        cls = {"strict": "StrictUndefined", "falsy": "FalsyStrictUndefined"}[pol]
                        return f"{cls}.{e[0]}"
                    return f"{e[1]}/{e[0]}"
            return text
        if clause == "default-raises":
            dl = rs["default"].log.detail
            return f"{dl[-1][1]}/{dl[-1][0]}" if dl else text
        for p in ((pol,) if pol in ("strict", "falsy") else ("strict", "falsy")):
            if rs[p].kind == "undef":
                if rs[p].msg in ("'empty' is undefined", "'blank' is undefined"):
                    return "keyword-parsed-as-path:" + rs[p].msg.split("'")[1]
                dl = rs[p].log.detail
                return f"{dl[-1][1]}/{dl[-1][0]}" if dl else f"no-touch@{rs[p].where}"
        return text

    # -- oracle ---------------------------------------------------------------------
    def _cfg_mechanism(self, clause: str, rs: dict[str, Res]) -> str:
        cfg = self.cfg or {}
        if cfg.get("kind") != "layers":
            return _cfg_label(cfg)
        pol = clause.split("-")[0]
        r = rs.get(pol, rs["default"])
        names = [c[0] for c in r.log.created] or [c[0] for c in rs["default"].log.created]
        where = "args"
        for n in names:
            for k in ("env", "tpl", "matter", "hook"):
                if n in cfg.get(k, ()):
                    where = k
                    break
            if where != "args":
                break
        return f"{where}-via-{cfg.get('loader', 'dict')}" + ("" if cfg.get("loads", 1) == 1 else "-reloaded")

    def judge(self, rs: dict[str, Res], complete: bool,
              nouse: tuple[str, ...] = ()) -> list[tuple[str, str]]:
        """List of (clause, what)."""
        out: list[tuple[str, str]] = []
        d = rs["default"]
        if d.kind == "undef":
            out.append(("default-raises", f"default policy raised UndefinedError: {d.msg}"))
        observed_complete = d.log.n_created == 0
        for p in POLICIES:
            if rs[p].kind == "crash":
                out.append((f"{p}-non-liquid-error",
                            f"{p} policy: {rs[p].err} ({rs[p].msg}) escaped from "
                            f"{rs[p].where}; not a LiquidError"))
        if d.kind == "error" and self.nilroots and self._last is not None:
            # "a missing variable behaves as nil/empty": the same template must not fail
            # under the default policy merely because the variable is absent when it
            # renders both with the variable set to nil and set to the empty string
            t, data, mode = self._last
            alt = []
            for val in (None, ""):
                d2 = copy.deepcopy(data)
                for name in self.nilroots:
                    d2[name] = val
                if self.cfg and self._cfg_args:
                    src_, tpls_, fl_ = self._cfg_args
                    alt.append(self.render_cfg("default", src_, tpls_, d2, mode, fl_, self.cfg))
                else:
                    alt.append(self.render(t["default"], d2, mode))
            if all(a.kind == "ok" for a in alt):
                out.append(("default-missing-raises-where-nil-renders",
                            f"default policy raised {d.err} with {list(self.nilroots)} missing "
                            f"but renders {alt[0].out!r} with nil and {alt[1].out!r} with ''"))
        if self._plain is not None and self.cfg:
            # a variable present in ANY layer exists; a hook / constructor argument that
            # behaves as documented changes nothing for JSON-like data
            what = _cfg_label(self.cfg)
            pl = self._plain
            for p in ("strict", "falsy"):
                if rs[p].kind == "undef" and pl[p].kind != "undef":
                    out.append((f"{p}-undefined-error-under-{self.cfg.get('kind', 'cfg')}",
                                f"{p} raised UndefinedError ({rs[p].msg}) with {what} but not "
                                f"when everything is a render argument ({pl[p].kind}/{pl[p].out!r})"))
            if (d.kind, d.out, d.err) != (pl["default"].kind, pl["default"].out, pl["default"].err):
                out.append((f"default-differs-under-{self.cfg.get('kind', 'cfg')}",
                            f"default policy ended {d.kind}/{d.err or d.out!r} with {what} but "
                            f"{pl['default'].kind}/{pl['default'].err or pl['default'].out!r} when "
                            "everything is a render argument"))
        for p in ("strict", "falsy"):
            r = rs[p]
            if r.kind == "ok":
                if d.kind == "ok":
                    if r.out != d.out:
                        out.append((f"{p}-success-differs",
                                    f"{p} output {r.out!r} != default output {d.out!r}"))
                elif d.kind != "undef":
                    out.append((f"{p}-success-default-error",
                                f"{p} rendered {r.out!r} but the default policy raised {d.err}"))
            if d.log.n_touches == 0 and d.kind != "undef":
                if r.kind == "undef":
                    out.append((f"{p}-raises-untouched",
                                f"default run touched no undefined object ({d.log.n_created} "
                                f"created) but {p} raised UndefinedError: {r.msg}"))
                elif (r.kind, r.out, r.err) != (d.kind, d.out, d.err) and r.kind != "ok":
                    out.append((f"{p}-differs-untouched",
                                f"default run touched no undefined object yet {p} ended "
                                f"{r.kind}/{r.err} and default {d.kind}/{d.err}"))
            if r.log.silent is not None:
                out.append((f"{p}-touch-did-not-raise",
                            f"{p}: {r.log.silent[0]} on an undefined object in {r.log.silent[1]} "
                            "returned normally (docs: any operation on a strict undefined "
                            "raises UndefinedError)"))
            if r.kind == "undef":
                if r.log.n_created == 0:
                    out.append(("undefined-error-without-missing",
                                f"{p} raised UndefinedError ({r.msg}) but created no undefined "
                                "object in that run"))
                if complete or observed_complete:
                    how = "by construction" if complete else "default run created no undefined"
                    out.append(("undefined-error-on-complete-data",
                                f"{p} raised UndefinedError ({r.msg}) on complete data ({how})"))
                site = r.log.raise_site
                if site is not None:
                    fn = site[1].split("<")[0]
                    if fn == "filters.misc.default":
                        out.append((f"{p}-raises-in-default-filter",
                                    f"{p} raised UndefinedError ({r.msg}) from {site[0]} inside "
                                    "the default filter (documented to work with strict "
                                    "undefined)"))
                    elif p == "falsy" and fn in ("expressions.is_truthy", "expressions._eq"):
                        out.append(("falsy-raises-on-truthiness-or-equality",
                                    f"falsy raised UndefinedError ({r.msg}) from {site[0]} in "
                                    f"{fn} (documented: testable for truthiness and equality)"))
                if p in nouse:
                    out.append((f"{p}-undefined-error-on-unused",
                                f"{p} raised UndefinedError ({r.msg}) although the only missing "
                                f"paths sit where they are not used (raising touch {site})"))
                for bp, bh, bv in r.log.bogus:
                    if bh == r.msg or (bh is None and r.msg == f"'{bp}' is undefined"):
                        out.append(("undefined-error-for-existing",
                                    f"{p} raised UndefinedError ({r.msg}) for path {bp} which "
                                    f"resolves to {bv} in the data"))
                        break
        for p in POLICIES:
            if rs[p].log.notundef:
                pth, tn = rs[p].log.notundef[0]
                out.append(("missing-lookup-not-undefined",
                            f"{p}: get({pth}) returned {tn}, not the environment's undefined "
                            "type, for a path that does not exist in the data"))
                break
        # one entry per clause
        seen: set[str] = set()
        uniq = []
        for c, w in out:
            if c not in seen:
                seen.add(c)
                uniq.append((c, w))
        return uniq

    # -- a case -----------------------------------------------------------------------
    def case(self, source: str, templates: dict[str, str], data: dict[str, Any], mode: str,
             flavour: str, complete: bool, deleted: int, stmts: list[str] | None = None,
             record: bool = True, nouse: tuple[str, ...] = (),
             nil: tuple[str, ...] = (), cfg: dict[str, Any] | None = None
             ) -> list[tuple[str, str]]:
        ctx = self.ctx
        self.nilroots = tuple(nil)
        self.cfg = cfg
        rs = self.triple(source, templates, data, mode, flavour)
        if rs is None:
            return []
        found = self.judge(rs, complete, nouse)
        if not record:
            return found
        ctx.ev(3)
        ctx.count("policy_triples")
        d, s, f = rs["default"], rs["strict"], rs["falsy"]
        raised = s.kind == "undef" or f.kind == "undef"
        if raised:
            ctx.count("strict_raised")
        if s.kind == "undef":
            ctx.count("strict_raised_StrictUndefined")
        if f.kind == "undef":
            ctx.count("strict_raised_FalsyStrictUndefined")
        if (s.kind == "ok" and s.log.n_touches) or (f.kind == "ok" and f.log.n_touches):
            ctx.count("strict_success_after_touch")
            if s.kind == "ok" and s.log.n_touches:
                ctx.count("strict_success_after_touch_StrictUndefined")
        if d.log.n_touches == 0:
            ctx.count("default_untouched_triples")
            if d.log.n_created:
                ctx.count("default_created_but_untouched")
        if complete:
            ctx.count("complete_by_construction")
        for r in (d, s, f):
            ctx.count("lookups_decided_exists", r.log.decided[0])
            ctx.count("lookups_decided_missing", r.log.decided[1])
            ctx.count("lookups_undecided", r.log.decided[2])
            for name, _ in r.log.touches[:40]:
                ctx.seen("touch_kinds", name)
        if d.kind in ("error", "crash"):
            ctx.count("default_other_error")
            if self.nilroots:
                ctx.count("nil_substitution_checks")
        if mode == "async":
            ctx.count("async_triples")
        if deleted or raised:
            ctx.nt(source, json.dumps(data, sort_keys=True, default=str), mode)
        if nouse:
            ctx.count("nouse_programs")
            if "strict" in nouse and s.kind == "ok" and s.log.n_created:
                ctx.count("nouse_strict_ok_with_undefined_created")
            if f.kind == "ok" and f.log.n_touches:
                ctx.count("nouse_falsy_ok_after_touch")
        if found:
            Runner._nil_for_witness = self.nilroots
            Runner._cfg_for_witness = self.cfg
            self.report(found, source, templates, data, mode, flavour, complete, stmts, nouse)
            Runner._nil_for_witness = ()
        return found

    # -- violations --------------------------------------------------------------------
    def report(self, found, source, templates, data, mode, flavour, complete, stmts,  # noqa: ANN001
               nouse=()) -> None:  # noqa: ANN001
        ctx = self.ctx
        # reproducibility guard (clock-dependent templates)
        again = self.triple(source, templates, data, mode, flavour)
        first = self.triple(source, templates, data, mode, flavour)
        if again is None or first is None or any(
            (again[p].kind, again[p].out) != (first[p].kind, first[p].out) for p in POLICIES
        ):
            ctx.count("nondeterministic_skipped")
            return
        again_found = {c for c, _ in self.judge(again, complete, nouse)}
        for clause, what in found:
            if clause not in again_found:
                ctx.count("nondeterministic_skipped")
                continue
            raw = construct(source, templates)
            ck = (clause, raw)
            cached = self.keycache.get(ck)
            if cached is not None and len(cached) >= 3 and len(set(cached)) == 1:
                # the same raw shape already minimised three times to one key: count only
                key = cached[0]
                if key in ctx.violations:
                    ctx.violations[key]["count"] += 1
                    continue
            if self.minimised >= (150 if ctx.tier == "quick" else 1500):
                ctx.count("violations_beyond_minimisation_cap")
                key = f"{clause}:{self.mechanism(clause, source, templates, data, mode, flavour)}"
                ctx.violation(key, what, self.witness(source, templates, data, mode, flavour,
                                                      complete, clause, None, nouse))
                continue
            self.minimised += 1
            msrc, mtpl, mdata = self.minimise(clause, source, templates, data, mode, flavour,
                                              complete, stmts, nouse)
            key = f"{clause}:{self.mechanism(clause, msrc, mtpl, mdata, mode, flavour)}"
            self.keycache.setdefault(ck, []).append(key)
            rs = self.triple(msrc, mtpl, mdata, mode, flavour)
            w2 = what
            if rs is not None:
                for c, w in self.judge(rs, complete, nouse):
                    if c == clause:
                        w2 = w
            ctx.violation(key, w2, self.witness(msrc, mtpl, mdata, mode, flavour, complete,
                                                clause, source, nouse))

    @staticmethod
    def witness(source, templates, data, mode, flavour, complete, clause, orig, nouse=()):  # noqa: ANN001
        w = {"source": source, "templates": templates, "data": data, "mode": mode,
             "env": flavour, "complete": complete, "clause": clause}
        if nouse:
            w["nouse"] = list(nouse)
        if getattr(Runner, "_nil_for_witness", ()):
            w["nil"] = list(Runner._nil_for_witness)
        if getattr(Runner, "_cfg_for_witness", None):
            w["cfg"] = Runner._cfg_for_witness
        if orig is not None and orig != source:
            w["minimised_from"] = orig
        return w

    def minimise(self, clause, source, templates, data, mode, flavour, complete, stmts,  # noqa: ANN001
                 nouse=()):  # noqa: ANN001
        # "complete by construction" is a premise about the generated text: it survives
        # dropping whole statements but not editing characters or deleting data, so the
        # finer steps run with the premise switched off (observed completeness -- the
        # default run created no undefined object -- can still carry the clause).
        def bad(src: str, tpls: dict[str, str], dat: dict[str, Any], comp: bool = False,
                nu: tuple[str, ...] = ()) -> bool:
            rs = self.triple(src, tpls, dat, mode, flavour)
            if rs is None:
                return False
            return any(c == clause for c, _ in self.judge(rs, comp, nu))

        src = source
        try:
            if stmts and len(stmts) > 1:
                keep = ddmin(stmts, lambda ss: bad("".join(ss), templates, data, complete, nouse),
                             max_calls=20)
                if bad("".join(keep), templates, data, complete, nouse):
                    src = "".join(keep)
            if not bad(src, templates, data):
                # the violation rests on a premise about the text (complete by
                # construction / not used): only drop what the text cannot refer to --
                # partials whose removal leaves the verdict intact (a referenced one
                # would fail with TemplateNotFound instead) and data roots whose name
                # occurs nowhere in the remaining sources
                tpls = _referenced(src, templates)
                if len(tpls) == len(templates) or not bad(src, tpls, data, complete, nouse):
                    tpls = dict(templates)
                    if len(tpls) <= 24:
                        for name in list(tpls):
                            t2 = {k: v for k, v in tpls.items() if k != name}
                            if name not in src and bad(src, t2, data, complete, nouse):
                                tpls = t2
                texts = src + "\x00" + "\x00".join(tpls.values())
                dat = {k: v for k, v in data.items()
                       if re.search(r"(?<![\w-])" + re.escape(str(k)) + r"(?![\w-])", texts)
                       or k in G.OPTIONAL}
                if dat != data and bad(src, tpls, dat, complete, nouse):
                    return src, tpls, dat
                return src, tpls, data
            if len(src) <= 1500:
                src = ddmin_str(src, lambda s: bad(s, templates, data),
                                max_calls=60 if self.cfg else 260)
            # partials: drop, then shrink those that remain (fresh dict each time: env cache)
            tpls = _referenced(src, templates)
            if not bad(src, tpls, data):
                tpls = dict(templates)
            for name in list(tpls):
                t2 = {k: v for k, v in tpls.items() if k != name}
                if bad(src, t2, data):
                    tpls = t2
            for name in list(tpls):
                if len(tpls[name]) <= 400:
                    def test(s: str, name=name) -> bool:  # noqa: ANN001
                        t2 = dict(tpls)
                        t2[name] = s
                        return bad(src, t2, data)

                    small = ddmin_str(tpls[name], test, max_calls=80)
                    if small != tpls[name]:
                        tpls = dict(tpls)
                        tpls[name] = small
            dat = copy.deepcopy(data)
            dat = _shrink_data(dat, lambda d: bad(src, tpls, d))
            return src, tpls, dat
        except Exception:  # noqa: BLE001
            return source, templates, data


def _referenced(src: str, templates: dict[str, str]) -> dict[str, str]:
    """The partials the source names, transitively (all of them if a name is computed)."""
    if re.search(r"\{%[-~+]?\s*(include|render|extends)\s+[^'\"\s]", src):
        return dict(templates)
    keep: dict[str, str] = {}
    texts = [src]
    grew = True
    while grew:
        grew = False
        for name, body in templates.items():
            if name not in keep and any(name in t for t in texts):
                keep[name] = body
                texts.append(body)
                grew = True
    return keep


def _shrink_data(data: dict[str, Any], bad, budget: int = 120) -> dict[str, Any]:  # noqa: ANN001
    """Greedy: delete keys / list elements (deepest last) while the oracle keeps failing."""
    calls = 0
    changed = True
    while changed and calls < budget:
        changed = False
        for pos in positions(data, depth=4):
            if calls >= budget:
                break
            cand = delete(data, [pos])
            if cand == data:
                continue
            calls += 1
            if bad(cand):
                data = cand
                changed = True
                break
    return data


# ---------------------------------------------------------------------------
# construct classification (from the minimised source text)
# ---------------------------------------------------------------------------

_TAG = re.compile(r"\{%[-~+]?\s*(\w+)")
_FILTER = re.compile(r"\|\|?\s*([a-z_][a-z_0-9]*)")
_LTAG = re.compile(r"^\s*(\w+)", re.M)
SKIP_TAGS = {"else", "elsif", "when", "endif", "endfor", "endcase", "endunless", "endcapture",
             "endwith", "endmacro", "endtablerow", "endraw", "endcomment", "endblock",
             "endtranslate", "plural", "break", "continue", "comment", "raw"}
KNOWN_TAGS = {"if", "unless", "for", "case", "assign", "capture", "include", "render", "with",
              "macro", "call", "tablerow", "cycle", "echo", "liquid", "increment", "decrement",
              "translate", "extends", "block"}


def construct(source: str, templates: dict[str, str] | None = None) -> str:
    texts = [source]
    todo = dict(templates or {})
    grew = True
    while grew:  # only partials the program (transitively) names
        grew = False
        for name in sorted(todo):
            if any(name in t for t in texts):
                texts.append(todo.pop(name))
                grew = True
                break
    feats: list[str] = []

    def add(f: str) -> None:
        if f not in feats:
            feats.append(f)

    for ti, text in enumerate(texts):
        for m in _TAG.finditer(text):
            t = m.group(1)
            if t in KNOWN_TAGS:
                add(t + "-tag")
            if t == "liquid":
                for m2 in _LTAG.finditer(text[m.end():].split("%}")[0]):
                    if m2.group(1) in KNOWN_TAGS:
                        add(m2.group(1) + "-tag")
        markup = " ".join(re.findall(r"\{\{.*?\}\}|\{%.*?%\}", text, flags=re.S))
        for m in _FILTER.finditer(markup):
            add(m.group(1) + "-filter")
        if "=>" in markup:
            add("lambda")
        if "${" in markup:
            add("template-string")
        if re.search(r"\{\{[^}]*\sif\s", markup):
            add("ternary")
        for op, name in ((" contains ", "contains"), (" in ", "in"), ("==", "eq"), ("!=", "ne"),
                         ("<>", "ne"), (" or ", "or"), (" and ", "and"), ("not ", "not"),
                         ("<", "lt"), (">", "gt"), ("..", "range")):
            if op in markup:
                if name == "in" and re.search(r"\{%[-~+]?\s*(for|tablerow)\b", markup) and not \
                        re.search(r"\{%[-~+]?\s*(if|unless|elsif)[^%]* in ", markup):
                    continue
                if name in ("lt", "gt") and "=>" in markup and markup.count(">") == 1 and name == "gt":
                    continue
                add(name)
        if re.search(r"\w\s*\[", markup):
            add("index")
        for prop in ("size", "first", "last"):
            if re.search(r"\.\s*" + prop + r"\b", markup):
                add("prop-" + prop)
        if "{{" in text and not any(f for f in feats):
            add("output")
    if not feats:
        feats = ["output"] if "{{" in source else ["text"]
    pri = [f for f in feats if f.endswith("-filter")] + \
          [f for f in feats if f.endswith("-tag")] + \
          [f for f in feats if not (f.endswith("-filter") or f.endswith("-tag"))]
    return "+".join(sorted(pri[:4]))


# ---------------------------------------------------------------------------
# deletions
# ---------------------------------------------------------------------------


def positions(data: Any, depth: int = 3, prefix: tuple = ()) -> list[tuple]:
    """Every deletable position (dict key / list index) down to *depth*."""
    out: list[tuple] = []
    if depth <= 0:
        return out
    if isinstance(data, dict):
        for k, v in data.items():
            if isinstance(k, (str, int)):
                out.append(prefix + (k,))
                out.extend(positions(v, depth - 1, prefix + (k,)))
    elif isinstance(data, list):
        for i, v in enumerate(data[:4]):
            out.append(prefix + (i,))
            out.extend(positions(v, depth - 1, prefix + (i,)))
    return out


def delete(data: dict[str, Any], dels: list[tuple]) -> dict[str, Any]:
    d = copy.deepcopy(data)

    def order(p: tuple):  # deeper first; larger list index first
        return (-len(p), tuple(-s if isinstance(s, int) and not isinstance(s, bool) else 0
                               for s in p))

    for p in sorted(dels, key=order):
        obj: Any = d
        ok = True
        for s in p[:-1]:
            try:
                obj = obj[s]
            except (KeyError, IndexError, TypeError):
                ok = False
                break
        if not ok:
            continue
        try:
            if isinstance(obj, (dict, list)):
                del obj[p[-1]]
        except (KeyError, IndexError, TypeError):
            pass
    return d


def candidates(data: dict[str, Any], looked_up: set[tuple], analysed: list[list[Any]],
               cap: int) -> list[tuple]:
    """Deletion candidates: referenced paths and their prefixes first, then other nested
    positions under the referenced roots, then the remaining roots."""
    out: list[tuple] = []

    def add(p: tuple) -> None:
        if p and p not in out and _exists(data, p):
            out.append(p)

    refs: list[tuple] = []
    for segs in analysed:
        p = []
        for s in segs:
            if isinstance(s, (str, int)) and not isinstance(s, bool):
                p.append(s)
            else:
                break
        if p:
            refs.append(tuple(p))
    refs.extend(sorted(looked_up, key=repr))
    roots = []
    for p in refs:
        if p[0] in data and p[0] not in roots:
            roots.append(p[0])
    # full paths first (deepest property), then prefixes
    for p in refs:
        q = _normalise(data, p)
        if q:
            add(q)
    for p in refs:
        q = _normalise(data, p)
        for i in range(1, len(q)):
            add(q[:i])
    for r in roots:
        for p in positions({r: data[r]}, depth=4):
            add(p)
    for r in data:
        add((r,))
    return out[:cap]


def _exists(data: Any, p: tuple) -> bool:
    obj = data
    for s in p:
        try:
            if isinstance(obj, dict):
                obj = obj[s]
            elif isinstance(obj, list) and isinstance(s, int):
                obj = obj[s]
            else:
                return False
        except (KeyError, IndexError, TypeError):
            return False
    return True


def _normalise(data: Any, p: tuple) -> tuple:
    """Longest prefix of p that is a deletable position; first/last become indexes."""
    obj = data
    out: list[Any] = []
    for s in p:
        if isinstance(obj, dict) and s in obj:
            out.append(s)
            obj = obj[s]
        elif isinstance(obj, list) and obj:
            if s == "first":
                s = 0
            elif s == "last":
                s = len(obj) - 1
            if isinstance(s, int) and not isinstance(s, bool) and -len(obj) <= s < len(obj):
                s = s % len(obj)
                out.append(s)
                obj = obj[s]
            else:
                break
        else:
            break
    return tuple(out)


def subsets(cands: list[tuple], rng: random.Random, exhaustive_upto: int, nsample: int
            ) -> tuple[list[list[tuple]], bool]:
    """Non-empty subsets of cands: all when len <= exhaustive_upto, sampled beyond."""
    k = len(cands)
    if k == 0:
        return [], True
    if k <= exhaustive_upto:
        out = []
        for r in range(1, k + 1):
            out.extend(list(c) for c in itertools.combinations(cands, r))
        return out, True
    out = [[c] for c in cands]
    seen = {tuple(x) for x in out}
    tries = 0
    while len(out) < nsample and tries < nsample * 4:
        tries += 1
        r = rng.choice((2, 2, 3, 3, 4, k // 2 or 1, k))
        s = tuple(sorted(rng.sample(cands, min(r, k)), key=repr))
        if s not in seen:
            seen.add(s)
            out.append(list(s))
    return out[:max(nsample, k)], False


# ---------------------------------------------------------------------------
# shards
# ---------------------------------------------------------------------------


def shards(tier: str, seed: int) -> list[dict[str, Any]]:
    nc = 8 if tier == "quick" else 16
    ng = 8 if tier == "quick" else 32
    specs: list[dict[str, Any]] = [{"kind": "corpus", "i": i, "n": nc} for i in range(nc)]
    specs += [{"kind": "gen", "i": i, "n": ng} for i in range(ng)]
    ns = 4 if tier == "quick" else 8
    specs += [{"kind": "sweep", "i": i, "n": ns} for i in range(ns)]
    nl = 4 if tier == "quick" else 8
    specs += [{"kind": "layers", "i": i, "n": nl} for i in range(nl)]
    return specs


def floors(tier: str) -> dict[str, int]:
    k = 1 if tier == "quick" else 20
    return {
        "policy_triples": 3000 * k,
        "strict_raised": 300 * k,
        "strict_success_after_touch": 10 * k,
        "strict_success_after_touch_StrictUndefined": 5 * k,
        "default_untouched_triples": 300 * k,
        "complete_by_construction": 100 * k,
        "lookups_decided_missing": 1000 * k,
        "lookups_decided_exists": 3000 * k,
        "async_triples": 300 * k,
        "set:touch_kinds": 8,
        "set:nouse_kinds": 50,
        "set:statement_kinds": 150,
        "sweep_programs": 12000,
        "local_binding_triples": 3500,
        "reshaped_data_triples": 2500,
        "set:data_shapes": 15,
        "inner_variable_deletion_triples": 150,
        "empty_data_complete_triples": 60,
        "lambda_scope_triples": 300,
        "all_data_deleted_variants": 300,
        "cfg_layers": 2000,
        "cfg_json_hook": 30,
        "cfg_translations": 60,
        "cfg_babel_args": 120,
        "set:layer_setups": 40,
        "nil_substitution_checks": 500,
        "set:local_binder_x_use": 600,
        "short_circuit_async": 1000,
        "short_circuit_sync": 1000,
        "optional_context_name_triples": 600,
        "nouse_programs": 800 if tier == "quick" else 8000,
        "nouse_falsy_ok_after_touch": 400 if tier == "quick" else 3000,
        "nouse_strict_ok_with_undefined_created": 300 if tier == "quick" else 2500,
        "distinct_nontrivial": 2000 * k,
    }


def run_shard(spec: dict[str, Any], ctx: Ctx) -> None:
    r = Runner(ctx)
    if spec["kind"] == "corpus":
        _corpus(r, spec, ctx)
    elif spec["kind"] == "gen":
        _gen(r, spec, ctx)
    elif spec["kind"] == "sweep":
        _sweep(r, spec, ctx)
    elif spec["kind"] == "layers":
        _layers(r, spec, ctx)


def _analysed(tpl: Any) -> list[list[Any]]:
    try:
        a = tpl.analyze()
        out = []
        for vs in a.globals.values():
            for v in vs:
                out.append(list(v.segments))
        return out
    except Exception:  # noqa: BLE001
        return []


def _corpus(r: Runner, spec: dict[str, Any], ctx: Ctx) -> None:
    tier = spec["tier"]
    rng = random.Random(f"{spec['seed']}:corpus:{spec['i']}")
    upto, nsample = (4, 14) if tier == "quick" else (6, 64)
    cases = corpus.valid_cases()
    last = None
    for ci, c in enumerate(cases):
        if ci % spec["n"] != spec["i"]:
            continue
        ctx.check_deadline()
        src, tpls, data = c["template"], c["templates"], c["data"]
        mode = "async" if (ci // spec["n"]) % 4 == 3 else "sync"
        t = r.parse(src, tpls, "default")
        if t is None:
            ctx.count("corpus_unparsable")
            continue
        first = r.render(t["default"], copy.deepcopy(data), mode)
        r.case(src, tpls, data, mode, "default", False, 0)
        ctx.count("corpus_cases")
        if not data:
            continue
        cands = candidates(data, first.log.lookups, _analysed(t["default"]), 10)
        subs, exh = subsets(cands, rng, upto, nsample)
        if exh and subs:
            ctx.count("cases_with_exhaustive_deletion_subsets")
        # the bottom of the lattice: no data at all
        everything = [(k,) for k in data]
        if sorted(everything) not in [sorted(x) for x in subs]:
            subs.append(everything)
        ctx.count("all_data_deleted_variants")
        for sub in subs:
            d2 = delete(data, sub)
            r.case(src, tpls, d2, mode, "default", False, len(sub),
                   nil=tuple(p[0] for p in sub if len(p) == 1))
            ctx.count("deletion_variants")
            last = {"kind": "corpus", "of": c["name"], "source": src, "deleted": [list(p) for p in sub],
                    "data": d2}
    if last:
        ctx.sample(last)


def _gen(r: Runner, spec: dict[str, Any], ctx: Ctx) -> None:
    tier = spec["tier"]
    rng = random.Random(f"{spec['seed']}:gen:{spec['i']}")
    nprog = 330 if tier == "quick" else 1500
    upto, nsample = (3, 9) if tier == "quick" else (6, 32)
    tpls = G.PARTIALS
    last = None
    for pi in range(nprog):
        ctx.check_deadline()
        nouse: tuple[str, ...] = ()
        dels: list[tuple] = []
        if rng.random() < 0.25:
            stmts, pol, dels = G.nouse_program(rng)
            nouse, complete = tuple(pol), False
        else:
            total = rng.random() < 0.45
            stmts, complete = G.program(rng, total)
        sep = rng.choice(G.SEPS)
        parts = []
        for j, (_, text) in enumerate(stmts):
            parts.append(text + (sep if j < len(stmts) - 1 else ""))
        src = "".join(parts)
        for kind, _ in stmts:
            ctx.seen("nouse_kinds" if "nouse" in kind else "statement_kinds", kind)
        data = G.base_data()
        # names some filters look up themselves: present or not, the program references
        # the same variables (completeness is unaffected)
        if rng.random() < 0.4:
            for name in rng.sample(sorted(G.OPTIONAL), rng.randint(1, len(G.OPTIONAL))):
                data[name] = G.OPTIONAL[name]
            ctx.count("programs_with_optional_context_names")
        if dels:
            data = delete(data, dels)
        mode = "async" if pi % 3 == 2 else "sync"
        t = r.parse(src, tpls, "shopify")
        if t is None:
            ctx.count("gen_unparsable")
            ctx.note(f"generator produced unparsable source: {src!r}")
            continue
        first = r.render(t["default"], copy.deepcopy(data), mode)
        if nouse:
            # the premise "only the unused paths are missing" does not survive further
            # deletions; both modes instead
            for m in ("sync", "async"):
                r.case(src, tpls, data, m, "shopify", complete, len(dels), parts, nouse=nouse)
            ctx.count("gen_programs")
            continue
        r.case(src, tpls, data, mode, "shopify", complete, 0, parts, nouse=nouse)
        ctx.count("gen_programs")
        if complete:
            shape = rng.choice(G.SHAPES)
            r.case(src, tpls, G.reshape(data, *shape), mode, "shopify", True, 0, parts)
            ctx.count("reshaped_data_triples")
            ctx.seen("data_shapes", "+".join(shape))
        cands = candidates(data, first.log.lookups, _analysed(t["default"]), 9)
        # only positions under roots the program mentions
        mentioned = {p[0] for p in first.log.lookups} | {s[0] for s in _analysed(t["default"]) if s}
        cands = [c for c in cands if c[0] in mentioned]
        subs, exh = subsets(cands, rng, upto, nsample)
        if exh and subs:
            ctx.count("cases_with_exhaustive_deletion_subsets")
        subs.append([(k,) for k in data])  # the bottom of the lattice: no data at all
        ctx.count("all_data_deleted_variants")
        for sub in subs:
            d2 = delete(data, sub)
            r.case(src, tpls, d2, mode, "shopify", False, len(sub), parts,
                   nil=tuple(p[0] for p in sub if len(p) == 1))
            ctx.count("deletion_variants")
            last = {"kind": "gen", "source": src, "deleted": [list(p) for p in sub]}
    if last:
        ctx.sample(last)


def _sweep(r: Runner, spec: dict[str, Any], ctx: Ctx) -> None:
    """Seed-independent: every statement form x every missing expression."""
    tier = spec["tier"]
    tpls = G.PARTIALS
    last = None
    for pi, e in enumerate(G.sweep()):
        if pi % spec["n"] != spec["i"]:
            continue
        ctx.check_deadline()
        kind, src, nouse = e["kind"], e["src"], tuple(e["nouse"])
        both = e["both"] or (e["mode"] is None and
                             (tier != "quick" or (pi // spec["n"]) % 4 == 3))
        data = {} if e["empty"] else G.base_data()
        data.update(copy.deepcopy(e["extra"]))
        if e["delete"]:
            data = delete(data, e["delete"])
        if e["shape"]:
            data = G.reshape(data, *e["shape"])
        nil = tuple(d[0] for d in e["delete"] if len(d) == 1)
        if not nil and re.search(r"(?<![\w.])nosuch(?![\w])", src):
            nil = ("nosuch",)
        if r.parse(src, tpls, "shopify") is None:
            ctx.count("gen_unparsable")
            ctx.note(f"sweep produced unparsable source: {src!r}")
            continue
        for mode in (("sync", "async") if both else (e["mode"] or "sync",)):
            r.case(src, tpls, data, mode, "shopify", e["complete"], len(e["delete"]), [src],
                   nouse=nouse, nil=() if nouse else nil)
            ctx.count("sweep_programs")
            if e["shape"]:
                ctx.count("reshaped_data_triples")
                ctx.seen("data_shapes", "+".join(e["shape"]))
            if kind.startswith("inner:"):
                ctx.count("inner_variable_deletion_triples")
            if e["empty"]:
                ctx.count("empty_data_complete_triples")
            if kind.startswith("lambda-scope:"):
                ctx.count("lambda_scope_triples")
            if kind.startswith("nouse:sc-"):
                ctx.count("short_circuit_" + mode)
            if kind.startswith("local:"):
                ctx.count("local_binding_triples")
                ctx.seen("local_binder_x_use", "/".join(kind.split("/")[:2]))
            elif e["complete"]:
                ctx.count("optional_context_name_triples")
        ctx.seen("nouse_kinds" if "nouse" in kind else "statement_kinds", kind)
        last = {"kind": "sweep", "form": kind, "source": src}
    if last:
        ctx.sample(last)


LAYER_PATTERNS = [
    ("env",), ("tpl",), ("matter",), ("hook",), ("env", "tpl"), ("env", "args"),
    ("tpl", "matter", "args"), ("env", "tpl", "matter", "hook", "args"), ("hook", "env"),
    ("matter", "env"),
]


def _mentioned(src: str, tpls: dict[str, str], data: dict[str, Any]) -> list[str]:
    texts = src + "\x00" + "\x00".join(_referenced(src, tpls).values())
    return [k for k in data
            if re.search(r"(?<![\w'\"-])" + re.escape(str(k)) + r"(?![\w'\"-])", texts)]


def _layer_cfg(i: int, roots: list[str]) -> dict[str, Any]:
    pat = LAYER_PATTERNS[i % len(LAYER_PATTERNS)]
    cfg: dict[str, Any] = {"kind": "layers", "loader": ("dict", "caching")[(i // 2) % 2 if i % 5 else 1],
                           "loads": (1, 2, 3, 2, 3)[i % 5]}
    for j, name in enumerate(roots):
        where = pat[(i + j) % len(pat)]
        if where != "args":
            cfg.setdefault(where, []).append(name)
    return cfg


def _layers(r: Runner, spec: dict[str, Any], ctx: Ctx) -> None:
    """WHERE the data comes from, and configured filters: the same triples with the data
    in environment globals / template globals / loader matter / a make_globals()
    override, the root template loaded by name (DictLoader, CachingDictLoader) once,
    twice, three times, sync and async; filters constructed with documented arguments."""
    tpls = G.PARTIALS
    sweep = G.sweep()
    jobs: list[tuple[str, str, dict[str, str], dict[str, Any], bool, tuple, tuple, str, str]] = []
    for e in sweep:
        if e["shape"] or e["empty"] or e["extra"] or e["delete"]:
            continue
        kind, src = e["kind"], e["src"]
        nil = ("nosuch",) if re.search(r"(?<![\w.])nosuch(?![\w])", src) and not e["nouse"] else ()
        if "json" in src:
            jobs.append((kind, src, tpls, G.base_data(), e["complete"], tuple(e["nouse"]), nil,
                         "shopify", "json-hook"))
        if re.search(r"\|\s*(t|gettext|ngettext|pgettext|npgettext)\b", src):
            jobs.append((kind, src, tpls, G.base_data(), e["complete"], tuple(e["nouse"]), nil,
                         "shopify", "translations"))
        if re.search(r"\|\s*(currency|money\w*|decimal|datetime|unit)\b", src) and \
                "with_currency" not in src and "without" not in src:
            jobs.append((kind, src, tpls, G.base_data(), e["complete"], tuple(e["nouse"]), nil,
                         "shopify", "babel-args"))
        if e["complete"] or e["nouse"] or kind.startswith(("inner:", "output", "filter", "if-",
                                                           "for", "render", "include", "assign")):
            jobs.append((kind, src, tpls, G.base_data(), e["complete"], tuple(e["nouse"]), nil,
                         "shopify", "layers"))
    for c in corpus.valid_cases():
        if c["data"]:
            jobs.append(("corpus", c["template"], c["templates"], c["data"], False, (), (),
                         "default", "layers"))
    # thin the big families deterministically
    keep = 3 if spec["tier"] == "quick" else 1
    n_layers = 0
    last = None
    for ji, (kind, src, tp, data, complete, nouse, nil, flavour, what) in enumerate(jobs):
        if ji % spec["n"] != spec["i"]:
            continue
        ctx.check_deadline()
        if what == "layers":
            n_layers += 1
            if kind != "corpus" and not kind.startswith(("babel:", "lambda-scope:", "shape:")) \
                    and n_layers % keep:
                continue
            cfg = _layer_cfg(ji, _mentioned(src, tp, data))
        else:
            cfg = {"kind": what}
        mode = "async" if (ji // spec["n"]) % 2 else "sync"
        if r.parse(src, tp, flavour) is None:
            continue
        r.case(src, tp, data, mode, flavour, complete, 0, [src], nouse=nouse, nil=nil, cfg=cfg)
        ctx.count("configured_triples")
        ctx.count("cfg_" + what.replace("-", "_"))
        if what == "layers":
            ctx.seen("layer_setups", f"{'+'.join(k for k in ('env', 'tpl', 'matter', 'hook') if cfg.get(k))}"
                                     f"/{cfg['loader']}/load{cfg['loads']}/{mode}")
        last = {"kind": "layers", "form": kind, "source": src, "cfg": cfg}
    if last:
        ctx.sample(last)


def replay(wit: dict[str, Any], ctx: Ctx) -> None:
    r = Runner(ctx)
    src = wit["source"]
    tpls = wit.get("templates") or {}
    data = G.untag(wit.get("data") or {})
    mode = wit.get("mode", "sync")
    flavour = wit.get("env", "default")
    complete = bool(wit.get("complete"))
    nouse = tuple(wit.get("nouse") or ())
    r.nilroots = tuple(wit.get("nil") or ())
    Runner._nil_for_witness = r.nilroots
    r.cfg = wit.get("cfg") or None
    Runner._cfg_for_witness = r.cfg
    if r.cfg:
        print(f"  delivery/configuration: {_cfg_label(r.cfg)}")
    rs = r.triple(src, tpls, data, mode, flavour, detail=True)
    print(f"replay C16: source={src!r} mode={mode} env={flavour} complete={complete}")
    print(f"  data={json.dumps(data, default=str)[:600]}")
    if tpls:
        print(f"  templates={json.dumps(tpls)[:600]}")
    if rs is None:
        print("  does not parse")
        return
    for p in POLICIES:
        print(f"  [{p}] " + json.dumps(rs[p].view(), default=str))
    for clause, what in r.judge(rs, complete, nouse):
        key = f"{clause}:{r.mechanism(clause, src, tpls, data, mode, flavour)}"
        print(f"  VIOLATED {key}: {what}")
        ctx.violation(key, what, Runner.witness(src, tpls, data, mode, flavour, complete,
                                                clause, None, nouse))
