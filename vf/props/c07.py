"""C07 — render/macro scopes are isolated and block scopes do not leak.

Runtime monitoring of the real engine with six oracles (DESIGN.md section 4, C07):

O1  non-interference caller -> partial: two callers that differ only in the values of
    their locals (and a bare caller with no locals at all) must produce the same text
    inside the sentinel-delimited region of `render` / `call`.
O2  non-interference partial -> caller: the caller's output outside that region equals
    the output of the same caller with the tag removed.
O3  `include` is refused (DisabledTagError) on every path that went through `render`
    or a macro body.
O4  block binders: a probe printed right before a binder construct and the same probe
    printed right after it give the same text (same render, so no reference needed).
O5  frame condition at hooks (vf/c07_monitor.py): scope chain by identity, loop stack,
    context.template and disabled_tags are restored after every node, every
    `extend`/`loop` block and after `render_with_context` on a harness-owned context,
    on normal and exceptional exit (faults injected at every k-th data access,
    context-depth limit hit at every nesting level, erroring leaves).
O6  `render ... for`: the text for an item does not depend on the items rendered before
    it (two orders of the same items, forloop fields masked).
"""

from __future__ import annotations

import gc
import random
import re
from typing import Any
from typing import Callable

from ..c07_monitor import BadValue
from ..c07_monitor import FaultPlan
from ..c07_monitor import FrameMonitor
from ..c07_monitor import revive
from ..c07_monitor import wrap_data
from ..core import Ctx
from ..instr.sched import drive
from ..minimize import ddmin

ID = "C07"
LEVEL = "exploration"
RULE = (
    "pairs = (caller, partial-or-macro body) generated over the shared name pool "
    "{a,b,c,x,i,item}: the caller has a prefix of assign/capture/increment/decrement/cycle/"
    "offset-continue loops/macro definitions, optional wrappers (for, with, capture, include "
    "with arguments, tablerow, enclosing macro) around a sentinel-delimited render / render "
    "with / render for / call tag whose arguments are literals or dedicated globals, and a "
    "suffix printing every pool name, counters, cycle state, continue-loops and macros; the "
    "body assigns/captures/counts/cycles/loops/binds the same names.  Each pair is rendered "
    "as variant 1, variant 2 (only local values differ), bare (no locals) and without the "
    "tag, sync or async.  distinct = hash of all sources + data + mode; non-trivial = the "
    "body reads or writes at least one pool name the caller also binds.  Further workloads: "
    "enumerated include-refusal paths (O3), generated binder nests with before/after probes "
    "(O4), the same nests with erroring leaves / depth-limit nesting / fault-injecting data "
    "and programs of the shared generator under the frame-condition hooks (O5), "
    "render-for bodies in two item orders (O6)."
)
ASSUMPTIONS = [
    "CPython reference counting: an abandoned generator is closed as soon as its last "
    "reference dies; frame checks made while an exception is propagating see the "
    "generators its traceback keeps alive (that is the state any handler would see)",
    "ARGS of render/call and macro defaults are literals or globals outside the name pool, "
    "so the region is a function of (body, globals, arguments) only",
    "break/continue at the top level of a partial or macro body are not generated (control "
    "flow, not scope; see the final report)",
    "output sentinels (« » ‹ › ⟦ ⟧) never occur in data or literals",
    "O3 under replaced tags: `include` means the tag the AUTHOR wrote as `{% include %}`, whatever Tag / "
    "Node class (or `tag` attribute used for loaders) the application registered under that name; it must be "
    "refused inside render / call, also when render itself was replaced by a subclass or registered under an "
    "alias. An ALIAS of include (`env.tags['partial'] = IncludeTag(env)`) written as `{% partial %}` is not "
    "judged (the engine refuses by written name; outcome recorded as a diagnostic note). A third-party "
    "isolated-scope tag that renders its block in RenderContext.copy(token, namespace={}) IS judged: an include "
    "in its block, inside a rendered partial or macro body, must be refused",
    "faults are injected only at the data boundary: the k-th __getitem__ of a dict/list in the "
    "render data, and data values whose __str__/__eq__ raise (consumer side of lambda filters)",
]

POOL = ["a", "b", "c", "x", "i", "item"]
RL, RR = "«", "»"  # O1/O2 region
PL, PR = "‹", "›"  # O4 probes
ML, MR = "⟦", "⟧"  # O6 masked forloop fields

GLOBALS: dict[str, Any] = {
    "g1": "G1",
    "g2": 42,
    "garr": [
        {"x": 1, "k": "p", "tags": ["t"]},
        {"x": 2, "k": "q", "tags": ["u"]},
        {"x": 3, "k": "r", "tags": ["t"]},
    ],
    "gmap": {"x": "gx", "k": "gk"},
    "gs": ["u", "v", "w"],
    "gmsg": "D %(a)s|%(x)s|%(item)s|%(locale)s|%(count)s",  # a message taken from data
}
GVALS = ["g1", "g2", "gmap.x", "gmap.k", "garr[0].k", "gs.first", "gs[1]", "'lit'", "7", "true", "nil", "'z z'"]

# Names the engine reads by *name* through RenderContext.resolve() (i18n / l10n machinery)
# or serves from the builtin layer: the caller binds them like any pool name, the bodies read
# them through translate / t / gettext... message variables and the babel filters' settings.
SETTING_VALUES: dict[str, tuple[str, str]] = {
    "locale": ("'de'", "'fr'"),
    "input_locale": ("'de'", "'fr'"),
    "currency_code": ("'EUR'", "'JPY'"),
    "currency_format": ("'#,##0.00 ¤¤'", "'¤¤ #0.0'"),
    "timezone": ("'Europe/Berlin'", "'Asia/Tokyo'"),
    "input_timezone": ("'America/New_York'", "'Asia/Tokyo'"),
    "datetime_format": ("'short'", "'full'"),
    "decimal_quantization": ("true", "false"),
    "decimal_format": ("'#,##0.0000'", "'0.#'"),
    "unit_length": ("'short'", "'narrow'"),
    "unit_format": ("'#,##0.0'", "'0'"),
    "translations": ("'TR1'", "'TR2'"),
    "count": ("3", "5"),
    "now": ("'NOW1'", "'NOW2'"),
    "today": ("'TOD1'", "'TOD2'"),
}
SETTINGS = list(SETTING_VALUES)
MSG_NAMES = POOL + ["locale", "count", "translations"]

# Names of the rendered partial: with and without directories / extensions; several have a
# default alias (file name up to the first dot) that is itself a pool name, so every kind of
# caller binding collides with it.
PARTIAL_NAMES = ["p", "product", "snippets/product.liquid", "a.b/card.html", "item", "x.html", "cards/i.liquid",
                 "b", "partials/a.b.c"]
# Other names an engine might derive from the tag: macro name, block name, nested partial, ...
TAG_DERIVED = ["m", "row", "q", "template", "self", "partial", "include", "render"]

DUMP_NAMES = "[" + ";".join(f"{n}={{{{ {n} }}}}" for n in POOL) + "]"
DUMP = (
    "[" + ";".join(f"{n}={{{{ {n} }}}}" for n in POOL)
    + ";fl={{ forloop.index }}/{{ forloop.length }}/{{ forloop.parentloop.index }}"
    + ";tr={{ tablerowloop.index }};ar={{ args }};kw={{ kwargs }};bl={% if block %}1{% endif %}]"
)



# ======================================================================================
# witness minimisation over Liquid text (structure aware)
# ======================================================================================

_TOK = re.compile(r"\{%.*?%\}|\{\{.*?\}\}", re.S)
_BLOCKS = {"for": "endfor", "if": "endif", "unless": "endunless", "case": "endcase", "with": "endwith",
           "capture": "endcapture", "macro": "endmacro", "tablerow": "endtablerow",
           "translate": "endtranslate"}
_ENDS = set(_BLOCKS.values())


def _tokens(src: str) -> list[str]:
    out: list[str] = []
    pos = 0
    for m in _TOK.finditer(src):
        if m.start() > pos:
            out.append(src[pos:m.start()])
        out.append(m.group(0))
        pos = m.end()
    if pos < len(src):
        out.append(src[pos:])
    return out


def _tag_name(tok: str) -> str:
    if not tok.startswith("{%"):
        return ""
    m = re.match(r"\{%[-~+]?\s*(\w+)", tok)
    return m.group(1) if m else ""


def _pairs(toks: list[str]) -> list[tuple[int, int]]:
    stack: list[tuple[str, int]] = []
    pairs: list[tuple[int, int]] = []
    for i, t in enumerate(toks):
        n = _tag_name(t)
        if n in _BLOCKS:
            stack.append((n, i))
        elif n in _ENDS:
            while stack:
                name, k = stack.pop()
                if _BLOCKS[name] == n:
                    pairs.append((k, i))
                    break
    pairs.sort(key=lambda p: p[0] - p[1])  # largest block first
    return pairs


def shrink_liquid(src: str, test: Callable[[str], bool], budget: int = 160) -> str:
    """Delete whole blocks, unwrap blocks, delete single tokens while test(src) stays True."""
    calls = 0
    cur = src
    progress = True
    while progress and calls < budget:
        progress = False
        toks = _tokens(cur)
        for i, j in _pairs(toks):
            for cand in (toks[:i] + toks[j + 1:], toks[:i] + toks[i + 1:j] + toks[j + 1:]):
                calls += 1
                c = "".join(cand)
                if c != cur and test(c):
                    cur, progress = c, True
                    break
            if progress or calls >= budget:
                break
        if progress:
            continue
        i = 0
        while i < len(toks) and calls < budget:
            n = _tag_name(toks[i])
            if n in _BLOCKS or n in _ENDS or n in ("else", "elsif", "when", "plural"):
                i += 1
                continue
            cand = toks[:i] + toks[i + 1:]
            calls += 1
            c = "".join(cand)
            if test(c):
                toks, cur, progress = cand, c, True
            else:
                i += 1
    return cur


def shrink_case(source: str, partials: dict[str, str], test: Callable[[str, dict[str, str]], bool],
                budget: int = 220) -> tuple[str, dict[str, str]]:
    """Shrink the root, then every partial still referenced; drop unreferenced partials."""
    parts = dict(partials)
    try:
        if not test(source, parts):
            return source, partials
        source = shrink_liquid(source, lambda s: test(s, parts), budget)
        for name in sorted(parts):
            if len(parts[name]) > 12:
                def t2(s: str, name: str = name) -> bool:
                    p2 = dict(parts)
                    p2[name] = s
                    return test(source, p2)
                parts[name] = shrink_liquid(parts[name], t2, budget // 3)
        for name in sorted(parts):
            p2 = {k: v for k, v in parts.items() if k != name}
            if test(source, p2):
                parts = p2
    except Exception:  # noqa: BLE001
        return source, partials
    return source, parts


# ======================================================================================
# runtime
# ======================================================================================


class Res:
    __slots__ = ("ok", "out", "err", "liquid", "events", "accesses")

    def __init__(self) -> None:
        self.ok = False
        self.out = ""
        self.err = ""
        self.liquid = False
        self.events: list[tuple[str, str, str]] = []
        self.accesses = 0


class Rt:
    """Environment factory + monitored execution of one render."""

    def __init__(self, ctx: Ctx):
        from liquid2 import DictLoader
        from liquid2 import Environment
        from liquid2 import RenderContext
        from liquid2.exceptions import LiquidError
        from liquid2.shopify import Environment as ShopifyEnvironment

        self.ctx = ctx
        self.DictLoader = DictLoader
        self.envs = {"std": Environment, "shopify": ShopifyEnvironment}
        self.RenderContext = RenderContext
        self.LiquidError = LiquidError
        self.mon = FrameMonitor().install()
        self.reported: set[str] = set()
        self.key_counts: dict[str, int] = {}
        self.tag_classes: dict[str, Any] | None = None

    def close(self) -> None:
        self.mon.flush_counters(self.ctx)
        self.mon.uninstall()

    def env(self, kind: str, partials: dict[str, str], globals: dict[str, Any] | None = None) -> Any:  # noqa: A002
        if kind.startswith("cfg:"):
            if self.tag_classes is None:
                self.tag_classes = _tag_classes()
            return configure_tags(self.envs["std"](loader=self.DictLoader(partials)), kind[4:], self.tag_classes)
        if globals is None:
            return self.envs[kind](loader=self.DictLoader(partials))
        return self.envs[kind](loader=self.DictLoader(partials), globals=globals)

    def run(self, env: Any, source: str, data: dict[str, Any], mode: str = "sync",
            own: bool = False, plan: FaultPlan | None = None,
            tglobals: dict[str, Any] | None = None) -> Res:
        mon = self.mon
        res = Res()
        mon.begin()
        self.ctx.ev()
        try:
            t = env.from_string(source) if tglobals is None else env.from_string(source, globals=tglobals)
        except self.LiquidError as e:
            res.err = "parse:" + type(e).__name__
            res.liquid = True
            return res
        if plan is not None:
            data = wrap_data(data, plan)
        rc = None
        before = None
        try:
            if own:
                rc = self.RenderContext(t, global_data=t.make_globals(data))
                buf = t._get_buffer()
                before = mon.snapshot(rc)
                if mode == "async":
                    drive(t.render_with_context_async(rc, buf))
                else:
                    t.render_with_context(rc, buf)
                mon.check_top(rc, before, None)
                res.out = buf.getvalue()
            elif mode == "async":
                res.out = drive(t.render_async(**data))
            else:
                res.out = t.render(**data)
            res.ok = True
        except Exception as e:  # noqa: BLE001
            # checked while the exception (and whatever its traceback keeps alive) exists
            if rc is not None:
                mon.check_top(rc, before, e)
            res.err = type(e).__name__
            res.liquid = isinstance(e, self.LiquidError)
        if rc is not None and not res.ok:
            # ... and again after the exception was released (only categories not yet reported)
            n0, cats0 = len(mon.events), set(mon._cats)
            mon.compare(rc, before, "render_with_context(after-release)", None)
            if len(mon.events) > n0:
                # perhaps only uncollected garbage keeps a generator alive: collect, look again
                del mon.events[n0:]
                mon._cats = cats0
                gc.collect()
                mon.compare(rc, before, "render_with_context(after-release)", None)
        res.events = list(mon.events)
        if plan is not None:
            res.accesses = plan.n
        return res

    # ------------------------------------------------------------------ frame findings
    @staticmethod
    def trim_data(wit: dict[str, Any]) -> None:
        """Drop top-level data entries no template mentions (cosmetic; not with faults,
        where the access count must not move)."""
        if wit.get("fault"):
            return
        text = wit.get("source", "") + " ".join((wit.get("partials") or {}).values())
        wit["data"] = {k: v for k, v in (wit.get("data") or {}).items()
                       if re.search(r"(?<![\w-])" + re.escape(k) + r"(?![\w-])", text)}

    def frame_report(self, res: Res, wit: dict[str, Any],
                     shrink: Callable[[str], tuple[str, dict[str, str]]] | None = None) -> None:
        """Report the O5 events of one run (witness minimised on first sight of a key)."""
        for key, what, detail in res.events:
            w = dict(wit)
            w["oracle"] = "O5"
            w["key"] = key
            w["monitor"] = {"what": what, "detail": detail}
            if key not in self.reported and shrink is not None:
                self.reported.add(key)
                try:
                    small, parts = shrink(key)
                    if small != w["source"] or parts != w["partials"]:
                        w["minimised_from"] = {"source": w["source"], "partials": w["partials"]}
                        w["source"], w["partials"] = small, parts
                except Exception:  # noqa: BLE001
                    pass
            self.trim_data(w)
            self.ctx.violation(key, what + (f" — {detail}" if detail else ""), w)


def frame_case(rt: Rt, kind: str, source: str, partials: dict[str, str], data: dict[str, Any],
               mode: str, own: bool, fault: tuple[int, str] | None = None, env: Any = None) -> Res:
    """Run one render under the frame monitor and report any event."""
    env = env or rt.env(kind, partials)
    plan = FaultPlan(*fault) if fault else None
    res = rt.run(env, source, data, mode, own=own, plan=plan)
    if res.events:
        wit = {"source": source, "partials": partials, "data": data, "env": kind, "mode": mode,
               "own": own, "fault": list(fault) if fault else None}

        def shrink(key: str) -> tuple[str, dict[str, str]]:
            if fault is not None:
                return source, partials  # (the k-th access moves when the text changes)

            def still(s: str, p: dict[str, str]) -> bool:
                r2 = rt.run(rt.env(kind, p), s, data, mode, own=own)
                return any(k == key for k, _w, _d in r2.events)

            return shrink_case(source, partials, still)

        rt.frame_report(res, wit, shrink)
    return res


def fault_sweep(rt: Rt, kind: str, source: str, partials: dict[str, str], data: dict[str, Any],
                mode: str, cap: int, both: bool, env: Any = None, j: int = 0) -> int:
    """Fault-free run with counting data, then a fault at every k-th access (k <= cap)."""
    env = env or rt.env(kind, partials)
    probe = FaultPlan(0)
    r0 = rt.run(env, source, data, mode, own=True, plan=probe)
    if r0.events:
        rt.frame_report(r0, {"source": source, "partials": partials, "data": data, "env": kind,
                             "mode": mode, "own": True, "fault": [0, "custom"]})
    n = probe.n
    rt.ctx.mx("max:data_accesses_per_render", n)
    done = 0
    for k in range(1, min(n, cap) + 1):
        kinds = ("custom", "liquid") if both else (("custom", "liquid")[(k + j) % 2],)
        for fk in kinds:
            res = frame_case(rt, kind, source, partials, data, mode, True, (k, fk), env=env)
            done += 1
            rt.ctx.count("fault_injections")
            if not res.ok:
                rt.ctx.count("fault_injections_raised")
                rt.ctx.seen("fault_outcomes", res.err)
    return done


# ======================================================================================
# O1 / O2 : caller x partial pairs
# ======================================================================================


def regions(out: str) -> list[str]:
    return re.findall(RL + "(.*?)" + RR, out, flags=re.S)


def strip_regions(out: str) -> str:
    return re.sub(RL + ".*?" + RR, RL + RR, out, flags=re.S)


PREFIX_LEAK = {
    "assign": "caller-assign-visible", "liquid-assign": "caller-assign-visible",
    "capture": "caller-capture-visible", "incr": "caller-counter-visible",
    "decr": "caller-counter-visible", "cycle": "caller-cycle-state-visible",
    "cyclen": "caller-cycle-state-visible", "stopidx": "caller-loop-offset-visible",
    "macrodef": "caller-macro-visible",
    "wrap:for": "caller-for-scope-visible", "wrap:with": "caller-with-scope-visible",
    "wrap:include": "caller-include-args-visible", "wrap:tablerow": "caller-tablerow-scope-visible",
    "wrap:macro": "caller-macro-params-visible", "wrap:capture": "caller-capture-block-visible",
    "wrap:render": "caller-render-args-visible", "wrap:block": "caller-block-scope-visible",
}


class Pair:
    """One caller x body pair (all variants are emitted from this description)."""

    def __init__(self, rng: random.Random):
        r = self.r = rng
        self.env_kind = "std"
        self.data = dict(GLOBALS)
        for n in r.sample(POOL, r.choice([0, 0, 1, 2, 3])):
            self.data[n] = f"GLOBAL-{n}"
        self.construct = r.choice(["render", "render", "render-with", "render-for", "call", "call"])
        self.pname = r.choice(PARTIAL_NAMES)
        segs = [x for x in re.split(r"[/.]", self.pname) if re.fullmatch(r"[A-Za-z_]\w*", x)]
        # names a caller may bind that an engine could derive from the tag (and the body probes)
        self.derived = list(dict.fromkeys(segs + TAG_DERIVED))
        self.alias = self.pname.split("/")[-1].split(".")[0]
        self.dump = DUMP[:-1] + ";" + ";".join(f"{n}={{{{ {n} }}}}" for n in self.derived if n not in POOL) + "]"
        self.prefix = [self._prefix_stmt(k) for k in range(r.randint(1, 6))]
        self.wraps = self._wraps()
        self.body = [("dump", self.dump)] + [self._body_stmt(k) for k in range(r.randint(1, 6))] + [("dump", self.dump)]
        self._tag()
        self.suffix_in = "[s:" + ";".join(f"{{{{ {n} }}}}" for n in POOL) + "]" + "".join(
            f"{{% increment {n} %}}" for n in r.sample(POOL, 2))
        self.suffix_out = self._suffix_out()

    # ------------------------------------------------------------------ pieces
    def _val(self, tagk: str, v: int) -> str:
        return f"{tagk}{v}"

    def _name(self) -> str:
        """A name for a caller-side binding: the shared pool, or (30 %) a name the engine
        reads by name (settings of the l10n filters, `translations`, `count`, `now`, `today`)."""
        x = self.r.random()
        if x < 0.25:
            return self.r.choice(SETTINGS)
        if x < 0.45:  # the partial's default alias / path segments, macro, block, tag names
            return self.r.choice(self.derived)
        return self.r.choice(POOL)

    @staticmethod
    def _lit(n: str, tagk: str, v: int) -> str:
        """Literal bound to *n* in variant v (0/1): a valid, output-changing value for settings."""
        return SETTING_VALUES[n][v] if n in SETTING_VALUES else f"'{tagk}{v + 1}'"

    def _prefix_stmt(self, k: int) -> dict[str, Any]:
        r = self.r
        n = self._name()
        kind = r.choice(["assign", "assign", "assign", "liquid-assign", "capture", "capture", "incr", "decr",
                         "cycle", "cyclen", "stopidx", "macrodef"])
        if n in SETTING_VALUES and kind in ("assign", "liquid-assign", "capture"):
            l1, l2 = SETTING_VALUES[n]
            if kind == "assign":
                v = [f"{{% assign {n} = {l1} %}}", f"{{% assign {n} = {l2} %}}"]
            elif kind == "liquid-assign":
                v = [f"{{% liquid assign {n} = {l1} %}}", f"{{% liquid assign {n} = {l2} %}}"]
            else:
                v = [f"{{% capture {n} %}}{l1.strip(chr(39))}{{% endcapture %}}",
                     f"{{% capture {n} %}}{l2.strip(chr(39))}{{% endcapture %}}"]
        elif kind == "assign":
            if r.random() < 0.3:
                v = [f"{{% assign {n} = {11 + k} %}}", f"{{% assign {n} = {22 + k} %}}"]
            elif r.random() < 0.2:
                v = [f"{{% assign {n} = 'A1{k}', 'B1{k}' %}}", f"{{% assign {n} = 'A2{k}', 'B2{k}', 'C2{k}' %}}"]
            else:
                v = [f"{{% assign {n} = 'A1{k}' %}}", f"{{% assign {n} = 'A2{k}' %}}"]
        elif kind == "liquid-assign":
            v = [f"{{% liquid assign {n} = 'L1{k}' %}}", f"{{% liquid assign {n} = 'L2{k}' %}}"]
        elif kind == "capture":
            v = [f"{{% capture {n} %}}C1{k}{{% endcapture %}}", f"{{% capture {n} %}}C2{k} {{{{ g1 }}}}{{% endcapture %}}"]
        elif kind in ("incr", "decr"):
            t = "increment" if kind == "incr" else "decrement"
            n1 = r.randint(1, 2)
            v = [f"{{% {t} {n} %}}" * n1, f"{{% {t} {n} %}}" * (n1 + r.randint(1, 2))]
        elif kind == "cycle":
            n1 = r.randint(0, 2)
            v = ["{% cycle 'p', 'q', 'r' %}" * n1, "{% cycle 'p', 'q', 'r' %}" * (n1 + r.randint(1, 2))]
        elif kind == "cyclen":
            n1 = r.randint(0, 2)
            c = f"{{% cycle {n}: 'p', 'q', 'r' %}}"
            v = [c * n1, c * (n1 + r.randint(1, 2))]
        elif kind == "stopidx":
            l1 = r.randint(1, 2)
            v = [f"{{% for {n} in (1..6) limit: {l1} %}}{{% endfor %}}",
                 f"{{% for {n} in (1..6) limit: {l1 + r.randint(1, 2)} %}}{{% endfor %}}"]
        else:  # macrodef (a macro the body tries to call)
            v = ["{% macro pm %}PM1{% endmacro %}", "{% macro pm %}PM2{% endmacro %}"]
        return {"kind": kind, "name": n, "v": v}

    def _wraps(self) -> list[dict[str, Any]]:
        r = self.r
        out: list[dict[str, Any]] = []
        for _ in range(r.choice([0, 1, 1, 2, 2, 3])):
            kind = r.choice(["for", "for", "with", "capture", "include", "tablerow", "macro", "macro", "render",
                             "render"])
            n = self._name()
            if kind == "capture":
                # the captured text is printed through the name: it must not be shadowed by an
                # enclosing wrapper's block-scoped name
                free = [x for x in POOL if x not in {w["name"] for w in out}]
                n = r.choice(free) if free else n
            if kind == "tablerow" and any(w["kind"] == "tablerow" for w in out):
                kind = "for"  # (liquid2 does not parse a tablerow nested in a tablerow)
            if kind == "tablerow":
                self.env_kind = "shopify"
            if kind == "for":
                w = {"open": [f"{{% for {n} in (1..2) %}}", f"{{% for {n} in (5..7) limit: 2 %}}"], "close": "{% endfor %}"}
            elif kind == "with":
                w = {"open": [f"{{% with {n}: {self._lit(n, 'W', 0)} %}}", f"{{% with {n}: {self._lit(n, 'W', 1)} %}}"],
                     "close": "{% endwith %}"}
            elif kind == "capture":
                w = {"open": [f"{{% capture {n} %}}"] * 2, "close": f"{{% endcapture %}}{{{{ {n} }}}}"}
            elif kind == "tablerow":
                w = {"open": [f"{{% tablerow {n} in (1..2) cols: 2 %}}", f"{{% tablerow {n} in (8..9) cols: 2 %}}"],
                     "close": "{% endtablerow %}"}
            elif kind in ("include", "render"):
                form = r.choice(["kw", "with", "for"])
                if form == "kw":
                    args = [f", {n}: {self._lit(n, 'I', 0)}", f", {n}: {self._lit(n, 'I', 1)}"]
                elif form == "with":
                    args = [f" with {self._lit(n, 'I', 0)} as {n}", f" with {self._lit(n, 'I', 1)} as {n}"]
                else:
                    args = [f" for gs as {n}"] * 2
                w = {"inc_args": args, "form": form}
            else:  # enclosing macro whose parameter must not reach the partial
                mname = f"outer{len(out)}"
                form = r.choice(["pos", "kw", "default", "excess"])
                m1, m2 = self._lit(n, "M", 0), self._lit(n, "M", 1)
                if form == "pos":
                    opn, calls = f"{{% macro {mname} {n} %}}", [f"{{% call {mname} {m1} %}}", f"{{% call {mname} {m2} %}}"]
                elif form == "kw":
                    opn, calls = f"{{% macro {mname} {n} %}}", [f"{{% call {mname} {n}: {m1} %}}", f"{{% call {mname} {n}: {m2} %}}"]
                elif form == "default":  # (defaults are evaluated in the caller: literals only)
                    opn, calls = f"{{% macro {mname} zq, {n}: 'M0' %}}", [f"{{% call {mname} 1, {m1} %}}", f"{{% call {mname} 1, {m2} %}}"]
                else:  # surplus arguments land in args / kwargs of the enclosing macro
                    opn, calls = f"{{% macro {mname} {n} %}}", [f"{{% call {mname} {m1}, 'X1', zk: 'K1' %}}",
                                                              f"{{% call {mname} {m2}, 'X2', zk: 'K2' %}}"]
                w = {"open": [opn] * 2, "close_v": ["{% endmacro %}" + c for c in calls], "form": form}
            w["kind"] = kind
            w["name"] = n
            out.append(w)
        if r.random() < 0.3:
            out.insert(0, self._block_wrap())
        for wi, w in enumerate(out):
            # include is (rightly) refused inside a macro body or a rendered partial: no include
            # wrapper below a macro / render wrapper (or below an inheritance chain entered by render)
            if w["kind"] in ("macro", "render") or (w["kind"] == "block" and w["entry"] == "render"):
                out = out[: wi + 1] + [x for x in out[wi + 1:] if x["kind"] != "include"]
                break
        return out

    def _block_wrap(self) -> dict[str, Any]:
        """The construct sits inside an overriding {% block %} of an extends chain.  Always the
        outermost wrapper: the chain is the root template (direct) or entered by include / render;
        the prefix statements are distributed over root, child (before `extends`) and base."""
        r = self.r
        n = self._name()
        m = self._name()
        entry = r.choice(["direct", "direct", "include", "include", "render"])
        form = r.choice(["plain", "kw", "with"])
        if entry == "direct" or form == "plain":
            args = ["", ""]
        elif form == "kw":
            args = [f", {n}: {self._lit(n, 'E', 0)}", f", {n}: {self._lit(n, 'E', 1)}"]
        else:
            args = [f" with {self._lit(n, 'E', 0)} as {n}", f" with {self._lit(n, 'E', 1)} as {n}"]
        bw = r.choice(["none", "for", "for", "with", "for+with"])
        bopen = ["", ""]
        bclose = ""
        if "for" in bw:
            bopen = [f"{{% for {m} in (1..2) %}}", f"{{% for {m} in (5..7) limit: 2 %}}"]
            bclose = "{% endfor %}"
        if "with" in bw:
            k = self._name()
            bopen = [bopen[0] + f"{{% with {k}: {self._lit(k, 'BW', 0)} %}}",
                     bopen[1] + f"{{% with {k}: {self._lit(k, 'BW', 1)} %}}"]
            bclose = "{% endwith %}" + bclose
        for st in self.prefix:
            st["role"] = r.choice(["root", "child", "base"])
        return {
            "kind": "block", "name": n, "entry": entry, "bw": bw, "args": args, "depth": r.choice([2, 2, 3]),
            "tag_level": r.choice([0, 0, 0, 1]), "super": r.random() < 0.5,
            "bopen": bopen, "bclose": bclose,
            "base_suffix": "[B:" + ";".join(f"{{{{ {x} }}}}" for x in POOL) + "]" + f"{{% increment {m} %}}",
        }

    def _emit_block(self, w: dict[str, Any], variant: int, with_tag: bool, text: str,
                    prefix: list[dict[str, Any]], partials: dict[str, str], suffix: bool) -> str:
        v = variant - 1
        sfx = f"v{variant}{'t' if with_tag else 'n'}"
        base, mid, leaf = f"blbase{sfx}", f"blmid{sfx}", f"blleaf{sfx}"
        direct = w["entry"] == "direct"
        pre = {"root": "", "child": "", "base": ""}
        for st in prefix:
            role = st.get("role", "root")
            pre["child" if direct and role == "root" else role] += st["v"][v]
        sup = "{{ block.super }}" if w["super"] else ""
        at_leaf = w["tag_level"] == 0
        # base: its own locals, optional for/with around the block, text after the block
        base_block = "D" if (at_leaf or w["depth"] == 3) else sup + text
        partials[base] = (pre["base"] + "B<" + w["bopen"][v] + "{% block row %}" + base_block + "{% endblock %}"
                          + w["bclose"] + ">" + (w["base_suffix"] if suffix else "")
                          + (self.suffix_out if suffix and direct else ""))
        parent = base
        if w["depth"] == 3:
            mid_block = "M({{ block.super }})" if at_leaf else "M(" + sup + text + ")"
            partials[mid] = f"{{% extends '{base}' %}}{{% block row %}}{mid_block}{{% endblock %}}"
            parent = mid
        leaf_block = (sup + text) if at_leaf else "L[{{ block.super }}]"
        leaf_src = pre["child"] + f"{{% extends '{parent}' %}}{{% block row %}}{leaf_block}{{% endblock %}}"
        if direct:
            return leaf_src
        partials[leaf] = leaf_src
        tagname = "include" if w["entry"] == "include" else "render"
        return (pre["root"] + f"{{% {tagname} '{leaf}'{w['args'][v]} %}}"
                + (self.suffix_out if suffix else ""))

    def _body_stmt(self, k: int) -> tuple[str, str]:
        r = self.r
        n = r.choice(POOL)
        kind = r.choice(["read", "read", "assign", "capture", "incr", "decr", "cycle", "cyclen", "contfor",
                         "for", "with", "callpm", "lambda", "render-q", "macro", "dump",
                         "translate", "tfilter", "tfilter", "babel", "babel", "builtin"])
        if kind == "translate":
            # message variables, `count`, `translations` are read with RenderContext.resolve()
            n = r.choice(MSG_NAMES)
            src = r.choice([
                f"{{% translate %}}T {{{{ {n} }}}}{{% endtranslate %}}",
                f"{{% translate %}}T {{{{ {n} }}}} n={{{{ count }}}}{{% endtranslate %}}",
                f"{{% translate count: 2 %}}one {{{{ {n} }}}}{{% plural %}}many {{{{ {n} }}}} {{{{ count }}}}{{% endtranslate %}}",
                f"{{% translate context: 'cx' %}}C {{{{ {n} }}}}{{% endtranslate %}}",
                f"{{% translate context: 'cx', count: g2 %}}one {{{{ {n} }}}}{{% plural %}}many {{{{ {n} }}}}{{% endtranslate %}}",
            ])
        elif kind == "tfilter":
            n = r.choice(MSG_NAMES)
            src = r.choice([
                f"<{{{{ 'F %({n})s' | t }}}}>", f"<{{{{ 'G %({n})s' | gettext }}}}>",
                f"<{{{{ 'one %({n})s' | ngettext: 'many %({n})s', 2 }}}}>",
                f"<{{{{ 'P %({n})s' | pgettext: 'cx' }}}}>",
                f"<{{{{ 'one %({n})s' | npgettext: 'cx', 'many %({n})s', 2 }}}}>",
                f"<{{{{ 'T %({n})s' | t: 'cx', count: 2, plural: 'Ts %({n})s' }}}}>",
                "<{{ gmsg | t }}>", "<{{ gmsg | gettext }}>",
            ])
        elif kind == "babel":
            # locale, input_locale, currency_code, *_format, timezone, ... are read by name
            n = "settings"
            src = "<" + r.choice([
                "{{ 1234.5 | decimal }}", "{{ '1234.5' | decimal }}", "{{ 1234.567 | decimal: group_separator: false }}",
                "{{ 1234.5 | currency }}", "{{ '1234.5' | money }}", "{{ 1234.5 | money_with_currency }}",
                "{{ 1234.5 | money_without_currency }}", "{{ 1234.0 | money_without_trailing_zeros }}",
                "{{ 1152921504 | datetime }}", "{{ 1152921504 | datetime: format: 'short' }}",
                "{{ '2006-07-15 10:00' | datetime }}", "{{ 12 | unit: 'length-meter' }}",
                "{{ 12 | unit: 'length-meter', format: '#.0' }}", "{{ 12 | unit: 'duration-hour', length: 'long' }}",
            ]) + ">"
        elif kind == "builtin":
            # the builtin layer: only the *kind* of value is printed (the clock itself varies)
            n = r.choice(["now", "today"])
            src = f"<{{{{ {n} | date: '%Y' | size }}}}>"
        elif kind == "read":
            src = r.choice([
                f"<{{{{ {n} }}}}>", f"{{% if {n} %}}T{{% else %}}F{{% endif %}}", f"<{{{{ {n} | default: 'd' }}}}>",
                f"{{% echo {n} %}}", f"<{{{{ {n}.size }}}}>", f"<{{{{ {n} | upcase }}}}>",
                f"{{% liquid echo {n} %}}", f"<{{{{ 'ts${{{n}}}' }}}}>",
            ])
        elif kind == "assign":
            src = f"{{% assign {n} = 'pa{k}' %}}<{{{{ {n} }}}}>"
        elif kind == "capture":
            src = f"{{% capture {n} %}}pc{k}{{% endcapture %}}<{{{{ {n} }}}}>"
        elif kind == "incr":
            src = f"{{% increment {n} %}}" * r.randint(1, 3)
        elif kind == "decr":
            src = f"{{% decrement {n} %}}" * r.randint(1, 2)
        elif kind == "cycle":
            src = "{% cycle 'p', 'q', 'r' %}" * r.randint(1, 2)
        elif kind == "cyclen":
            src = f"{{% cycle {n}: 'p', 'q', 'r' %}}" * r.randint(1, 2)
        elif kind == "contfor":
            src = f"{{% for {n} in (1..6) limit: 2 offset: continue %}}{{{{ {n} }}}}{{% endfor %}}"
        elif kind == "for":
            src = (f"{{% for {n} in (1..2) %}}{{{{ {n} }}}}.{{{{ forloop.parentloop.index }}}}"
                   f"{{% if forloop.first %}}{{% continue %}}{{% endif %}}!{{% endfor %}}<{{{{ {n} }}}}>")
        elif kind == "with":
            src = f"{{% with {n}: 'bw{k}' %}}{{{{ {n} }}}}{{% endwith %}}<{{{{ {n} }}}}>"
        elif kind == "callpm":
            src = "{% call pm %}"
        elif kind == "lambda":
            src = f"{{{{ garr | map: {n} => {n}.x | join: ',' }}}}<{{{{ {n} }}}}>"
        elif kind == "render-q":
            src = r.choice(["{% render 'q' %}", f"{{% render 'q', {n}: 'qa' %}}", f"{{% render 'q' for gs as {n} %}}"])
        elif kind == "macro":
            src = f"{{% macro bm {n} %}}({{{{ {n} }}}}){{% endmacro %}}{{% call bm 'z' %}}"
        else:
            kind, src = "dump", self.dump
        return (f"{kind}:{n}" if kind != "dump" else "dump", src)

    def _tag(self) -> None:
        r = self.r
        c = self.construct
        self.macro_params = ""
        if c == "render":
            kws = [f"{n}: {r.choice(GVALS)}" for n in r.sample(POOL, r.choice([0, 1, 1, 2]))]
            self.tag = f"{{% render '{self.pname}'" + "".join(", " + k for k in kws) + " %}"
        elif c == "render-with":
            alias = r.choice([f" as {r.choice(POOL)}", ""])
            extra = r.choice(["", f", {r.choice(POOL)}: {r.choice(GVALS)}"])
            self.tag = f"{{% render '{self.pname}' with {r.choice(GVALS[:7])}{alias}{extra} %}}"
        elif c == "render-for":
            alias = r.choice([f" as {r.choice(POOL)}", f" as {r.choice(POOL)}", ""])
            self.tag = f"{{% render '{self.pname}' for {r.choice(['garr', 'gs'])}{alias} %}}"
        else:
            params = r.sample(POOL, r.choice([0, 1, 2, 3]))
            ps = []
            for p in params:
                ps.append(p if r.random() < 0.6 else f"{p}: {r.choice(GVALS)}")
            self.macro_params = (" " + ", ".join(ps)) if ps else ""
            pos = [r.choice(GVALS) for _ in range(r.choice([0, 1, 2]))]
            kw = [f"{n}: {r.choice(GVALS)}" for n in r.sample(POOL, r.choice([0, 1]))]
            args = ", ".join(pos + kw)
            self.tag = "{% call m" + (" " + args if args else "") + " %}"

    def _suffix_out(self) -> str:
        r = self.r
        s = "[S:" + ";".join(f"{n}={{{{ {n} }}}}" for n in POOL) + "]"
        for n in r.sample(POOL, 3):
            s += f"{{% increment {n} %}}{{% decrement {n} %}}"
        s += "{% cycle 'p', 'q', 'r' %}"
        for n in r.sample(POOL, 2):
            s += f"{{% cycle {n}: 'p', 'q', 'r' %}}"
        for n in r.sample(POOL, 2):
            s += f"{{% for {n} in (1..6) offset: continue %}}{{{{ {n} }}}}{{% endfor %}}"
        s += "{% call pm %}{% call bm 'z' %}[fl={{ forloop.index }}]"
        return s

    # ------------------------------------------------------------------ emission
    def emit(self, variant: int, with_tag: bool = True, prefix: list[dict[str, Any]] | None = None,
             body: list[tuple[str, str]] | None = None, wraps: list[dict[str, Any]] | None = None,
             partials: dict[str, str] | None = None, suffix: bool = True) -> str:
        """variant 0 = bare caller, 1/2 = the two value assignments. Generated partials are
        added to *partials* under names unique to (variant, with_tag)."""
        prefix = self.prefix if prefix is None else prefix
        body = self.body if body is None else body
        wraps = self.wraps if wraps is None else wraps
        partials = partials if partials is not None else {}
        body_src = "".join(s for _k, s in body)
        macrodef = ""
        if self.construct == "call":
            macrodef = f"{{% macro m{self.macro_params} %}}{body_src}{{% endmacro %}}"
        else:
            partials[self.pname] = body_src
        partials["q"] = "(q" + self.dump + ")"
        tag = self.tag if with_tag else ""
        if variant == 0:
            return macrodef + RL + tag + RR
        v = variant - 1
        # the macro is defined right next to its call so that it exists in whatever context
        # the wrappers create (macros are per render context)
        text = macrodef + RL + tag + RR + (self.suffix_in if suffix else "")
        for wi in range(len(wraps) - 1, -1, -1):
            w = wraps[wi]
            if w["kind"] == "block":
                return self._emit_block(w, variant, with_tag, text, prefix, partials, suffix)
            if w["kind"] == "include":
                name = f"inc{wi}v{variant}{'t' if with_tag else 'n'}"
                partials[name] = text
                text = f"{{% include '{name}'{w['inc_args'][v]} %}}"
            elif w["kind"] == "render":
                name = f"rw{wi}v{variant}{'t' if with_tag else 'n'}"
                partials[name] = text
                text = f"{{% render '{name}'{w['inc_args'][v]} %}}"
            elif w["kind"] == "macro":
                text = w["open"][v] + text + w["close_v"][v]
            else:
                text = w["open"][v] + text + w["close"]
        return "".join(st["v"][v] for st in prefix) + text + (self.suffix_out if suffix else "")

    def caller_names(self, prefix: list[dict[str, Any]], wraps: list[dict[str, Any]]) -> set[str]:
        return {st["name"] for st in prefix if st["kind"] != "macrodef"} | {w["name"] for w in wraps}

    def body_names(self) -> set[str]:
        return {k.split(":")[1] for k, _s in self.body if ":" in k} | (set(POOL) if any(k == "dump" for k, _ in self.body) else set())


FALSY = {"nn": None, "ee": {}, "ff": False, "zs": "", "el": []}
LAYER_NAMES = ["all-empty", "env-globals-only", "template-globals-only", "falsy-args",
               "empty-env-and-template-dicts", "falsy-env-globals", "falsy-template-globals",
               "split-over-three-layers", "falsy-args+env-globals"]


def layer_config(name: str, data: dict[str, Any]) -> dict[str, Any]:
    """Where the top-level data lives: render arguments / environment globals / template
    globals, each present, empty or holding only falsy values."""
    if name == "full":
        return {"name": name, "args": data, "env": None, "tmpl": None}
    if name == "all-empty":
        return {"name": name, "args": {}, "env": None, "tmpl": None}
    if name == "env-globals-only":
        return {"name": name, "args": {}, "env": data, "tmpl": None}
    if name == "template-globals-only":
        return {"name": name, "args": {}, "env": None, "tmpl": data}
    if name == "falsy-args":
        return {"name": name, "args": dict(FALSY), "env": None, "tmpl": None}
    if name == "empty-env-and-template-dicts":
        return {"name": name, "args": {}, "env": {}, "tmpl": {}}
    if name == "falsy-env-globals":
        return {"name": name, "args": {}, "env": dict(FALSY), "tmpl": None}
    if name == "falsy-template-globals":
        return {"name": name, "args": {}, "env": None, "tmpl": {"nn": None}}
    if name == "falsy-args+env-globals":
        return {"name": name, "args": {"nn": None}, "env": data, "tmpl": None}
    keys = sorted(data)
    return {"name": name, "args": {k: data[k] for k in keys[0::3]}, "env": {k: data[k] for k in keys[1::3]},
            "tmpl": {k: data[k] for k in keys[2::3]}}


class PairCheck:
    """Evaluates O1 and O2 for a pair (optionally on reduced prefix/body/wraps)."""

    def __init__(self, rt: Rt, pair: Pair, mode: str, layers: dict[str, Any] | None = None):
        self.rt = rt
        self.pair = pair
        self.mode = mode
        self.layers = layers or layer_config("full", pair.data)

    def witness_base(self, parts: dict[str, str]) -> dict[str, Any]:
        lay = self.layers
        return {"partials": parts, "data": lay["args"], "env_globals": lay["env"], "template_globals": lay["tmpl"],
                "data_layers": lay["name"], "env": self.pair.env_kind, "mode": self.mode}

    def key_suffix(self) -> str:
        return "" if self.layers["name"] == "full" else f"@data={self.layers['name']}"

    def sources(self, prefix=None, body=None, wraps=None, suffix: bool = True) -> tuple[dict[str, str], dict[str, str]]:
        parts: dict[str, str] = {}
        p = self.pair
        srcs = {
            "v1": p.emit(1, True, prefix, body, wraps, parts, suffix),
            "v2": p.emit(2, True, prefix, body, wraps, parts, suffix),
            "bare": p.emit(0, True, prefix, body, wraps, parts, suffix),
            "v1_without_tag": p.emit(1, False, prefix, body, wraps, parts, suffix),
        }
        return srcs, parts

    def evaluate(self, srcs: dict[str, str], parts: dict[str, str], own: bool = False,
                 report_frames: bool = True) -> dict[str, Any]:
        rt = self.rt
        p = self.pair
        lay = self.layers
        env = rt.env(p.env_kind, parts, lay["env"])
        outs: dict[str, Res] = {}
        for name, src in srcs.items():
            res = rt.run(env, src, lay["args"], self.mode, own=own and name == "v1", tglobals=lay["tmpl"])
            outs[name] = res
            if res.events and report_frames:
                w = self.witness_base(parts)
                w.update({"source": src, "own": own and name == "v1", "fault": None})
                rt.frame_report(res, w)
        verdict: dict[str, Any] = {"o1": None, "o2": None, "errors": [n for n, r in outs.items() if not r.ok],
                                   "outs": {n: (r.out if r.ok else "ERR:" + r.err) for n, r in outs.items()}}
        if verdict["errors"]:
            # the caller without the tag and the bare caller render, the caller with the tag
            # raises: the partial's behaviour depends on the caller's locals
            if set(verdict["errors"]) <= {"v1", "v2"} and ("v1_without_tag" in outs or "v1" not in verdict["errors"]):
                verdict["o1"] = "raises-only-under-caller-locals:" + "/".join(
                    sorted({outs[n].err for n in verdict["errors"]}))
                verdict["errors"] = []
                verdict["n_regions"] = 0
            return verdict
        r1, r2, r0 = regions(outs["v1"].out), regions(outs["v2"].out), regions(outs["bare"].out)
        verdict["n_regions"] = len(r1)
        if not r1 or len(r0) != 1:
            verdict["errors"] = ["no-region"]
            return verdict
        if r1 != r2:
            verdict["o1"] = "v1-vs-v2"
        elif any(x != r0[0] for x in r1):
            verdict["o1"] = "v1-vs-bare"
        if "v1_without_tag" in outs and strip_regions(outs["v1"].out) != outs["v1_without_tag"].out:
            verdict["o2"] = "caller-output-changed"
        return verdict


def run_pair(rt: Rt, seed: str, j: int, tier: str) -> None:
    ctx = rt.ctx
    rng = random.Random(f"{seed}:pair:{j}")
    pair = Pair(rng)
    mode = "async" if j % 2 else "sync"
    chk = PairCheck(rt, pair, mode)
    srcs, parts = chk.sources()
    v = chk.evaluate(srcs, parts, own=(j % 3 == 0))
    ctx.seen("constructs", pair.construct)
    for w in pair.wraps:
        ctx.seen("wrappers", w["kind"])
        if w["kind"] == "block":
            ctx.seen("block_wrappers", f"{w['entry']}/depth{w['depth']}/tag-level{w['tag_level']}/"
                                       f"{'super' if w['super'] else 'nosuper'}/{w['bw']}")
    for st in pair.prefix:
        ctx.seen("prefix_kinds", st["kind"])
    for k, _s in pair.body:
        ctx.seen("body_kinds", k.split(":")[0])
    if v["errors"]:
        ctx.count("pairs_with_render_error")
        ctx.note(f"pair {seed}:{j} did not render: {v['errors']} {[o for o in v['outs'].values() if o.startswith('ERR')][:2]}")
        return
    ctx.count("pairs")
    if any(w["kind"] == "block" for w in pair.wraps):
        ctx.count("pairs_inside_overriding_block")
    byname = {k.split(":")[0] for k, _s in pair.body} & {"translate", "tfilter", "babel", "builtin"}
    bound = [f"{st['kind']}:{st['name']}" for st in pair.prefix if st["name"] in SETTING_VALUES] + [
        f"wrap-{w['kind']}:{w['name']}" for w in pair.wraps if w["name"] in SETTING_VALUES]
    for b in bound:
        ctx.seen("caller_bindings_of_names_read_by_name", b)
    ctx.seen("partial_names", pair.pname)
    dbound = []
    for kind_, name_ in [(st["kind"], st["name"]) for st in pair.prefix] + [
            ("wrap-" + w["kind"], w["name"]) for w in pair.wraps]:
        if name_ == pair.alias and pair.construct != "call":
            dbound.append(f"{kind_}:default-alias")
        elif name_ in pair.derived:
            dbound.append(f"{kind_}:{name_ if name_ in TAG_DERIVED else 'path-segment'}")
    for b in dbound:
        ctx.seen("caller_bindings_of_tag_derived_names", b)
    if dbound:
        ctx.count("pairs_caller_binds_tag_derived_name")
    if any(b.endswith(":default-alias") for b in dbound):
        ctx.count("pairs_caller_binds_partial_default_alias")
    for b in byname:
        ctx.seen("by_name_body_kinds", b)
    if byname:
        ctx.count("pairs_body_reads_by_name")
    if byname and bound:
        ctx.count("pairs_by_name_read_and_caller_binding")
    nest = [f"{w['kind']}[{w.get('form', w.get('entry', ''))}]" for w in pair.wraps
            if w["kind"] in ("macro", "render") or (w["kind"] == "block" and w["entry"] == "render")]
    iso = len(nest)
    if iso:
        ctx.count("pairs_nested_isolation_depth_ge2")
        ctx.seen("isolation_nests", ">".join(nest + [pair.construct]))
    if iso >= 2:
        ctx.count("pairs_nested_isolation_depth_ge3")
    ctx.count("o1_regions_compared", 2 * v["n_regions"])
    if pair.caller_names(pair.prefix, pair.wraps) & pair.body_names():
        ctx.nt(sorted(srcs.items()), sorted(parts.items()), sorted(pair.data), mode)
    if j % 211 == 0:
        ctx.sample({"oracle": "O1/O2", "v1": srcs["v1"], "v2": srcs["v2"], "partials": parts, "mode": mode,
                    "v1_output": v["outs"]["v1"]})
    base = chk.witness_base(parts)
    base["gen"] = [seed, j]
    if v["o1"]:
        report_o1(rt, chk, v, base)
    if v["o2"]:
        report_o2(rt, chk, v, base)
    # the same pair with the top-level data living elsewhere / empty / falsy (every second pair:
    # completely empty data, so that every mapping on the globals chain is falsy)
    lname = "all-empty" if j % 2 == 0 else LAYER_NAMES[1 + (j // 2) % (len(LAYER_NAMES) - 1)]
    chk2 = PairCheck(rt, pair, mode, layer_config(lname, pair.data))
    v2 = chk2.evaluate(srcs, parts, own=(j % 5 == 0))
    ctx.seen("data_layer_configs", lname)
    if v2["errors"]:
        ctx.count("pairs_with_render_error")
        ctx.note(f"pair {seed}:{j} data={lname} did not render: {v2['errors']} "
                 f"{[o for o in v2['outs'].values() if o.startswith('ERR')][:2]}")
    else:
        ctx.count("pairs_alt_data_layers")
        ctx.count("pairs_all_empty_data" if lname == "all-empty" else "pairs_other_data_layers")
        if iso:
            ctx.count("pairs_nested_isolation_alt_data")
            if lname == "all-empty":
                ctx.count("pairs_nested_isolation_all_empty_data")
        ctx.nt(sorted(srcs.items()), sorted(parts.items()), lname, mode)
        base2 = chk2.witness_base(parts)
        base2["gen"] = [seed, j]
        # (a pair that already fails with the full data is the same mechanism: the data-layer
        # suffix is reserved for what shows up only under the alternate layering)
        if v2["o1"] and not v["o1"]:
            report_o1(rt, chk2, v2, base2)
        if v2["o2"] and not v["o2"]:
            report_o2(rt, chk2, v2, base2)
    # fault injection on variant 1 (harness-owned context)
    if j % 4 == 0:
        fault_sweep(rt, pair.env_kind, srcs["v1"], parts, pair.data, mode,
                    cap=16 if tier == "quick" else 32, both=tier != "quick", j=j)


def _minimise_pair(chk: PairCheck, which: str, full: bool = True) -> tuple[list, list, list, bool]:
    """Reduce (prefix, body, wrappers) while the violation persists.  With full=False only
    the cheap attribution steps are done (enough to name the mechanism)."""
    pair = chk.pair
    suffix = True

    def failing(prefix, body, wraps) -> bool:
        try:
            s, p = chk.sources(prefix, body, wraps, suffix)
            v = chk.evaluate(s, p, report_frames=False)
            return not v["errors"] and bool(v[which])
        except Exception:  # noqa: BLE001
            return False

    prefix, body, wraps = list(pair.prefix), list(pair.body), list(pair.wraps)
    # cheap attribution first: a single wrapper or a single prefix statement that suffices
    single = None
    if which == "o1":
        for w in wraps:
            if failing([], body, [w]):
                single = ([], [w])
                break
        if single is None and not wraps:
            for st in prefix:
                if failing([st], body, []):
                    single = ([st], [])
                    break
    if single is not None:
        prefix, wraps = single
    else:
        for wi in range(len(wraps) - 1, -1, -1):
            cand = wraps[:wi] + wraps[wi + 1:]
            if failing(prefix, body, cand):
                wraps = cand
        if prefix and failing([], body, wraps):
            prefix = []
        elif len(prefix) > 1:
            prefix = ddmin(prefix, lambda c: failing(c, body, wraps), max_calls=60)
            if len(prefix) == 1 and failing([], body, wraps):
                prefix = []
    if not full and which == "o1":
        return prefix, body, wraps, suffix
    if len(body) > 1:
        body = ddmin(body, lambda c: failing(prefix, c, wraps), max_calls=80)
    if which == "o1":
        suffix = False
        if not failing(prefix, body, wraps):
            suffix = True
        if len(body) == 1 and body[0][0] == "dump":
            for n in POOL:
                cand = [("read:" + n, f"<{{{{ {n} }}}}>")]
                if failing(prefix, cand, wraps):
                    body = cand
                    break
    return prefix, body, wraps, suffix


def _o1_key(pair: Pair, prefix: list, wraps: list, suffix: str = "") -> str:
    leaks = sorted({PREFIX_LEAK[st["kind"]] for st in prefix} | {PREFIX_LEAK["wrap:" + w["kind"]] for w in wraps})
    return f"O1:{pair.construct}:{'+'.join(leaks) if leaks else 'differs-from-bare-caller'}{suffix}"


def _referenced(srcs: dict[str, str], parts: dict[str, str]) -> dict[str, str]:
    """Partials reachable from the sources (witness hygiene)."""
    keep: dict[str, str] = {}
    todo = list(srcs.values())
    while todo:
        text = todo.pop()
        for name, body in parts.items():
            if name not in keep and f"'{name}'" in text:
                keep[name] = body
                todo.append(body)
    return keep


def report_o1(rt: Rt, chk: PairCheck, v: dict[str, Any], base: dict[str, Any]) -> None:
    pair = chk.pair
    # name the mechanism cheaply; spend the full minimisation only on the first few witnesses
    prefix, body, wraps, suffix = _minimise_pair(chk, "o1", full=False)
    key = _o1_key(pair, prefix, wraps, chk.key_suffix())
    seen = rt.key_counts.get(key, 0)
    rt.key_counts[key] = seen + 1
    if seen < 3:
        prefix, body, wraps, suffix = _minimise_pair(chk, "o1", full=True)
        key = _o1_key(pair, prefix, wraps, chk.key_suffix())
    srcs, parts = chk.sources(prefix, body, wraps, suffix)
    v2 = chk.evaluate(srcs, parts, report_frames=False)
    if not str(v2["o1"]).startswith("raises-only"):
        srcs.pop("v1_without_tag", None)  # (kept when it is what shows that the tag is what raises)
        v2["outs"].pop("v1_without_tag", None)
    parts = _referenced(srcs, parts)
    wit = dict(base)
    wit.update({"oracle": "O1", "key": key, "sources": srcs, "partials": parts, "outputs": v2["outs"],
                "relation": v2["o1"], "original_v1": pair.emit(1)})
    rt.ctx.violation(
        key,
        f"text of the «…» region of {pair.construct} depends on the caller's locals "
        f"({v2['o1']}): v1={regions(v2['outs'].get('v1', ''))!r} v2={regions(v2['outs'].get('v2', ''))!r} "
        f"bare={regions(v2['outs'].get('bare', ''))!r}",
        wit,
    )


def report_o2(rt: Rt, chk: PairCheck, v: dict[str, Any], base: dict[str, Any]) -> None:
    pair = chk.pair
    prefix, body, wraps, _suffix = _minimise_pair(chk, "o2")
    kinds = sorted({k.split(":")[0] for k, _s in body} - {"dump", "read"}) or sorted({k.split(":")[0] for k, _s in body})
    key = f"O2:{pair.construct}:{'+'.join(kinds)}-escaped{chk.key_suffix()}"
    srcs, parts = chk.sources(prefix, body, wraps)
    v2 = chk.evaluate(srcs, parts, report_frames=False)
    wit = dict(base)
    wit.update({"oracle": "O2", "key": key, "sources": srcs, "partials": parts, "outputs": v2["outs"],
                "original_v1": pair.emit(1)})
    rt.ctx.violation(
        key,
        f"caller output outside the «…» region changes when the {pair.construct} tag is removed: "
        f"with={strip_regions(v2['outs'].get('v1', ''))!r} without={v2['outs'].get('v1_without_tag')!r}",
        wit,
    )


# ======================================================================================
# O3 : include refused after render / macro
# ======================================================================================

O3_STEPS = ["include", "render", "render-with", "render-for", "call", "block"]
O3_ISOLATING = ("render", "render-with", "render-for", "call")
O3_BLOCKS = [
    ("plain", "{% include 'q' %}"),
    ("args", "{% include 'q', a: 1 %}"),
    ("with", "{% include 'q' with g1 as x %}"),
    ("wc", "{%- include 'q' -%}"),
    ("liquid", "{% liquid include 'q' %}"),
    ("for", "{% for i in (1..2) %}{% include 'q' %}{% endfor %}"),
    ("if", "{% if true %}{% include 'q' %}{% endif %}"),
    ("unless-case", "{% unless false %}{% case 1 %}{% when 1 %}{% include 'q' %}{% endcase %}{% endunless %}"),
    ("with-block", "{% with a: 1 %}{% include 'q' %}{% endwith %}"),
    ("capture", "{% capture c %}{% include 'q' %}{% endcapture %}{{ c }}"),
    ("dynamic-name", "{% assign nm = 'q' %}{% include nm %}"),
    ("for-else", "{% for i in nosuch %}{% else %}{% include 'q' %}{% endfor %}"),
    # not the first token of its enclosing block / template
    ("later-top", "x{{ g1 }}{% include 'q' %}"),
    ("later-for", "{% for i in (1..2) %}y{% include 'q' %}{% endfor %}"),
    ("later-if", "{% if true %}{{ g1 }}{% assign z = 1 %}{% include 'q' %}{% endif %}"),
    ("later-with", "{% with a: 1 %}{{ a }}{% include 'q' %}{% endwith %}"),
    ("later-capture", "{% capture c %}z{% include 'q' %}{% endcapture %}{{ c }}"),
]
O3_BOX_BLOCKS = [  # only in configurations that register the custom block tag `box`
    ("box-first", "{% box %}{% include 'q' %}{% endbox %}"),
    ("box-later", "{% box %}b{% include 'q' %}{% endbox %}"),
    ("for-box-later", "{% for i in (1..2) %}{% box %}b{{ i }}{% include 'q' %}{% endbox %}{% endfor %}"),
]
O3_ISO_BLOCKS = [  # only with the third-party isolated-scope tag `iso` (renders its block in context.copy())
    ("iso-first", "{% iso %}{% include 'q' %}{% endiso %}"),
    ("iso-later", "{% iso %}z{% include 'q' %}{% endiso %}"),
    ("for-iso-later", "{% for i in (1..2) %}{% iso %}z{{ g1 }}{% include 'q' %}{% endiso %}{% endfor %}"),
    ("iso-iso-later", "{% iso %}{% iso %}z{% include 'q' %}{% endiso %}{% endiso %}"),
    ("iso-if-later", "{% iso %}{% if true %}z{% include 'q', a: 1 %}{% endif %}{% endiso %}"),
]
# Tag configurations (docs/custom_tags.md "Add a tag" / "Replace a tag")
O3_TAG_CONFIGS = ["std", "include-subclass-tag", "include-subclass-node", "include-alias", "render-subclass-tag",
                  "render-alias", "custom-block", "include-subclass-tag+custom-block", "custom-isolated-tag"]


def _tag_classes() -> dict[str, Any]:
    from liquid2 import BlockNode
    from liquid2 import Node
    from liquid2 import Tag
    from liquid2 import TagToken
    from liquid2.builtin.tags.include_tag import IncludeNode
    from liquid2.builtin.tags.include_tag import IncludeTag
    from liquid2.builtin.tags.render_tag import RenderNode
    from liquid2.builtin.tags.render_tag import RenderTag

    class SnippetNode(IncludeNode):  # the documented way to tell loaders which tag is loading
        tag = "snippet"

    class SnippetTag(IncludeTag):
        node_class = SnippetNode

    class CountingIncludeNode(IncludeNode):  # another node class, same `tag`
        calls = 0

        def render_to_output(self, context: Any, buffer: Any) -> int:
            type(self).calls += 1
            return super().render_to_output(context, buffer)

        async def render_to_output_async(self, context: Any, buffer: Any) -> int:
            type(self).calls += 1
            return await super().render_to_output_async(context, buffer)

    class CountingIncludeTag(IncludeTag):
        node_class = CountingIncludeNode

    class CardNode(RenderNode):
        tag = "card"

    class CardTag(RenderTag):
        node_class = CardNode

    class BoxNode(Node):  # a custom block tag that renders its block in the current context
        def __init__(self, token: Any, block: Any):
            super().__init__(token)
            self.block = block
            self.blank = block.blank

        def render_to_output(self, context: Any, buffer: Any) -> int:
            return self.block.render(context, buffer)

        async def render_to_output_async(self, context: Any, buffer: Any) -> int:
            return await self.block.render_async(context, buffer)

    class BoxTag(Tag):
        block = True

        def parse(self, stream: Any) -> Any:
            token = stream.next()
            assert isinstance(token, TagToken)
            block = BlockNode(stream.current(), self.env.parser.parse_block(stream, ("endbox",)))
            stream.expect_tag("endbox")
            return BoxNode(token, block)

    class IsoNode(BoxNode):  # a custom isolated-scope tag written against RenderContext.copy()
        def render_to_output(self, context: Any, buffer: Any) -> int:
            return self.block.render(context.copy(self.token, namespace={}), buffer)

        async def render_to_output_async(self, context: Any, buffer: Any) -> int:
            return await self.block.render_async(context.copy(self.token, namespace={}), buffer)

    class IsoTag(Tag):
        block = True

        def parse(self, stream: Any) -> Any:
            token = stream.next()
            block = BlockNode(stream.current(), self.env.parser.parse_block(stream, ("endiso",)))
            stream.expect_tag("endiso")
            return IsoNode(token, block)

    return {"SnippetTag": SnippetTag, "CountingIncludeTag": CountingIncludeTag, "CardTag": CardTag,
            "BoxTag": BoxTag, "IsoTag": IsoTag, "IncludeTag": IncludeTag, "RenderTag": RenderTag}


def configure_tags(env: Any, cfg: str, classes: dict[str, Any]) -> Any:
    if "include-subclass-tag" in cfg:
        env.tags["include"] = classes["SnippetTag"](env)
    if cfg == "include-subclass-node":
        env.tags["include"] = classes["CountingIncludeTag"](env)
    if cfg == "include-alias":
        env.tags["partial"] = classes["IncludeTag"](env)
    if cfg == "render-subclass-tag":
        env.tags["render"] = classes["CardTag"](env)
    if cfg == "render-alias":
        env.tags["card"] = classes["RenderTag"](env)
    if "custom-block" in cfg:
        env.tags["box"] = classes["BoxTag"](env)
    if cfg == "custom-isolated-tag":
        env.tags["iso"] = classes["IsoTag"](env)
    return env


def o3_paths(maxlen: int) -> list[tuple[str, ...]]:
    out: list[tuple[str, ...]] = []

    def rec(p: tuple[str, ...]) -> None:
        if p:
            out.append(p)
        if len(p) < maxlen:
            for s in O3_STEPS:
                if s == "block" and p and p[-1] in ("call", "block"):
                    continue  # (block is disabled in a macro body; extends inside a block is an error)
                rec(p + (s,))

    rec(())
    return out


def o3_build(path: tuple[str, ...], block: str, render_word: str = "render",
             include_word: str = "include") -> tuple[str, dict[str, str]]:
    parts = {"q": "QQ"}
    inner = block
    for d in range(len(path) - 1, -1, -1):
        s = path[d]
        if s == "call":
            inner = f"{{% macro m{d} %}}{inner}{{% endmacro %}}{{% call m{d} %}}"
            continue
        if s == "block":
            # the enclosing template *is* the leaf of an inheritance chain (depth 2 or 3); what
            # follows sits in its overriding block, which the base renders inside a for loop
            parts[f"b{d}"] = "{% for zz in (1..1) %}{% block row %}D{% endblock %}{% endfor %}"
            parent = f"b{d}"
            if d % 2:
                parts[f"bm{d}"] = f"{{% extends 'b{d}' %}}{{% block row %}}M({{{{ block.super }}}}){{% endblock %}}"
                parent = f"bm{d}"
            inner = f"{{% extends '{parent}' %}}{{% block row %}}{{{{ block.super }}}}{inner}{{% endblock %}}"
            continue
        name = f"t{d}"
        parts[name] = inner
        if s == "include":
            inner = f"{{% {include_word} '{name}' %}}"
        elif s == "render":
            inner = f"{{% {render_word} '{name}' %}}"
        elif s == "render-with":
            inner = f"{{% {render_word} '{name}' with g1 as a %}}"
        else:
            inner = f"{{% {render_word} '{name}' for gs as a %}}"
    return inner, parts


def run_o3(rt: Rt, spec: dict[str, Any]) -> None:
    """include is refused on every path through render / a macro body: all paths x include
    forms x positions in the standard environment, shorter paths in environments whose tags
    were replaced / aliased / extended as docs/custom_tags.md describes."""
    ctx = rt.ctx
    idx = 0
    for cfg in O3_TAG_CONFIGS:
        std = cfg == "std"
        kind = "std" if std else "cfg:" + cfg
        paths = o3_paths((3 if spec["tier"] == "quick" else 4) if std else 2)
        blocks = O3_BLOCKS + (O3_BOX_BLOCKS if "custom-block" in cfg else []) + (
            O3_ISO_BLOCKS if cfg == "custom-isolated-tag" else [])
        render_word = "card" if cfg == "render-alias" else "render"
        # (with an alias registered, the shared-scope steps are written with the alias; the
        # include that must be refused is always the one the author wrote as `include`)
        include_word = "partial" if cfg == "include-alias" else "include"
        suffix = "" if std else f"[tags={cfg}]"
        for path in paths:
            isolating = any(s in O3_ISOLATING for s in path)
            last_iso = max((k for k, s in enumerate(path) if s in O3_ISOLATING), default=0)
            for bname, block in blocks:
                idx += 1
                if idx % spec["n"] != spec["i"]:
                    continue
                src, parts = o3_build(path, block, render_word, include_word)
                full = ">".join("macro" if s == "call" else s for s in path)
                # mechanism = the last isolating step and whether a block follows it
                where = ("macro" if path[last_iso] == "call" else path[last_iso]) + (
                    ">block" if "block" in path[last_iso:] else "")
                position = "later" if bname.startswith("later") or bname.endswith("later") else "first"
                if bname in dict(O3_ISO_BLOCKS):
                    ctx.count("O3_cases_inside_custom_isolated_tag", 2)
                for mode in ("sync", "async"):
                    res = frame_case(rt, kind, src, parts, GLOBALS, mode, own=(idx % 2 == 0))
                    ctx.seen("o3_paths", full)
                    ctx.seen("o3_tag_configs", cfg)
                    if not isolating:
                        ctx.count("O3_controls")
                        if not (res.ok and "QQ" in res.out):
                            ctx.note(f"O3 control (include only, tags={cfg}) failed: {src!r} -> {res.err or res.out!r}")
                            ctx.count("O3_control_failures")
                        continue
                    if res.err == "DisabledTagError":
                        ctx.count("O3_refusals")
                        ctx.count(f"O3_refusals_include_{position}_in_block")
                        if not std:
                            ctx.count("O3_refusals_under_replaced_tags")
                        ctx.nt("o3", cfg, src, sorted(parts.items()), mode)
                    else:
                        key = f"O3:include-not-refused@{where}{suffix}"
                        ctx.violation(
                            key,
                            f"include reached through {full} (include form {bname}, tags={cfg}) was not refused: "
                            + (f"rendered {res.out!r}" if res.ok else f"raised {res.err}"),
                            {"oracle": "O3", "key": key, "source": src, "partials": parts, "data": GLOBALS,
                             "env": kind, "mode": mode},
                        )
                # after leaving the isolated construct, include works again in the caller
                if isolating and bname == "plain" and "block" not in path:
                    src2, parts2 = o3_build(path, "x", render_word, include_word)
                    res = frame_case(rt, kind, src2 + "{% include 'q' %}", parts2, GLOBALS, "sync", own=True)
                    ctx.count("O3_include_after_isolated_construct")
                    if not (res.ok and res.out.endswith("QQ")) and "include" not in path:
                        key = f"O3:include-refused-after@{where}{suffix}"
                        ctx.violation(
                            key,
                            f"include in the caller after {where} (tags={cfg}) did not render: {res.err or res.out!r}",
                            {"oracle": "O3b", "key": key, "source": src2 + "{% include 'q' %}",
                             "partials": parts2, "data": GLOBALS, "env": kind, "mode": "sync"},
                        )
    if spec["i"] == 0:
        o3_diagnostics(rt)


def o3_diagnostics(rt: Rt) -> None:
    """Not judged (see ASSUMPTIONS): an alias of include."""
    parts = {"q": "QQ", "t": "{% partial 'q' %}"}
    res = rt.run(rt.env("cfg:include-alias", parts), "{% render 't' %}", {}, "sync")
    rt.ctx.note("diagnostic (alias, not judged): include registered a second time as `partial`, used inside a "
                f"rendered partial -> {res.out if res.ok else res.err!r}")


# ======================================================================================
# O4 : binder nests with before/after probes (also the O5 error / depth / fault workload)
# ======================================================================================

LAMBDA_FORMS = [
    ("map", "{{{{ garr | map: {N} => {N}.x | join: ',' }}}}"),
    ("map", "{{{{ garr | map: ({N}, {M}) => {M} | join: ',' }}}}"),
    ("where", "{{{{ garr | where: {N} => {N}.x > 1 | map: 'k' | join: ',' }}}}"),
    ("reject", "{{{{ garr | reject: {N} => {N}.x == 1 | size }}}}"),
    ("find", "{{{{ garr | find: {N} => {N}.x == 2 | json }}}}"),
    ("find", "{{{{ garr | find: {N} => {N}.x == 1 | json }}}}"),
    ("find_index", "{{{{ garr | find_index: {N} => {N}.x == 2 }}}}"),
    ("has", "{{{{ garr | has: {N} => {N}.x == 1 }}}}"),
    ("has", "{{{{ garr | has: ({N}, {M}) => {M} == 1 }}}}"),
    ("sort", "{{{{ garr | sort: {N} => {N}.x | map: 'k' | join: ',' }}}}"),
    ("sort_natural", "{{{{ garr | sort_natural: {N} => {N}.k | map: 'k' | join: ',' }}}}"),
    ("sort_numeric", "{{{{ garr | sort_numeric: {N} => {N}.x | map: 'k' | join: ',' }}}}"),
    ("uniq", "{{{{ garr | uniq: {N} => {N}.tags | map: 'k' | join: ',' }}}}"),
    ("compact", "{{{{ garr | compact: {N} => {N}.x | size }}}}"),
    ("sum", "{{{{ garr | sum: {N} => {N}.x }}}}"),
]
ERROR_LEAVES = [
    ("sum-nonnumeric", "{{{{ garr | sum: {N} => {N}.k }}}}"),
    ("sum-nonnumeric-2", "{{{{ gmix | sum: ({N}, {M}) => {N} }}}}"),
    ("sort-mixed", "{{{{ gmix | sort: {N} => {N} | join: ',' }}}}"),
    ("sort-numeric-mixed", "{{{{ gmix | sort_numeric: {N} => {N}.x | join: ',' }}}}"),
    ("uniq-unhashable", "{{{{ gmix | uniq: {N} => {N} | size }}}}"),
    ("find-mixed", "{{{{ gmix | find: {N} => {N}.x > 0 | json }}}}"),
    ("has-mixed", "{{{{ gmix | has: {N} => {N} > 1 }}}}"),
    ("where-mixed", "{{{{ gmix | where: {N} => {N} < 2 | size }}}}"),
    ("map-then-fail", "{{{{ garr | map: {N} => {N}.k | sum }}}}"),
    ("sort-natural-bad-str", "{{{{ gbad | sort_natural: {N} => {N}.v | size }}}}"),
    ("uniq-bad-eq", "{{{{ gbadeq | uniq: {N} => {N}.v | size }}}}"),
    ("sum-inf-minus-inf", "{{{{ ginf | sum: {N} => {N} }}}}"),
    ("sum-int-string-limit", "{{{{ gbig | sum: {N} => {N} }}}}"),
    ("sum-int-string-limit-2", "{{{{ gbig2 | sum: ({N}, {M}) => {N}.v }}}}"),
    ("divide-by-zero", "{{{{ 1 | divided_by: 0 }}}}"),
    ("missing-render", "{{% render 'missing' %}}"),
    ("missing-include", "{{% include 'missing' %}}"),
    ("stray-break", "{{% with {N}: 1 %}}{{% break %}}{{% endwith %}}"),
    ("lt-type-error", "{{% if {N} < garr %}}x{{% endif %}}"),
    ("include-in-render", "{{% render 'incl' %}}"),
    ("bad-limit", "{{% for {N} in garr limit: 'zz' %}}{{% endfor %}}"),
]
GMIX = [3, "abc", {"x": 1}, None, [1], 2.5, "10", True]


class O4Gen:
    """Random nests of binder constructs; every construct is bracketed by probes."""

    def __init__(self, rng: random.Random, errors: bool = False, shopify: bool | None = None):
        self.r = rng
        self.errors = errors
        self.env_kind = "shopify" if (rng.random() < 0.3 if shopify is None else shopify) else "std"
        self.partials: dict[str, str] = {"incl": "{% include 'q' %}", "q": "Q"}
        self.nid = 0
        self.binders: set[str] = set()
        self.probe_binder: dict[int, str] = {}
        self.error_leaf: str | None = None
        self.in_tablerow = 0

    def program(self) -> tuple[str, dict[str, str], dict[str, Any]]:
        r = self.r
        data = dict(GLOBALS)
        data["gmix"] = GMIX
        if self.errors:
            data["gbad"] = [{"v": "a"}, {"v": BadValue("str")}, {"v": "b"}]
            data["gbadeq"] = [{"v": 1}, {"v": BadValue("eq")}, {"v": 2}]
            data["ginf"] = ["Infinity", "-Infinity", 1]
            data["gbig"] = [1, "9" * 5000, 2]  # longer than the integer-string conversion limit
            data["gbig2"] = [{"v": 1}, {"v": "9" * 5000}, {"v": 2}]
        head = ""
        for n in POOL + ["forloop", "args"]:
            k = r.choice(["undef", "undef", "global", "assign", "capture", "counter"])
            if n in ("forloop", "args") and k == "counter":
                k = "global"
            if k == "global":
                data[n] = f"GLOBAL-{n}"
            elif k == "assign":
                head += f"{{% assign {n} = 'OUT-{n}' %}}"
            elif k == "capture":
                head += f"{{% capture {n} %}}CAP-{n}{{% endcapture %}}"
            elif k == "counter":
                head += f"{{% increment {n} %}}"
        body = self.stmts(0, False, [], r.randint(1, 3), False)
        if self.errors and self.error_leaf is None:
            body += self.err_leaf(r.choice(POOL))
        return head + body, self.partials, data

    # ------------------------------------------------------------------ helpers
    def probe(self, nid: int, side: str, names: list[str]) -> str:
        exprs = []
        for n in names:
            if n == "forloop":
                exprs.append("{{ forloop.index }}/{{ forloop.length }}/{{ forloop.name }}/{{ forloop }}")
            elif n == "tablerowloop":
                exprs.append("{{ tablerowloop.index }}/{{ tablerowloop.col }}")
            else:
                exprs.append(f"{{{{ {n} }}}}")
        return f"{PL}{nid}{side}:" + "|".join(exprs) + PR

    def val(self, enclosing: list[str]) -> str:
        r = self.r
        if enclosing and r.random() < 0.25:
            return r.choice(enclosing)
        if r.random() < 0.2:
            return r.choice(POOL)
        return r.choice(GVALS)

    def err_leaf(self, n: str) -> str:
        name, form = self.r.choice(ERROR_LEAVES)
        self.error_leaf = name
        m = self.r.choice([p for p in POOL if p != n])
        return form.format(N=n, M=m)

    def stmts(self, depth: int, in_loop: bool, enclosing: list[str], count: int, iso: bool) -> str:
        r = self.r
        out = ""
        for _ in range(count):
            c = r.random()
            if depth < 3 and c < 0.5:
                out += self.construct(depth, in_loop, enclosing, iso)
            elif c < 0.64:
                n = r.choice(enclosing or POOL)
                out += r.choice([f"[{{{{ {n} }}}}]", f"[{{{{ {n}.x }}}}]", "[{{ gmap.k }}]", f"[{{{{ garr[1].k }}}}{{{{ {n} }}}}]"])
            elif c < 0.8 and in_loop:
                word = r.choice(["break", "continue"])
                cond = r.choice(["forloop.first", "forloop.last", "forloop.index == 2", "true"])
                out += f"{{% if {cond} %}}{{% {word} %}}{{% endif %}}"
                self.binders.add("+" + word)
            elif c < 0.88 and self.errors and self.error_leaf is None:
                out += self.err_leaf(r.choice(enclosing or POOL))
            else:
                out += r.choice(["t", ".", "-"])
        return out

    def construct(self, depth: int, in_loop: bool, enclosing: list[str], iso: bool) -> str:  # noqa: PLR0912, PLR0915
        r = self.r
        kinds = ["for", "for", "with", "include", "render", "macro", "lambda", "lambda", "translate", "t-filter"]
        if self.env_kind == "shopify" and not self.in_tablerow:
            kinds += ["tablerow", "tablerow"]
        if iso:  # include is refused inside render / macro bodies (that is O3, not O4)
            kinds = [k for k in kinds if k != "include"]
        kind = r.choice(kinds)
        n = r.choice(enclosing) if enclosing and r.random() < 0.45 else r.choice(POOL)
        m = r.choice([p for p in POOL if p != n])
        nid = self.nid
        self.nid += 1
        inner_n = r.randint(1, 3)
        names = [n]
        label = kind
        if kind == "for":
            it = r.choice(["(1..3)", "garr", "gs", "gmap", "'fa', 'fb'", "(1..4)"])
            opts = r.choice(["", "", " limit: 2", " offset: 1", " reversed", " limit: 2 offset: 1"])
            if "," in it:
                opts = ""  # (loop options after an array literal do not parse)
            body = self.stmts(depth + 1, True, enclosing + [n], inner_n, iso)
            src = f"{{% for {n} in {it}{opts} %}}{body}" + r.choice(["", "{% else %}E"]) + "{% endfor %}"
            names = [n, "forloop"]
        elif kind == "tablerow":
            it = r.choice(["(1..3)", "garr", "gs"])
            self.in_tablerow += 1  # (liquid2 does not parse a tablerow nested in a tablerow)
            body = self.stmts(depth + 1, True, enclosing + [n], inner_n, iso)
            self.in_tablerow -= 1
            src = f"{{% tablerow {n} in {it} cols: 2 %}}{body}{{% endtablerow %}}"
            names = [n, "tablerowloop"]
        elif kind == "with":
            two = r.random() < 0.4
            body = self.stmts(depth + 1, in_loop, enclosing + [n], inner_n, iso)
            args = f"{n}: {self.val(enclosing)}" + (f", {m}: {self.val(enclosing)}" if two else "")
            src = f"{{% with {args} %}}{body}{{% endwith %}}"
            names = [n, m] if two else [n]
        elif kind in ("include", "render"):
            form = r.choice(["kw", "with-as", "for-as", "default-name"])
            label = f"{kind}-{form}"
            body = self.stmts(depth + 1, False, (enclosing if kind == "include" else []) + [n], inner_n, iso or kind == "render")
            pname = f"{n}.{nid}" if form == "default-name" else f"{kind[0]}{nid}"
            self.partials[pname] = body
            if form == "kw":
                src = f"{{% {kind} '{pname}', {n}: {self.val(enclosing)} %}}"
            elif form == "with-as":
                src = f"{{% {kind} '{pname}' with {self.val(enclosing)} as {n} %}}"
            elif form == "for-as":
                src = f"{{% {kind} '{pname}' for {r.choice(['garr', 'gs'])} as {n} %}}"
                if kind == "render":
                    names = [n, "forloop"]
            else:
                src = f"{{% {kind} '{pname}' with {self.val(enclosing)} %}}"
        elif kind == "macro":
            body = self.stmts(depth + 1, False, [n], inner_n, True)
            extra = r.choice(["", f", {self.val(enclosing)}, zz: 1", f", {m}: 2"])
            src = (f"{{% macro m{nid} {n}" + r.choice(["", f", {m}: g1"]) + f" %}}{body}{{% endmacro %}}"
                   f"{{% call m{nid} {self.val(enclosing)}{extra} %}}")
            names = [n, m, "args", "kwargs"]
        elif kind == "lambda":
            flt, form = r.choice(LAMBDA_FORMS)
            label = f"lambda@{flt}"
            src = form.format(N=n, M=m)
            names = [n, m]
        elif kind == "translate":
            if r.random() < 0.5:
                src = f"{{% translate {n}: {self.val(enclosing)} %}}T {{{{ {n} }}}}{{% endtranslate %}}"
            else:
                src = (f"{{% translate {n}: {self.val(enclosing)}, count: 2 %}}one {{{{ {n} }}}}"
                       f"{{% plural %}}many {{{{ {n} }}}} {{{{ count }}}}{{% endtranslate %}}")
                names = [n, "count"]
        else:
            src = f"{{{{ 'T %({n})s' | t: {n}: {self.val(enclosing)} }}}}"
        self.binders.add(label)
        self.probe_binder[nid] = label
        return self.probe(nid, "b", names) + src + self.probe(nid, "a", names)


PROBE_RE = re.compile(PL + r"(\d+)([ba]):(.*?)" + PR, re.S)


def o4_check(out: str) -> tuple[int, list[tuple[int, str, str]]]:
    """Pair each 'after' probe with the latest 'before' probe of the same construct.

    A construct whose probes differ is reported only when no construct that ran inside it
    (opened after its 'before' probe and already closed) differs too: the innermost one is
    the binder that did not restore the name, the enclosing ones merely see the damage."""
    pending: dict[int, tuple[str, int]] = {}
    bad: list[tuple[int, str, str]] = []
    bad_seqs: list[int] = []
    n = 0
    seq = 0
    for m in PROBE_RE.finditer(out):
        nid, side, text = int(m.group(1)), m.group(2), m.group(3)
        seq += 1
        if side == "b":
            pending[nid] = (text, seq)
        elif nid in pending:
            n += 1
            before, opened = pending.pop(nid)
            if before != text:
                if not any(s > opened for s in bad_seqs):
                    bad.append((nid, before, text))
                bad_seqs.append(opened)
    return n, bad


def run_o4(rt: Rt, seed: str, j: int, tier: str) -> None:
    ctx = rt.ctx
    rng = random.Random(f"{seed}:o4:{j}")
    g = O4Gen(rng)
    src, parts, data = g.program()
    mode = "async" if j % 2 else "sync"
    res = frame_case(rt, g.env_kind, src, parts, data, mode, own=(j % 2 == 0))
    if not res.ok:
        ctx.count("o4_render_errors")
        ctx.note(f"O4 program {seed}:{j} raised {res.err}: {src[:200]!r}")
        return
    n, bad = o4_check(res.out)
    ctx.count("O4_probe_pairs", n)
    ctx.count("O4_programs")
    for b in g.binders:
        ctx.seen("o4_binders", b)
    if n:
        ctx.nt("o4", src, sorted(parts.items()), sorted(data), mode)
    if j % 301 == 0:
        ctx.sample({"oracle": "O4", "source": src, "partials": parts, "output": res.out, "mode": mode})
    for nid, before, after in bad[:2]:
        label = g.probe_binder.get(nid, "?")
        key = f"O4:{label}:outer-not-restored"

        def still(s: str, p: dict[str, str], nid: int = nid) -> bool:
            r2 = rt.run(rt.env(g.env_kind, p), s, data, mode)
            return r2.ok and any(b[0] == nid for b in o4_check(r2.out)[1])

        small, sparts = src, parts
        if key not in rt.reported:
            rt.reported.add(key)
            small, sparts = shrink_case(src, parts, still)
        ctx.violation(
            key,
            f"probe before the {label} construct printed {before!r}, the same probe right after it printed {after!r}",
            {"oracle": "O4", "key": key, "source": small, "partials": sparts, "data": data, "env": g.env_kind,
             "mode": mode, "construct_id": nid, "minimised_from": src if small != src else None},
        )


def run_frame(rt: Rt, seed: str, j: int, tier: str) -> None:
    """O5 workload: binder nests with erroring leaves, depth-limit nesting, fault sweeps."""
    ctx = rt.ctx
    rng = random.Random(f"{seed}:frame:{j}")
    g = O4Gen(rng, errors=True)
    src, parts, data = g.program()
    mode = "async" if j % 2 else "sync"
    sub = j % 4
    if sub == 1:
        # hit the context depth limit somewhere inside the nest
        depth = rng.randint(20, 29)
        wrapper = rng.choice(["with", "with", "for", "include"])
        if wrapper == "with":
            src = "{% with zz: 1 %}" * depth + src + "{% endwith %}" * depth
        elif wrapper == "for":
            d = depth // 2
            src = "{% for zz in (1..1) %}" * d + src + "{% endfor %}" * d
        else:
            parts = dict(parts)
            d = depth // 2
            parts["deep0"] = src
            for k in range(1, d):
                parts[f"deep{k}"] = f"{{% include 'deep{k - 1}', zz: {k} %}}"
            src = f"{{% include 'deep{d - 1}' %}}"
        ctx.count("depth_limit_programs")
    elif sub == 3:
        # recursion through partials until a limit trips
        parts = dict(parts)
        body = rng.choice([
            "{% for zz in (1..1) %}{% include 'rec' %}{% endfor %}",
            "{% with zz: 1 %}{% include 'rec', a: 1 %}{% endwith %}",
            "{% render 'rec' %}",
            "{% for zz in (1..1) %}{% render 'rec' for gs as a %}{% endfor %}",
            "{{ garr | map: a => a.x | join: '' }}{% include 'rec' %}",
            "{% macro mm %}{% render 'rec' %}{% endmacro %}{% call mm %}",
        ])
        parts["rec"] = body
        src = src + body
        ctx.count("recursive_programs")
    res = frame_case(rt, g.env_kind, src, parts, data, mode, own=True)
    ctx.count("frame_programs")
    if not res.ok:
        ctx.count("frame_programs_raised")
        ctx.seen("frame_program_errors", res.err)
        ctx.nt("frame", src, sorted(parts.items()), mode)
    if g.error_leaf:
        ctx.seen("error_leaves", g.error_leaf)
    if sub in (0, 2):
        fault_sweep(rt, g.env_kind, src, parts, data, mode, cap=24 if tier == "quick" else 60,
                    both=tier != "quick", j=j)



DEPTH_CONSTRUCTS = [
    ("for", "{% for a in (1..2) %}{{ a }}{% endfor %}"),
    ("for-in-for", "{% for a in (1..2) %}{% for b in (1..2) %}{{ b }}{% endfor %}{% endfor %}"),
    ("tablerow", "{% tablerow a in (1..2) %}{{ a }}{% endtablerow %}"),
    ("with", "{% with a: 1 %}{{ a }}{% endwith %}"),
    ("include-kw", "{% include 'dq', a: 1 %}"),
    ("include-for", "{% include 'dq' for gs as a %}"),
    ("include-loop", "{% include 'dl' %}"),
    ("render-kw", "{% render 'dq', a: 1 %}"),
    ("render-for", "{% render 'dq' for gs as a %}"),
    ("macro", "{% macro dm a %}{{ a }}{% endmacro %}{% call dm 1 %}"),
    ("lambda-map", "{{ garr | map: a => a.x | join: ',' }}"),
    ("lambda-find", "{{ garr | find: a => a.x == 2 | json }}"),
    ("translate", "{% translate a: 1 %}T {{ a }}{% endtranslate %}"),
    ("t-filter", "{{ 'T %(a)s' | t: a: 1 }}"),
    ("capture-for", "{% capture a %}{% for b in (1..2) %}{{ b }}{% endfor %}{% endcapture %}{{ a }}"),
]


def run_depth_sweep(rt: Rt, spec: dict[str, Any]) -> None:
    """Every binder construct at every nesting depth around the context-depth limit: the
    ContextDepthError is raised by each extend() in turn."""
    ctx = rt.ctx
    parts = {"dq": "[{{ a }}]", "dl": "{% for b in (1..2) %}{{ b }}{% endfor %}"}
    for name, construct in DEPTH_CONSTRUCTS:
        kind = "shopify" if name == "tablerow" else "std"
        for n in range(18, 34):
            src = "{% with zz: 1 %}" * n + construct + "‹{{ a }}›" + "{% endwith %}" * n
            for mode in ("sync", "async"):
                res = frame_case(rt, kind, src, parts, GLOBALS, mode, own=True)
                ctx.count("depth_sweep_runs")
                if not res.ok:
                    ctx.count("depth_sweep_raised")
                    ctx.seen("depth_sweep_errors", f"{name}:{res.err}")


def run_diagnostics(rt: Rt) -> None:
    """Side observations that the property text does not cover (never a violation)."""
    env = rt.env("std", {"p": "{% break %}"})
    for name, src in [
        ("break at the top level of a macro body called from a caller's loop",
         "{% macro m %}{% break %}{% endmacro %}{% for x in (1..3) %}{{ x }}{% call m %}{% endfor %}"),
        ("break at the top level of a rendered partial called from a caller's loop",
         "{% for x in (1..3) %}{{ x }}{% render 'p' %}{% endfor %}"),
    ]:
        res = rt.run(env, src, {}, "sync")
        rt.ctx.note(f"diagnostic (control flow, not scope): {name}: {src!r} -> "
                    + (repr(res.out) if res.ok else res.err))


# ======================================================================================
# O4args : names bound by a construct are not visible while its own arguments are evaluated
# ======================================================================================

ARG_FORMS = ["call-positional", "call-keyword", "call-mixed", "call-excess", "macro-default", "with",
             "include-kw", "include-with-as", "include-for-as", "render-kw", "render-with-as",
             "render-for-as", "translate", "lambda-alpha"]


class ArgGen:
    """Constructs that bind SEVERAL names at once, with argument expressions that read names from
    the same pool as the names being bound (swaps / permutations).  Right before each construct
    a probe prints the argument expressions in the enclosing scope; inside the construct a probe
    prints the bound names in the same order.  The two texts must be equal."""

    def __init__(self, rng: random.Random):
        self.r = rng
        self.partials: dict[str, str] = {}
        self.nid = 0
        self.forms: dict[int, str] = {}
        self.swaps = 0

    def program(self) -> tuple[str, dict[str, str], dict[str, Any]]:
        r = self.r
        data = dict(GLOBALS)
        head = ""
        for n in POOL + ["args", "kwargs"]:
            k = r.choice(["global", "assign", "assign", "capture"])
            if k == "global":
                data[n] = f"G{n.upper()}"
            elif k == "assign":
                head += f"{{% assign {n} = 'V{n.upper()}' %}}"
            else:
                head += f"{{% capture {n} %}}C{n.upper()}{{% endcapture %}}"
        body = ""
        for _ in range(r.randint(2, 4)):
            c = self.construct()
            w = r.random()
            n = r.choice(POOL)
            if w < 0.2:
                c = f"{{% with {n}: 'W{n.upper()}' %}}{c}{{% endwith %}}"
            elif w < 0.4:
                c = f"{{% for {n} in (7..8) %}}{c}{{% endfor %}}"
            body += c
        return head + body, self.partials, data

    def exprs(self, params: list[str], k: int | None = None) -> list[str]:
        """One argument expression per bound name: mostly the name of a SIBLING parameter."""
        r = self.r
        out = []
        for i in range(len(params) if k is None else k):
            x = r.random()
            others = [q for q in params if i >= len(params) or q != params[i]]
            if x < 0.6 and others:
                out.append(r.choice(others))
                self.swaps += 1
            elif x < 0.8:
                out.append(r.choice(POOL + ["args", "kwargs"]))
            elif x < 0.9:
                out.append(r.choice(["gmap.x", "garr[0].k", "g1"]))
            else:
                out.append(r.choice(["'lit'", "7", "nil"]))
        return out

    @staticmethod
    def probe(nid: int, side: str, exprs: list[str]) -> str:
        return f"{PL}{nid}{side}:" + "|".join(f"{{{{ {e} }}}}" for e in exprs) + PR

    def construct(self) -> str:  # noqa: PLR0912, PLR0915
        r = self.r
        form = r.choice(ARG_FORMS)
        nid = self.nid
        self.nid += 1
        self.forms[nid] = form
        ps = r.sample(POOL, r.choice([2, 2, 3]))
        es = self.exprs(ps)
        before = self.probe(nid, "b", es)
        inside = self.probe(nid, "a", ps)
        if form == "call-positional":
            return (f"{{% macro am{nid} {', '.join(ps)} %}}{inside}{{% endmacro %}}{before}"
                    f"{{% call am{nid} {', '.join(es)} %}}")
        if form in ("call-keyword", "call-mixed"):
            npos = 0 if form == "call-keyword" else 1
            kw = [f"{p_}: {e}" for p_, e in zip(ps[npos:], es[npos:])]
            r.shuffle(kw)
            return (f"{{% macro am{nid} {', '.join(ps)} %}}{inside}{{% endmacro %}}{before}"
                    f"{{% call am{nid} {', '.join(es[:npos] + kw)} %}}")
        if form == "call-excess":
            # one parameter; the surplus lands in args / kwargs (names the caller may hold too)
            es = self.exprs(ps[:1] + ["args", "kwargs"], 4)
            inside = self.probe(nid, "a", [ps[0], "args[0]", "args[1]", "kwargs.zk"])
            before = self.probe(nid, "b", es)
            return (f"{{% macro am{nid} {ps[0]} %}}{inside}{{% endmacro %}}{before}"
                    f"{{% call am{nid} {es[0]}, {es[1]}, {es[2]}, zk: {es[3]} %}}")
        if form == "macro-default":
            # defaults are evaluated when the call is evaluated, in the caller's scope
            params = ps[0] + "".join(f", {p_}: {e}" for p_, e in zip(ps[1:], es[1:]))
            return (f"{{% macro am{nid} {params} %}}{inside}{{% endmacro %}}{before}"
                    f"{{% call am{nid} {es[0]} %}}")
        if form == "with":
            args = ", ".join(f"{p_}: {e}" for p_, e in zip(ps, es))
            return f"{before}{{% with {args} %}}{inside}{{% endwith %}}"
        if form in ("include-kw", "render-kw"):
            tag = form.split("-")[0]
            name = f"ap{nid}"
            self.partials[name] = inside
            return before + f"{{% {tag} '{name}', " + ", ".join(f"{p_}: {e}" for p_, e in zip(ps, es)) + " %}"
        if form in ("include-with-as", "render-with-as"):
            tag = form.split("-")[0]
            name = f"ap{nid}"
            self.partials[name] = inside
            kw = "".join(f", {p_}: {e}" for p_, e in zip(ps[1:], es[1:]))
            return before + f"{{% {tag} '{name}' with {es[0]} as {ps[0]}{kw} %}}"
        if form in ("include-for-as", "render-for-as"):
            # the bound item is not compared; the keyword arguments next to it are
            tag = form.split("-")[0]
            name = f"ap{nid}"
            self.partials[name] = self.probe(nid, "a", ps[1:])
            kw = "".join(f", {p_}: {e}" for p_, e in zip(ps[1:], es[1:]))
            return self.probe(nid, "b", es[1:]) + f"{{% {tag} '{name}' for gs as {ps[0]}{kw} %}}"
        if form == "translate":
            args = ", ".join(f"{p_}: {e}" for p_, e in zip(ps, es))
            return f"{before}{{% translate {args} %}}{inside}{{% endtranslate %}}"
        # lambda-alpha: renaming the lambda's parameters to fresh names changes nothing, also when
        # the filtered value or a free variable of the body is named like a parameter
        p1, p2 = ps[0], ps[1]
        arr = r.choice([p1, p2, "garr", r.choice(POOL)])
        # (bound with `with`, the innermost scope, so no enclosing loop or with can shadow it)
        pre, post = ("", "") if arr == "garr" else (f"{{% with {arr}: garr %}}", "{% endwith %}")
        free = r.choice([q for q in POOL if q not in (p1, p2)])  # (a free name must stay free)
        flt, body = r.choice([
            ("map", "{A}.x"), ("map", "{I}"), ("map", "{A}.k"), ("map", free),
            ("where", "{A}.x > 1"), ("reject", "{A}.x == 1"), ("sort", "{A}.k"), ("has", "{I} == 1"),
            ("find_index", "{A}.x == 2"), ("sum", "{A}.x"),
        ])
        two = flt in ("map", "has") and r.random() < 0.7
        if "{I}" in body:
            two = True

        def lam(a_: str, i_: str) -> str:
            params = f"({a_}, {i_})" if two else a_
            tail = " | map: 'k' | join: ','" if flt in ("where", "reject", "sort") else (
                " | join: ','" if flt == "map" else "")
            return f"{{{{ {arr} | {flt}: {params} => {body.format(A=a_, I=i_)}{tail} }}}}"

        self.swaps += 1
        return (pre + f"{PL}{nid}b:" + lam("zqa", "zqi") + PR + f"{PL}{nid}a:" + lam(p1, p2) + PR + post)


def args_check(out: str) -> tuple[int, list[tuple[int, str, str]]]:
    """Every 'a' probe (inside the construct) equals the latest 'b' probe (before it)."""
    latest: dict[int, str] = {}
    bad: list[tuple[int, str, str]] = []
    n = 0
    for m in PROBE_RE.finditer(out):
        nid, side, text = int(m.group(1)), m.group(2), m.group(3)
        if side == "b":
            latest[nid] = text
        elif nid in latest:
            n += 1
            if latest[nid] != text and not any(b[0] == nid for b in bad):
                bad.append((nid, latest[nid], text))
    return n, bad


def run_args(rt: Rt, seed: str, j: int, tier: str) -> None:
    ctx = rt.ctx
    rng = random.Random(f"{seed}:args:{j}")
    g = ArgGen(rng)
    src, parts, data = g.program()
    mode = "async" if j % 2 else "sync"
    res = frame_case(rt, "std", src, parts, data, mode, own=(j % 2 == 0))
    if not res.ok:
        ctx.count("o4args_render_errors")
        ctx.note(f"O4args program {seed}:{j} raised {res.err}: {src[:240]!r}")
        return
    n, bad = args_check(res.out)
    ctx.count("O4args_probe_pairs", n)
    ctx.count("O4args_programs")
    ctx.count("O4args_sibling_name_arguments", g.swaps)
    for f in g.forms.values():
        ctx.seen("o4args_forms", f)
    if n:
        ctx.nt("o4args", src, sorted(parts.items()), sorted(data), mode)
    if j % 151 == 0:
        ctx.sample({"oracle": "O4args", "source": src, "partials": parts, "output": res.out, "mode": mode})
    for nid, before, inside in bad[:2]:
        form = g.forms.get(nid, "?")
        key = f"O4args:{form}:argument-sees-sibling-binding"

        def still(s: str, p: dict[str, str], nid: int = nid) -> bool:
            r2 = rt.run(rt.env("std", p), s, data, mode)
            return r2.ok and any(b[0] == nid for b in args_check(r2.out)[1])

        small, sparts = src, parts
        if rt.key_counts.get(key, 0) < 2:
            rt.key_counts[key] = rt.key_counts.get(key, 0) + 1
            small, sparts = shrink_case(src, parts, still)
        wit = {"oracle": "O4args", "key": key, "source": small, "partials": sparts, "data": data, "env": "std",
               "mode": mode, "construct_id": nid, "minimised_from": src if small != src else None}
        Rt.trim_data(wit)
        ctx.violation(
            key,
            f"{form}: the argument expressions evaluated in the enclosing scope print {before!r}, the names "
            f"bound by the construct print {inside!r} (an argument saw a sibling's binding)",
            wit,
        )


# ======================================================================================
# O6 : render ... for — iteration independence
# ======================================================================================


def o6_regions(out: str) -> dict[str, str]:
    d: dict[str, str] = {}
    seen: dict[str, int] = {}
    for reg in regions(out):
        reg = re.sub(ML + ".*?" + MR, "", reg, flags=re.S)
        head, _, rest = reg.partition("#")
        seen[head] = seen.get(head, 0) + 1
        d[f"{head}#{seen[head]}"] = rest
    return d


def run_o6(rt: Rt, seed: str, j: int, tier: str) -> None:
    ctx = rt.ctx
    r = random.Random(f"{seed}:o6:{j}")
    alias = r.choice(POOL)
    pair = Pair(r)
    stmts = [pair._body_stmt(k) for k in range(r.randint(1, 5))]
    # the alias itself is never re-assigned by the body (that would hide the item)
    stmts = [(k, s) for k, s in stmts if not (k.split(":")[0] in ("assign", "capture") and k.endswith(":" + alias))]
    # forloop fields are printed only inside the mask: the dumps used here print names only
    stmts = [(k, DUMP_NAMES if k == "dump" else s) for k, s in stmts]
    if not stmts:
        stmts = [("read:" + alias, f"<{{{{ {alias} }}}}>")]
    items = r.sample(["i1", "i2", "i3", "i4", 5, 6, 7], r.randint(2, 4))
    perm = items[:]
    while perm == items:
        r.shuffle(perm)
    mode = "async" if j % 2 else "sync"
    head = f"{RL}{{{{ {alias} }}}}#" + f"{ML}{{{{ forloop.index }}}}/{{{{ forloop.rindex }}}}/{{{{ forloop.first }}}}/{{{{ forloop.last }}}}{MR}"
    in_loop = r.random() < 0.3

    def build(body: list[tuple[str, str]]) -> tuple[str, dict[str, str]]:
        parts = {"p": head + "".join(s for _k, s in body) + RR, "q": "(q" + DUMP_NAMES + ")"}
        root = f"{{% render 'p' for arr as {alias} %}}"
        if in_loop:
            root = "{% for zz in (1..2) %}" + root + "{% endfor %}"
        return root, parts

    def evaluate(body: list[tuple[str, str]]) -> tuple[bool, Any]:
        root, parts = build(body)
        env = rt.env("std", parts)
        outs = []
        for arr in (items, perm):
            res = rt.run(env, root, {**GLOBALS, "arr": arr}, mode)
            if not res.ok:
                return False, ("error", res.err)
            outs.append(res.out)
        a, b = o6_regions(outs[0]), o6_regions(outs[1])
        if a != b:
            return True, (outs[0], outs[1])
        return False, None

    bad, detail = evaluate(stmts)
    ctx.count("O6_order_pairs")
    for k, _s in stmts:
        ctx.seen("o6_body_kinds", k.split(":")[0])
    if detail and detail[0] == "error":
        ctx.count("o6_render_errors")
        ctx.note(f"O6 program {seed}:{j} raised {detail[1]}")
        return
    ctx.nt("o6", build(stmts), items, perm, mode)
    if not bad:
        return
    small = ddmin(stmts, lambda c: evaluate(c)[0], max_calls=60) if len(stmts) > 1 else stmts
    _b, det = evaluate(small)
    root, parts = build(small)
    kinds = "+".join(sorted({k.split(":")[0] for k, _s in small}))
    key = "render-for:state-leaks-between-iterations"
    ctx.seen("o6_leaking_body_kinds", kinds)
    ctx.violation(
        key,
        f"per-item text of render…for depends on the items rendered before it (body kinds left after "
        f"minimisation: {kinds}): order {items!r} -> {det[0]!r}, order {perm!r} -> {det[1]!r}",
        {"oracle": "O6", "key": key, "source": root, "partials": parts, "data": GLOBALS, "items": items,
         "permuted": perm, "mode": mode, "env": "std", "body_kinds": kinds},
    )


# ======================================================================================
# O5 over the shared program generator
# ======================================================================================


def run_gen(rt: Rt, seed: str, j: int, tier: str) -> None:
    from ..gen import emit as E
    from ..gen.programs import Gen

    ctx = rt.ctx
    rng = random.Random(f"{seed}:gen:{j}")
    gen = Gen(rng)
    prog = gen.program()
    data = gen.data()
    em = E.emit(prog, E.Layout(random.Random(rng.random())))
    mode = "async" if j % 2 else "sync"
    res = frame_case(rt, "std", em.source, em.partials, data, mode, own=True)
    ctx.count("generator_programs")
    if not res.ok:
        ctx.count("generator_programs_raised")
    if j % 2 == 0:
        fault_sweep(rt, "std", em.source, em.partials, data, mode, cap=10 if tier == "quick" else 60,
                    both=False, j=j)


# ======================================================================================
# framework hooks
# ======================================================================================

KINDS: dict[str, Callable[[Rt, str, int, str], None]] = {
    "pairs": run_pair, "o4": run_o4, "frame": run_frame, "o6": run_o6, "gen": run_gen, "args": run_args,
}
PER = {  # cases per shard (quick, thorough)
    "pairs": (260, 4000), "o4": (300, 6000), "frame": (150, 3000), "o6": (200, 4000), "gen": (80, 1600),
    "args": (500, 10000),
}
NSHARDS = {"pairs": 8, "o4": 2, "frame": 3, "o6": 1, "gen": 1, "args": 1}


def shards(tier: str, seed: int) -> list[dict[str, Any]]:
    specs: list[dict[str, Any]] = []
    for kind, n in NSHARDS.items():
        for i in range(n):
            specs.append({"kind": kind, "i": i, "n": n, "per": PER[kind][0 if tier == "quick" else 1]})
    for i in range(3):
        specs.append({"kind": "o3", "i": i, "n": 3})
    return specs


def floors(tier: str) -> dict[str, int]:
    k = 1 if tier == "quick" else 20
    return {
        "pairs": 1000 * k,
        "distinct_nontrivial": 1000 * k,
        "frame_node_exits": 50_000 * k,
        "frame_exceptional_exits": 500 * k,
        "frame_extend_exits": 20_000 * k,
        "frame_top_checks_after_raise": 500 * k,
        "fault_injections_raised": 500 * k,
        "lambda_scopes_pushed": 500 * k,
        "pairs_inside_overriding_block": 300 * k,
        "pairs_caller_binds_tag_derived_name": 500 * k,
        "pairs_caller_binds_partial_default_alias": 150 * k,
        "set:caller_bindings_of_tag_derived_names": 80,
        "set:partial_names": 9,
        "pairs_body_reads_by_name": 800 * k,
        "pairs_by_name_read_and_caller_binding": 400 * k,
        "set:caller_bindings_of_names_read_by_name": 120,
        "set:by_name_body_kinds": 4,
        "pairs_all_empty_data": 600 * k,
        "pairs_other_data_layers": 600 * k,
        "pairs_nested_isolation_depth_ge2": 600 * k,
        "pairs_nested_isolation_depth_ge3": 100 * k,
        "pairs_nested_isolation_all_empty_data": 300 * k,
        "set:data_layer_configs": 9,
        "set:isolation_nests": 100,
        "set:block_wrappers": 40,
        "O3_refusals": 4000,
        "O3_refusals_under_replaced_tags": 2000,
        "O3_refusals_include_later_in_block": 1500,
        "O3_cases_inside_custom_isolated_tag": 300,
        "set:o3_tag_configs": len(O3_TAG_CONFIGS),
        "depth_sweep_raised": 100,
        "O4_probe_pairs": 1000 * k,
        "O6_order_pairs": 150 * k,
        "O4args_probe_pairs": 1200 * k,
        "O4args_sibling_name_arguments": 1000 * k,
        "set:o4args_forms": len(ARG_FORMS),
        "set:o4_binders": 25,
        "set:constructs": 4,
        "set:wrappers": 8,
        "set:lambda_filters": 10,
    }


def run_shard(spec: dict[str, Any], ctx: Ctx) -> None:
    rt = Rt(ctx)
    try:
        kind = spec["kind"]
        if kind == "o3":
            run_o3(rt, spec)
            if spec["i"] == 0:
                run_depth_sweep(rt, spec)
                run_diagnostics(rt)
            return
        fn = KINDS[kind]
        seed = f"{spec['seed']}:{spec['i']}"
        for j in range(spec["per"]):
            fn(rt, seed, j, spec["tier"])
            if j % 20 == 0:
                ctx.check_deadline()
    finally:
        rt.close()


# ======================================================================================
# replay
# ======================================================================================


def replay(wit: dict[str, Any], ctx: Ctx) -> None:
    rt = Rt(ctx)
    try:
        oracle = wit.get("oracle")
        key = wit.get("key", "?")
        mode = wit.get("mode", "sync")
        kind = wit.get("env", "std")
        parts = wit.get("partials") or {}
        data = revive(wit.get("data") or {})
        print(f"replay C07 oracle={oracle} key={key} mode={mode} env={kind}")
        for n, s in parts.items():
            print(f"  partial {n!r}: {s!r}")
        env = rt.env(kind, parts, wit.get("env_globals"))
        tg = wit.get("template_globals")
        print(f"  data layers: {wit.get('data_layers', 'full')} args={data!r} env_globals={wit.get('env_globals')!r} template_globals={tg!r}")
        if oracle in ("O1", "O2"):
            outs = {}
            for name, src in wit["sources"].items():
                res = rt.run(env, src, data, mode, tglobals=tg)
                outs[name] = res.out if res.ok else "ERR:" + res.err
                print(f"  {name}: {src!r}\n     -> {outs[name]!r}")
            if oracle == "O1":
                r1, r2, r0 = regions(outs["v1"]), regions(outs["v2"]), regions(outs["bare"])
                print(f"  regions v1={r1!r} v2={r2!r} bare={r0!r}")
                raised = [n for n in ("v1", "v2") if outs[n].startswith("ERR:")]
                if raised and not any(outs[n].startswith("ERR:") for n in outs if n not in ("v1", "v2")):
                    ctx.violation(key, f"the partial raises only under the caller's locals ({raised})", wit)
                elif r1 != r2 or any(x != (r0[0] if r0 else None) for x in r1):
                    ctx.violation(key, "region differs between callers that differ only in locals", wit)
            else:
                a, b = strip_regions(outs["v1"]), outs["v1_without_tag"]
                print(f"  caller output outside the region: with tag {a!r}, without tag {b!r}")
                if a != b:
                    ctx.violation(key, "caller output outside the region changes when the tag is removed", wit)
        elif oracle in ("O3", "O3b"):
            res = rt.run(env, wit["source"], data, mode, tglobals=tg)
            print(f"  source {wit['source']!r}\n  -> ok={res.ok} err={res.err!r} out={res.out!r}")
            if oracle == "O3" and res.err != "DisabledTagError":
                ctx.violation(key, "include not refused", wit)
            if oracle == "O3b" and not res.ok:
                ctx.violation(key, "include refused after the isolated construct ended", wit)
        elif oracle == "O4":
            res = rt.run(env, wit["source"], data, mode, tglobals=tg)
            print(f"  source {wit['source']!r}\n  -> ok={res.ok} err={res.err!r} out={res.out!r}")
            n, bad = o4_check(res.out) if res.ok else (0, [])
            print(f"  probe pairs={n} mismatches={bad!r}")
            if bad:
                ctx.violation(key, f"probe before {bad[0][1]!r} != probe after {bad[0][2]!r}", wit)
        elif oracle == "O4args":
            res = rt.run(env, wit["source"], data, mode, tglobals=tg)
            print(f"  source {wit['source']!r}\n  -> ok={res.ok} err={res.err!r} out={res.out!r}")
            n, bad = args_check(res.out) if res.ok else (0, [])
            print(f"  probe pairs={n} mismatches={bad!r}")
            if bad:
                ctx.violation(key, f"arguments in the enclosing scope {bad[0][1]!r} != bound names {bad[0][2]!r}", wit)
        elif oracle == "O6":
            outs = []
            for arr in (wit["items"], wit["permuted"]):
                res = rt.run(env, wit["source"], {**data, "arr": arr}, mode, tglobals=tg)
                outs.append(res.out if res.ok else "ERR:" + res.err)
                print(f"  arr={arr!r} -> {outs[-1]!r}")
            a, b = o6_regions(outs[0]), o6_regions(outs[1])
            print(f"  per-item text (forloop masked): {a!r} vs {b!r}")
            if a != b:
                ctx.violation(key, "per-item text depends on iteration order", wit)
        else:  # O5
            fault = wit.get("fault")
            plan = FaultPlan(*fault) if fault else None
            res = rt.run(env, wit["source"], data, mode, own=bool(wit.get("own")), plan=plan, tglobals=tg)
            print(f"  source {wit['source']!r}\n  -> ok={res.ok} err={res.err!r}")
            for k, what, detail in res.events:
                print(f"  monitor event {k}: {what} {detail}")
                ctx.violation(k, what, wit)
    finally:
        rt.close()
