"""C02 — parsing and rendering are total over the LiquidError error model.

Monitor: exception-class monitor around from_string / render / render_async, the three
message methods of every LiquidError caught, and a logical-step budget (PY_START count).
"""

from __future__ import annotations

import itertools
import os
import random
import re
import traceback
from typing import Any

from ..core import Ctx
from ..core import REPO_DIR
from ..core import safe_repr
from ..gen import corpus
from ..instr.sched import drive
from ..instr.steps import StepBudgetExceeded
from ..instr.steps import StepCounter
from ..minimize import ddmin_str

ID = "C02"
LEVEL = "exploration"
RULE = (
    "cases = (a) every prefix / single-character deletion / duplication / substitution "
    "(sampled in quick) of each compliance-corpus template, rendered with the case's own "
    "data and partials; (b) all strings up to a length bound over a Liquid-biased alphabet "
    "appended to markup openers; (c) filter/tag skeleton programs rendered against "
    "type-confused data (nan, inf, 10**400, negative sizes, wrong containers, depth-60 "
    "nesting), sync and async. distinct = hash of (source, data, mode); non-trivial = the "
    "plus programs from the shared typed grammar with every free variable bound to a hostile "
    "value; text differs from every corpus template and the lexer got past the first character "
    "(the call either parsed or raised from inside liquid2)."
)
ASSUMPTIONS = [
    "block nesting is bounded by the generators so RecursionError is not the subject "
    "(counted separately, never a violation)",
    "regex back-tracking inside one re.match is invisible to the step counter; only the "
    "wall-clock watchdog (inconclusive) covers it",
    "step budget B = 4000*(len(sources)+size(data)+1) + 400*loop_iteration_limit; limits "
    "loop=2000, output=200000 bytes, context depth 30 configured on an Environment subclass",
]

LOOP_LIMIT = 2000


def _envs():
    from liquid2 import DictLoader
    from liquid2 import Environment

    class LimEnv(Environment):
        loop_iteration_limit = LOOP_LIMIT
        output_stream_limit = 200_000
        local_namespace_limit = 2_000_000

    class LimEnvShorthand(LimEnv):
        shorthand_indexes = True

    # the environment with the optional tags and filters of docs/optional_tags.md and
    # docs/optional_filters.md (tablerow, base64_*)
    from liquid2.shopify import Environment as ShopifyEnvironment

    class LimEnvShopify(ShopifyEnvironment):
        loop_iteration_limit = LOOP_LIMIT
        output_stream_limit = 200_000
        local_namespace_limit = 2_000_000

    return [LimEnv, LimEnvShorthand, LimEnvShopify], DictLoader


def _size(o: Any, depth: int = 0) -> int:
    if depth > 80:
        return 1
    if isinstance(o, str):
        return len(o) + 1
    if isinstance(o, int) and not isinstance(o, bool):
        return max(1, o.bit_length() // 3)
    if isinstance(o, dict):
        return 1 + sum(_size(k, depth + 1) + _size(v, depth + 1) for k, v in o.items())
    if isinstance(o, (list, tuple)):
        return 1 + sum(_size(v, depth + 1) for v in o)
    return 1


HELPER_MODULES = ("limits", "filter", "stringify", "utils")
_SHORTHAND_RELEVANT = re.compile(r"\.\s*\d")
_SHOPIFY_RELEVANT = re.compile(r"tablerow|base64")
# a range one of whose bounds is a variable of the skeleton
_VAR_IN_RANGE = re.compile(r"\([^()]*\b[abc]\b[^()]*\.\.[^()]*\)|\([^()]*\.\.[^()]*\b[abc]\b[^()]*\)")


def _innermost(tb) -> str:  # noqa: ANN001
    """Mechanism location: innermost liquid2 frame; for shared helper modules the
    calling frame is appended so different call sites get different keys."""
    root = os.path.join(os.path.realpath(REPO_DIR), "liquid2") + os.sep
    frames = []
    for fs in traceback.extract_tb(tb):
        fn = fs.filename
        if not fn.startswith(root):
            fn = os.path.realpath(fn)
        if fn.startswith(root):
            frames.append((fn[len(root) :].removesuffix(".py").replace(os.sep, "."), fs.name))
    if not frames:
        return "<outside-liquid2>"
    mod, fn = frames[-1]
    key = f"{mod}.{fn}"
    if mod.split(".")[0] in HELPER_MODULES:
        for m2, f2 in reversed(frames[:-1]):
            if m2.split(".")[0] not in HELPER_MODULES and f2 != "wrapper":
                key += f"<{m2}.{f2}"
                break
    return key


class Runner:
    def __init__(self, ctx: Ctx):
        from liquid2.exceptions import LiquidError

        self.ctx = ctx
        self.LiquidError = LiquidError
        self.variants, self.DictLoader = _envs()
        self.LimEnv = self.variants[0]
        self.variant = 0  # index into self.variants (1 = shorthand_indexes on)
        self.sc = StepCounter().start()
        self.corpus_sources = {c["template"] for c in corpus.cases()}
        self._envcache: dict[int, Any] = {}

    def env_for(self, templates: dict[str, str]):
        k = (id(templates), self.variant)
        e = self._envcache.get(k)
        if e is None or e[1] is not templates:
            if len(self._envcache) > 64:
                self._envcache.clear()
            e = (self.variants[self.variant](loader=self.DictLoader(templates)), templates)
            self._envcache[k] = e
        return e[0]

    # returns a violation key or None
    def execute(
        self, source: str, data: dict[str, Any], templates: dict[str, str], mode: str,
        record: bool = True,
    ) -> str | None:
        ctx = self.ctx
        sc = self.sc
        env = self.env_for(templates)
        budget = 4000 * (
            len(source) + sum(len(t) for t in templates.values()) + _size(data) + 1
        ) + 400 * LOOP_LIMIT
        key = None
        what = ""
        err = None
        reached = False
        sc.reset(budget)
        try:
            t = env.from_string(source)
            reached = True
            if mode == "async":
                drive(t.render_async(**data))
            else:
                t.render(**data)
            if record:
                ctx.count("ok")
        except self.LiquidError as e:
            err = e
            reached = True
        except StepBudgetExceeded as e:
            key = f"step-budget-exceeded@{_innermost(e.__traceback__)}"
            what = (f"more than {budget} function activations for an input of "
                    f"{len(source)} characters")
        except RecursionError:
            if record:
                ctx.count("recursion_error_excluded")
            reached = True
        except Exception as e:  # noqa: BLE001
            reached = True
            key = f"{type(e).__name__}@{_innermost(e.__traceback__)}"
            what = f"non-LiquidError escaped: {type(e).__name__}: {str(e)[:120]}"
            if isinstance(e, ValueError) and "for integer string conversion" in str(e):
                # one mechanism, many call sites: the interpreter's int <-> str digit limit
                key = f"int-str-digit-limit@{_innermost(e.__traceback__)}"
        finally:
            steps = sc.disarm()
        if record:
            ctx.mx("max:steps_per_unit_x100", steps * 100 // max(1, budget // 4000))
        if err is not None:
            if record:
                ctx.seen("liquid_error_classes", type(err).__name__)
                ctx.count("liquid_errors")
            for meth in ("__str__", "detailed_message", "context"):
                try:
                    getattr(err, meth)()
                    if record:
                        ctx.count("message_method_calls")
                except Exception as e2:  # noqa: BLE001
                    key = f"msg:{type(e2).__name__}@{_innermost(e2.__traceback__)}"
                    what = f"{type(err).__name__}.{meth}() raised {type(e2).__name__}: {e2}"
                    break
        if record:
            ctx.ev()
            if reached and source not in self.corpus_sources:
                ctx.nt(source, safe_repr(data) if data else "", mode)
        if key and record:
            wit = {"source": source, "data": data, "templates": templates, "mode": mode}
            if key not in ctx.violations and len(source) <= 4000:
                try:
                    small = ddmin_str(
                        source,
                        lambda s: self.execute(s, data, templates, mode, record=False) == key,
                        max_calls=300,
                    )
                    wit = {"source": small, "data": data, "templates": templates,
                           "mode": mode, "minimised_from": source}
                except Exception:  # noqa: BLE001
                    pass
            wit["variant"] = self.variant
            ctx.violation(key, what, wit)
        if record and self.variant == 0 and _SHORTHAND_RELEVANT.search(source):
            # a dot followed by a digit scans differently under shorthand_indexes = True:
            # the same input again under that configuration
            self.variant = 1
            try:
                ctx.count("shorthand_config_runs")
                k2 = self.execute(source, data, templates, mode)
            finally:
                self.variant = 0
            key = key or k2
        if record and self.variant == 0 and _SHOPIFY_RELEVANT.search(source):
            # optional tags / filters exist only in the Shopify-flavoured environment
            self.variant = 2
            try:
                ctx.count("shopify_config_runs")
                k3 = self.execute(source, data, templates, mode)
            finally:
                self.variant = 0
            key = key or k3
        return key


# ---------------------------------------------------------------------------
# hostile data
# ---------------------------------------------------------------------------


def deep(n: int) -> Any:
    x: Any = "leaf"
    for i in range(n):
        x = [x] if i % 2 else {"k": x}
    return x


HOSTILE: list[Any] = [
    None, True, False, 0, 1, -1, 2, -7, 2**63, -(2**63), 10**400, -(10**400), 10**5000, -(10**4400),
    "9" * 4299, "9" * 4301, "-" + "7" * 5000,
    0.0, -0.0, 1.5, -2.5, 1e308, -1e308, 5e-324, float("nan"), float("inf"), float("-inf"),
    "", " ", "a", "abc", "1", "-1", "1.5", "1e3", "1e400", "-1e400", "nan", "inf", "-inf",
    "Infinity", "50%", "%s", "%(x)s", "{0}", "0x10", "１２", "٣", "1_000", "--1", "+5", " 7 ",
    "a,b", "<b>x</b>", "&lt;", "\ud800", "\x00", "\n", "é" * 3, "%", "%%", "%(", "%(x",
    "now", "today", "2020-13-45", "12345678901234567890",
    # characters that str.isdigit / isnumeric / isdecimal classify differently from int()
    "²", "①", "⑴", "2024²", "₂", "½", "Ⅷ", "〇", "٣٤", "๓", "𝟙𝟚", "1²3", "²²²²²²²²²²",
    [], [1, 2, 3], ["abc"], ["a", 1, None, 2.5], [[1, 2], [3]], [None], [{}], [{"k": 1}, {"k": "x"}, {}],
    [float("nan")], [10**400], [-1, "b", [2]], ["1", "2", "x"], [{"k": [1]}, {"k": {"z": 1}}],
    [float("inf"), float("-inf")], ["1e999999999", 1], ["NaN", "sNaN", 1], ["Infinity", "-Infinity"],
    [{"k": "sNaN"}, {"k": "Infinity"}, {"k": "-Infinity"}], [{"k": float("inf")}, {"k": float("-inf")}],
    "<![>", "<![foo bar]>", "<!x", "<![CDATA[", "<?x", "</", "<a b='", "&#x;", "&#99999999999;", "%zz", "%e9%",
    {}, {"a": 1}, {"size": -1, "first": None, "last": []}, {"k": {"k": {"k": 1}}},
    {"title": "x", "x": 1}, deep(60), {"a": [1, {"b": None}]},
]


def _big(v: Any) -> bool:
    """Would this value make a range astronomically long?"""
    if isinstance(v, bool):
        return False
    if isinstance(v, (int, float)):
        return v != v or abs(v) > 50_000
    if isinstance(v, str):
        try:
            f = float(v)
        except (ValueError, OverflowError):
            return False
        return f != f or abs(f) > 50_000
    return False


RANGE_SAFE = [v for v in HOSTILE if not _big(v)]


FILTERS = [
    "abs", "append", "at_least", "at_most", "capitalize", "ceil", "compact", "concat",
    "currency", "date", "datetime", "decimal", "default", "divided_by", "downcase", "escape",
    "escape_once", "find", "find_index", "first", "floor", "gettext", "has", "join", "json",
    "last", "lstrip", "map", "minus", "modulo", "money", "money_with_currency",
    "money_without_currency", "money_without_trailing_zeros", "newline_to_br", "ngettext",
    "npgettext", "pgettext", "plus", "prepend", "reject", "remove", "remove_first",
    "remove_last", "replace", "replace_first", "replace_last", "reverse", "round", "rstrip",
    "safe", "size", "slice", "sort", "sort_natural", "sort_numeric", "split", "strip",
    "strip_html", "strip_newlines", "sum", "t", "times", "truncate", "truncatewords", "uniq",
    "unit", "upcase", "url_decode", "url_encode", "where",
    "base64_encode", "base64_decode", "base64_url_safe_encode", "base64_url_safe_decode",
]

# keyword arguments accepted by some filters (name -> kwargs spelled with variable b/c)
KW = {
    "default": ["allow_false: b"],
    "json": ["indent: b"],
    "t": ["count: b", "plural: b", "context: b", "x: b", "count: b, plural: c", "context: b, count: c"],
    "gettext": ["x: b"],
    "ngettext": ["x: c"],
    "currency": ["group_separator: b", "currency_code: b", "format: b", "locale: b"],
    "money": ["currency_code: b"],
    "decimal": ["group_separator: b", "format: b", "locale: b", "input_locale: b"],
    "datetime": ["format: b", "datetime_format: b", "timezone: b", "input_timezone: b", "locale: b"],
    "unit": ["denominator: b", "denominator_unit: c", "length: b", "format: b", "locale: b"],
}

LAMBDA_FILTERS = ["map", "where", "reject", "find", "find_index", "has", "sort",
                  "sort_natural", "sort_numeric", "uniq", "compact", "sum"]

SKELETONS = [
    "{% for x in a limit: b offset: c %}{{ x }}{% endfor %}",
    "{% for x in a reversed limit: b %}{{ forloop.index }}{{ x }}{% else %}e{% endfor %}",
    "{% for x in (a..b) %}{{ x }}{% endfor %}",
    "{% for x in (b..c) offset: continue %}{{ x }}{% endfor %}{% for x in (b..c) offset: continue %}{{ x }}{% endfor %}",
    "{{ (a..b) | join: ',' | truncate: 50 }}",
    "{% assign r = (a..b) %}{{ r | size }}",
    "{% if a < b %}lt{% elsif a == b %}eq{% else %}o{% endif %}",
    "{% if a contains b %}y{% endif %}{% if b in a %}z{% endif %}",
    "{% if a >= b and b <= c or a != c %}y{% endif %}",
    "{% unless a > b %}u{% endunless %}",
    "{% case a %}{% when b %}B{% when c, a %}C{% else %}E{% endcase %}",
    "{% cycle a, b, c %}{% cycle a, b, c %}{% cycle a: b, c %}",
    "{{ a[b] }}{{ a[b][c] }}{{ a.first }}{{ a.last }}{{ a.size }}{{ b.size }}",
    "{{ a[b].c }}{{ c[a] }}{{ a['k'] }}{{ a[0] }}{{ a[-1] }}",
    "{{ a if b else c }}{{ a | default: b if c else a | append: b }}",
    "{% if a or b %}o{% endif %}{% if a and b %}n{% endif %}{% if not a %}x{% endif %}{{ a if b or c else b }}",
    "{% assign z = a | plus: b %}{{ z }}{% capture y %}{{ a }}{{ b }}{% endcapture %}{{ y | size }}",
    "{% increment a %}{% decrement a %}{{ a }}",
    "{% with x: a, y: b %}{{ x }}{{ y }}{% endwith %}",
    "{% macro m x, y: b %}{{ x }}{{ y }}{{ args }}{{ kwargs }}{% endmacro %}{% call m a, b, c, z: a %}",
    "{% include 'p' with a as x %}{% include 'p' for a as x %}",
    "{% render 'p' with a as x %}{% render 'p' for a as x %}{% render 'p', x: b %}",
    "{% include a %}", "{% render 'q' for a %}", "{% include b with c %}",
    "{{ 'x${a}y${b | upcase}' }}{{ \"${a[b]}\" | size }}",
    "{{ a, b, c | join: '-' }}{% assign arr = a, b %}{{ arr | size }}",
    "{% for x in a, b, c %}{{ x }}{% endfor %}",
    "{% translate x: a, count: b %}Hello {{ x }}{% plural %}Hellos {{ x }} {{ count }}{% endtranslate %}",
    "{% translate context: a, count: b %}One{% plural %}Many{% endtranslate %}",
    "{% liquid\nassign z = a | times: b\necho z\nfor i in a\n  echo i\nendfor %}",
    "{% for i in a %}{% for j in b %}{% for k in c %}{{ i }}{{ j }}{{ k }}{% endfor %}{% endfor %}{% endfor %}",
    "{% for i in a %}{{ forloop.parentloop.index }}{{ forloop.rindex0 }}{% if i == b %}{% break %}{% endif %}{% continue %}{% endfor %}",
    "{% for pair in a %}{{ pair[0] }}={{ pair[1] }}{% endfor %}",
    "{{ a | sort: b | map: c | join: a }}",
    "{{ a.b.c.d }}{{ a[b][c][a] }}",
    "{{ a | slice: b, c }}{{ a | truncate: b, c }}{{ a | truncatewords: b, c }}{{ a | round: b }}",
    "{{ a | date: b }}{{ b | date: '%Y' }}{{ 'now' | date: b }}",
    "{% assign x = a | split: b %}{{ x | join: c }}{{ x | first }}",
    "{{ a | replace: b, c }}{{ a | remove: b }}{{ a | append: b | prepend: c }}",
    "{% assign translations = a %}{{ 'x' | t }}{% translate %}y{% endtranslate %}{{ 'p' | ngettext: 'q', b }}",
    "{% for i in a %}{% for j in forloop %}{{ j }}{% endfor %}{% if forloop == forloop %}y{% endif %}{% if forloop == b %}n{% endif %}{{ forloop }}{{ forloop | size }}{% endfor %}",
    "{% for i in a %}{{ forloop | first }}{{ forloop | sort }}{{ forloop | map: 'x' }}{{ forloop[b] }}{{ forloop.parentloop | json }}{% endfor %}",
    "{% assign now = a %}{% assign today = b %}{{ now }}{{ today | date: c }}{% assign forloop = a %}{% for i in b %}{{ forloop.index }}{% endfor %}",
    # membership in a range (lazy, never materialised) of every kind of value
    "{% if (1..5) contains a %}y{% endif %}{% if b in (1..5) %}z{% endif %}{% assign r = (1..3) %}{% unless r contains c %}w{% endunless %}",
    "{{ 'p' if (0..4) contains a else 'q' }}{{ (1..4) | where: i => (1..5) contains b | size }}{% case true %}{% when c in (2..3) %}k{% endcase %}",
    # tablerow (optional tag): column counts, limits and offsets of every kind; the loop drop as a value
    "{% tablerow x in a cols: b limit: c %}{{ x }}{{ tablerowloop.col }}{{ tablerowloop.row }}{% endtablerow %}",
    "{% tablerow x in a cols: c offset: b reversed %}{{ tablerowloop.col_first }}{{ tablerowloop.col_last }}{{ tablerowloop.index0 }}{% endtablerow %}",
    "{% tablerow x in (a..b) cols: c %}{{ x }}{% endtablerow %}{% tablerow x in (1..4) cols: a limit: b offset: c %}{{ x }}{% endtablerow %}",
    "{% tablerow x in a %}{% for k in tablerowloop %}{{ k }}{% endfor %}{{ tablerowloop }}{{ tablerowloop | size }}{{ tablerowloop | first }}{% endtablerow %}",
    "{% tablerow x in a %}{% if tablerowloop == tablerowloop %}y{% endif %}{% if tablerowloop == b %}n{% endif %}{{ tablerowloop[b] }}{{ tablerowloop | sort }}{{ tablerowloop | map: 'x' }}{% endtablerow %}",
    "{% tablerow x in a cols: 2 %}{% tablerow y in b cols: c %}{{ y }}{% endtablerow %}{% for i in c %}{{ tablerowloop.col }}{{ forloop.parentloop }}{% break %}{% endfor %}{% endtablerow %}",
    # translate blocks whose message text ends up a hostile printf format (quoted variable names
    # that smuggle specifiers, stray and doubled percent signs)
    "{% translate %}{{ ['x)s %s ('] }}{% endtranslate %}", "{% translate %}{{ [\"%d\"] }} {{ ['a)d %(b'] }}{% endtranslate %}",
    "{% translate x: a %}100% {{ x }} %s %(x)d %%{% endtranslate %}", "{% translate x: a, count: b %}{{ x }} %{% plural %}{{ ['x)r %c %('] }} {{ count }}{% endtranslate %}",
    "{% translate %}{{ ['x)5.2f'] }}{{ ['y)*d'] }}{{ ['z)c'] }}{% endtranslate %}", "{{ '%(a)s %s %d %(b)c' | t: a: a, b: b }}{{ a | t: x: b }}",
    # inheritance tags where they do not belong
    "{% include 'mx' %}{% call mm %}", "{% macro mm %}{% extends 'p' %}{% endmacro %}x{% call mm %}y",
    "{% capture z %}{% extends 'p' %}{% endcapture %}{{ z }}", "{% for i in a %}{% block bb %}{{ i }}{% endblock %}{% extends 'p' %}{% endfor %}",
    "{% render 'mx' %}{% call mm %}{% with q: a %}{% extends 'blk' %}{% endwith %}", "{% extends 'blk' %}{% block b1 %}{% include 'mx' %}{% call mm %}{{ block.super }}{% endblock %}",
    # template strings (interpolated expressions) in every position that takes an expression
    "{% cycle 'x${a}', b %}{% cycle \"${b | upcase}\", 'y${c}' %}{% cycle g: 'p${b}', c %}{% cycle 'x${a}', b %}",
    "{% case 'k${a}' %}{% when 'k${b}', \"k${c}\" %}w{% else %}e{% endcase %}",
    "{% for x in 'a${b}', \"${c}\" %}{{ x }}{% endfor %}{% with v: '${a}-${b}' %}{{ v }}{% endwith %}",
    "{% include 'p' with '${a}' as x %}{% render 'p', x: \"<${b}>\" %}{% include 'p', x: '${c}' %}",
    "{% macro m x: 'd${a}' %}{{ x }}{% endmacro %}{% call m %}{% call m '${b}${c}' %}",
    "{% translate x: '${a}', count: b %}T {{ x }}{% endtranslate %}{{ '${a}' | t: y: '${b}' }}",
    "{% if '${a}' == \"${b}\" or '${c}' contains '${a}' %}t{% endif %}{{ '${a}' if '${b}' else '${c}' }}",
    "{{ a | where: 'k', '${b}' | where: x => x.k == '${c}' | join: '${a}' }}{{ a[\"${b}\"] }}",
    "{% assign z = '${a}${b}' | append: \"${c}\" %}{% capture y %}${a}{{ '${z}' }}{% endcapture %}{{ y }}{% echo '${a | default: \"${b}\"}' %}",
    "{% for x in a limit: '${b}' offset: \"${c}\" %}{{ x }}{% endfor %}{% unless '${a}' %}u{% endunless %}",
]
SKELETON_PARTIALS = {
    "mx": "{% macro mm %}{% extends 'p' %}{% endmacro %}",
    "blk": "<{% block b1 %}{{ a }}{% endblock %}{% block b2 %}{% endblock %}>",
    "p": "[{{ x }}{{ p }}]",
    "q": "{{ q }}{{ forloop.index }}{% for i in q %}{{ i }}{% endfor %}",
}


def filter_programs() -> list[str]:
    progs = []
    for f in FILTERS:
        progs.append(f"{{{{ a | {f} }}}}")
        progs.append(f"{{{{ a | {f}: b }}}}")
        progs.append(f"{{{{ a | {f}: b, c }}}}")
        progs.append(f"{{{{ a | {f}: b, c, a }}}}")
        for kw in KW.get(f, []):
            progs.append(f"{{{{ a | {f}: {kw} }}}}")
            progs.append(f"{{{{ a | {f}: c, {kw} }}}}")
    for f in LAMBDA_FILTERS:
        progs.append(f"{{{{ a | {f}: x => x.k }}}}")
        progs.append(f"{{{{ a | {f}: x => x[b] }}}}")
        progs.append(f"{{{{ a | {f}: (x, i) => x.k == b }}}}")
        progs.append(f"{{{{ a | {f}: x => x }}}}")
        progs.append(f"{{{{ a | {f}: x => x < b }}}}")
    return progs


ALPHABET = "{%}#|:,.'\"[]()-~$\\a1 \n"
OPENERS = ["", "{{", "{{ ", "{%", "{% ", "{{ ['a']", "{% if [a]", "{{ a.b",
           # the argument grammar of every other tag
           "{% macro m ", "{% macro m a", "{% call m ", "{% with ", "{% with a", "{% cycle ", "{% cycle a",
           "{% include 'p' ", "{% include 'p' with a", "{% render 'p' ", "{% render 'p' for a", "{% extends ",
           "{% block ", "{% translate ", "{% translate a", "{% increment ", "{% echo ", "{% unless ",
           "{% capture ", "{% for x in a ", "{% elsif ", "{% when ", "{% liquid\nassign x = ", "{% liquid\nfor x in ",
           "{{ a | f: k", "{{ a if ", "{{ a if b else ", "{{ (a..", "{{ a | where: (x, i) => ",
           "{{ a | map: k: 1 =>", "{{ a | map: k: 'x' => ", "{{ a | where: (", "{{ a | map: x =", "{{ a | sort: (x) => x", "{{ a", "{{ a | f: ", "{% if ", "{% for x in ",
           "{% assign x = ", "{{ 'x", "{{ \"${", "{% liquid ", "{# ", "{% raw %}", "{{ (1..",
           "{% case a %}{% when ", "{{ a[", "{% comment %}", "{{ a | map: i => "]
CLOSERS = ["", " }}", " %}"]


# ---------------------------------------------------------------------------


def shards(tier: str, seed: int) -> list[dict[str, Any]]:
    specs: list[dict[str, Any]] = []
    nm = 10 if tier == "quick" else 32
    for i in range(nm):
        specs.append({"kind": "mutants", "i": i, "n": nm})
    ns = 3 if tier == "quick" else 16
    for i in range(ns):
        specs.append({"kind": "short", "i": i, "n": ns})
    nc = 3 if tier == "quick" else 16
    for i in range(nc):
        specs.append({"kind": "confused", "i": i, "n": nc})
    specs.append({"kind": "rangeprobe"})
    specs.append({"kind": "numlit"})
    specs.append({"kind": "depth"})
    ng = 5 if tier == "quick" else 16
    for i in range(ng):
        specs.append({"kind": "genconf", "i": i, "n": ng, "per": 1200 if tier == "quick" else 12000})
    return specs


def floors(tier: str) -> dict[str, int]:
    k = 1 if tier == "quick" else 10
    return {
        "evaluations": 100_000 * k,
        "set:liquid_error_classes": 5,
        "message_method_calls": 10_000 * k,
        "ok": 10_000 * k,
        "shorthand_config_runs": 10_000 * k,
        "depth_limit_renders": 900,
        "skeleton_programs_that_parse": 400, "cpu_time_probes": 6, "shopify_config_runs": 2000 * k,
    }


def run_shard(spec: dict[str, Any], ctx: Ctx) -> None:
    r = Runner(ctx)
    try:
        kind = spec["kind"]
        if kind == "mutants":
            _mutants(r, spec, ctx)
        elif kind == "short":
            _short(r, spec, ctx)
        elif kind == "confused":
            _confused(r, spec, ctx)
        elif kind == "rangeprobe":
            _rangeprobe(r, spec, ctx)
        elif kind == "genconf":
            _genconf(r, spec, ctx)
        elif kind == "numlit":
            _numlit(r, spec, ctx)
        elif kind == "depth":
            _depth(r, spec, ctx)
    finally:
        r.sc.stop()


def _mutants(r: Runner, spec: dict[str, Any], ctx: Ctx) -> None:
    tier = spec["tier"]
    rng = random.Random(f"{spec['seed']}:mut:{spec['i']}")
    cases = corpus.cases()
    sub_rate = 0.05 if tier == "quick" else 1.0
    ins_rate = 0.0 if tier == "quick" else 0.25
    for ci, c in enumerate(cases):
        if ci % spec["n"] != spec["i"]:
            continue
        src = c["template"]
        data = c["data"]
        tpls = c["templates"]
        n = 0
        gens = [corpus.prefixes(src), corpus.deletions(src), corpus.duplications(src)]
        for lbl, m in itertools.chain(*gens):
            mode = "async" if n % 3 == 2 else "sync"
            n += 1
            r.execute(m, data, tpls, mode)
        for lbl, m in corpus.substitutions(src):
            if sub_rate >= 1.0 or rng.random() < sub_rate:
                r.execute(m, data, tpls, "sync" if rng.random() < 0.7 else "async")
        if ins_rate:
            for lbl, m in corpus.insertions(src):
                if rng.random() < ins_rate:
                    r.execute(m, data, tpls, "sync")
        # partials mutated too (the root stays intact)
        for name, psrc in list(tpls.items())[:3]:
            for lbl, m in itertools.chain(corpus.prefixes(psrc), corpus.deletions(psrc)):
                t2 = dict(tpls)
                t2[name] = m
                r.execute(src, data, t2, "sync")
        ctx.count("corpus_templates_mutated")
    ctx.sample({"kind": "mutant", "of": c["name"], "source": m})


def _short(r: Runner, spec: dict[str, Any], ctx: Ctx) -> None:
    tier = spec["tier"]
    rng = random.Random(f"{spec['seed']}:short:{spec['i']}")
    maxlen = 3 if tier == "quick" else 4
    data = {"a": [1, {"k": "v"}, "s"], "f": "x", "x": 3}
    tpls: dict[str, str] = {}
    idx = 0
    last = ""
    for L in range(0, maxlen + 1):
        for tup in itertools.product(ALPHABET, repeat=L):
            body = "".join(tup)
            for oi, op in enumerate(OPENERS):
                idx += 1
                if idx % spec["n"] != spec["i"]:
                    continue
                # full length only for a sampled subset of openers to bound the run
                if L == maxlen and rng.random() > (0.12 if tier == "quick" else 0.5):
                    continue
                for cl in CLOSERS if L < maxlen else CLOSERS[:1]:
                    last = op + body + cl
                    r.execute(last, data, tpls, "sync")
    ctx.sample({"kind": "short", "source": last})


def _confused(r: Runner, spec: dict[str, Any], ctx: Ctx) -> None:
    tier = spec["tier"]
    rng = random.Random(f"{spec['seed']}:conf:{spec['i']}")
    progs = filter_programs() + SKELETONS
    per = 60 if tier == "quick" else 600
    tpls = SKELETON_PARTIALS
    last = None
    for pi, p in enumerate(progs):
        if pi % spec["n"] != spec["i"]:
            continue
        r.variant = 2 if _SHOPIFY_RELEVANT.search(p) else 0
        try:
            r.env_for(tpls).from_string(p)
            ctx.count("skeleton_programs_that_parse")
        except Exception:  # noqa: BLE001
            ctx.count("skeleton_programs_rejected_at_parse")
            ctx.note(f"skeleton rejected at parse time: {p[:80]}")
        finally:
            r.variant = 0
        # ranges are lazy; materialising an astronomically long one is a separate,
        # explicitly probed mechanism (see _range_probe), not part of this sweep
        pool = RANGE_SAFE if _VAR_IN_RANGE.search(p) else HOSTILE
        nvars = sum(1 for v in "abc" if v in p)
        # one-variable exhaustive, then sampled tuples
        combos: list[tuple[Any, Any, Any]] = []
        for v in pool:
            combos.append((v, rng.choice(pool), rng.choice(pool)))
        for _ in range(per):
            combos.append((rng.choice(pool), rng.choice(pool), rng.choice(pool)))
        if nvars >= 2:
            for v in pool:
                combos.append((rng.choice(pool), v, rng.choice(pool)))
                combos.append((rng.choice(pool), rng.choice(pool), v))
        for j, (a, b, c) in enumerate(combos):
            data = {"a": a, "b": b, "c": c}
            last = (p, data)
            r.execute(p, data, tpls, "async" if j % 4 == 3 else "sync")
        ctx.count("skeleton_programs")
    # corpus templates with one variable replaced by a hostile value
    cases = [c for c in corpus.valid_cases() if c["data"]]
    for ci, c in enumerate(cases):
        if ci % spec["n"] != spec["i"]:
            continue
        for k in list(c["data"])[:4]:
            pool = RANGE_SAFE if ".." in c["template"] else HOSTILE
            for v in rng.sample(pool, 12 if tier == "quick" else min(60, len(pool))):
                d = dict(c["data"])
                d[k] = v
                r.execute(c["template"], d, c["templates"], "sync")
    if last:
        ctx.sample({"kind": "confused", "source": last[0], "data": last[1]})


def _depth(r: Runner, spec: dict[str, Any], ctx: Ctx) -> None:
    """Renders that reach the context depth limit (30) exactly at each kind of scope push:
    directly nested block tags, and self-including / self-rendering partials that walk
    nested data, with the refusal landing on a for / with / capture / tablerow / macro call /
    include / render at every depth around the limit.  Only LiquidErrors may come out."""
    wraps = {
        "for": ("{% for x in a %}", "{% endfor %}"),
        "with": ("{% with v: a %}", "{% endwith %}"),
        "if": ("{% if a %}", "{% endif %}"),
        "capture": ("{% capture c %}", "{% endcapture %}{{ c }}"),
        "case": ("{% case 1 %}{% when 1 %}", "{% endcase %}"),
        "unless": ("{% unless b %}", "{% endunless %}"),
    }
    data = {"a": [1], "b": False, "t": {"k": 1, "kids": [{"k": 2, "kids": []}]}}
    n = 0
    for kind, (o, c) in wraps.items():
        for depth in range(24, 36):
            for inner in ("{{ x }}", "{% for y in a %}{{ y }}{% endfor %}", "{% with w: 1 %}{{ w }}{% endwith %}",
                          "{% include 'leaf' %}", "{% render 'leaf' %}"):
                src = o * depth + inner + c * depth
                for mode in ("sync", "async"):
                    r.execute(src, data, DEPTH_PARTIALS, mode)
                    n += 1
    # recursive partials over data nested deeper than the limit allows
    def tree(d: int) -> Any:
        node: Any = {"k": d, "kids": []}
        for i in range(d):
            node = {"k": i, "kids": [node]}
        return node
    for name in DEPTH_PARTIALS:
        if not name.startswith("walk"):
            continue
        for d in list(range(2, 22)) + [30, 40]:
            for mode in ("sync", "async"):
                r.execute("{% include '" + name + "', node: t %}", {"t": tree(d), "a": [1]}, DEPTH_PARTIALS, mode)
                r.execute("{% render '" + name + "', node: t %}", {"t": tree(d), "a": [1]}, DEPTH_PARTIALS, mode)
                n += 2
    ctx.count("depth_limit_renders", n)
    ctx.sample({"kind": "depth", "source": "{% include 'walk_for', node: t %}", "partials": DEPTH_PARTIALS["walk_for"]})


DEPTH_PARTIALS = {
    "leaf": "[{{ a }}]",
    "walk_for": "{{ node.k }}{% for child in node.kids %}{% include 'walk_for', node: child %}{% endfor %}",
    "walk_for_with": "{{ node.k }}{% for child in node.kids %}{% with n: child %}{% include 'walk_for_with', node: n %}{% endwith %}{% endfor %}",
    "walk_render": "{{ node.k }}{% for child in node.kids %}{% render 'walk_render', node: child %}{% endfor %}",
    "walk_render_for": "{{ node.k }}{% render 'walk_render_for' for node.kids as node %}",
    "walk_capture": "{% capture c %}{% for child in node.kids %}{% include 'walk_capture', node: child %}{% endfor %}{% endcapture %}{{ node.k }}{{ c }}",
    "walk_macro": "{% macro m n %}{{ n.k }}{% for child in n.kids %}{% include 'walk_macro', node: child %}{% endfor %}{% endmacro %}{% call m node %}",
    "walk_for_for": "{% for z in a %}{% for child in node.kids %}{% include 'walk_for_for', node: child %}{% endfor %}{% endfor %}",
}


def _numlit(r: Runner, spec: dict[str, Any], ctx: Ctx) -> None:
    """Numeric literals and computed integers around the interpreter's int <-> str digit
    limit (every spelling: plain digits, e / E / e+ exponents with short and long
    mantissas, negative, floats with huge exponents), in every position a literal can take."""
    import sys

    lim = sys.get_int_max_str_digits() if hasattr(sys, "get_int_max_str_digits") else 4300
    rng = random.Random(f"{spec['seed']}:numlit")
    lits: list[str] = []
    for d in (-3, -2, -1, 0, 1, 2, 3, 50):
        n = lim + d
        lits.append("9" * n)
        lits.append("-" + "1" + "0" * (n - 1))
        for mant in ("1", "12", "123456", "9" * 17, "9" * 40):
            for e in ("e", "E", "e+", "E+"):
                lits.append(f"{mant}{e}{n - len(mant)}")
                lits.append(f"{mant}{e}{n}")
        lits.append(f"1.5e{n}")
        lits.append(f"1e-{n}")
    lits += ["1e400", "1.0e400", "-1e309", "1e99999", "1e999999999", "0e0", "00012", "1e+0", "9" * 10000]
    sites = ["{{ LIT }}", "{{ 'a' | append: LIT }}", "{% assign n = LIT %}{{ n | minus: 1 }}", "{{ LIT | plus: 1 }}",
             "{% if LIT == x %}t{% endif %}", "{{ 'x${LIT}y' }}", "{% for i in (LIT..LIT) %}{{ i }}{% endfor %}",
             "{{ a[LIT] }}", "{% case LIT %}{% when 1 %}a{% endcase %}", "{{ LIT | json }}", "{% cycle LIT, 1 %}",
             "{{ x | times: LIT | size }}", "{% liquid\necho LIT\n%}"]
    for lit in lits:
        for site in sites:
            r.execute(site.replace("LIT", lit), {"x": 3, "a": [1, 2]}, {}, "async" if rng.random() < 0.3 else "sync")
            ctx.count("numeric_limit_probes")
    # computed integers crossing the limit
    for tpl in ["{{ a | times: a | times: a }}", "{% assign b = a | times: a %}{{ b | times: b }}", "{{ a | plus: 1 | append: 'x' }}",
                "{{ a | times: a | json }}", "{% if a | times: a %}y{% endif %}{{ a | times: a | times: a | size }}"]:
        for a in (10**1500, 10**2149, 10**2150, -(10**4299), 10**4299, 10**4300):
            r.execute(tpl, {"a": a}, {}, "sync")
            ctx.count("numeric_limit_probes")
    ctx.sample({"kind": "numeric-limit", "source": sites[0].replace("LIT", lits[5])[:80] + "…"})


def _genconf(r: Runner, spec: dict[str, Any], ctx: Ctx) -> None:
    """Grammar-generated programs (shared typed generator: every tag, ~48 filters, lambdas,
    ternaries, partials, macros) rendered against type-confused data: every variable the
    generator believes to be an int / string / array / hash is bound to a hostile value."""
    from ..gen import emit as E
    from ..gen.programs import ALL_NAMES
    from ..gen.programs import Gen

    rng = random.Random(f"{spec['seed']}:genconf:{spec['i']}")
    last = None
    for _ in range(spec["per"]):
        g = Gen(random.Random(rng.random()))
        prog = g.program()
        em = E.emit(prog, E.Layout(random.Random(rng.random()), p_marker=0.2, noisy_ws=rng.random() < 0.3,
                                   alt_forms=True))
        for k in range(6):
            data = g.data() if k == 0 else {}
            names = ALL_NAMES if k else rng.sample(ALL_NAMES, 3)
            for n in names:
                if k == 0 or rng.random() < 0.7:
                    data[n] = rng.choice(RANGE_SAFE)
            last = (em.source, data)
            r.execute(em.source, data, em.partials, "async" if k % 3 == 2 else "sync")
        ctx.count("generated_programs_confused")
    if last:
        ctx.sample({"kind": "generated+confused", "source": last[0], "data": last[1]})


RANGE_PROBES = [
    "{{ (1..a) | join: ',' | truncate: 50 }}",
    "{{ (1..a) | map: 'x' | size }}",
    "{{ (1..a) | first }}",
    "{{ (1..a) | size }}",
    "{{ (1..a) | where: 'x' | size }}",
    "{{ (1..a) | compact | size }}",
    "{{ (1..a) | uniq | size }}",
    "{{ (1..a) | concat: b | size }}",
    "{{ (1..a) | sum }}",
    "{% for x in (1..a) %}{{ x }}{% endfor %}",
    "{% for x in (1..a) limit: 2 %}{{ x }}{% endfor %}",
    "{% assign r = (1..a) %}{{ r.size }}{{ r.first }}",
    "{{ (1..a) }}",
    "{% if (1..a) contains 5 %}y{% endif %}",
]


# Membership tests walk a range inside the interpreter's C code, where the logical clock does
# not tick.  CPU time of this process (not wall-clock time: a loaded machine does not inflate
# it) decides instead, with a wide margin: the unbounded variants need seconds of CPU for these
# 40-character inputs, a bounded evaluation well under 10 ms.
CPU_PROBES = [
    ("{% if (1..a) contains 1.5 %}y{% endif %}", {}),
    ("{% if b in (1..a) %}y{% endif %}", {"b": "x"}),
    ("{% if b in (1..a) %}y{% endif %}", {"b": None}),
    ("{% assign r = (1..a) %}{% unless r contains b %}n{% endunless %}", {"b": [1]}),
    ("{% if (1..a) contains b %}y{% endif %}", {"b": 2.0}),
    ("{{ 'y' if (1..a) contains b else 'n' }}", {"b": float("nan")}),
]
CPU_BUDGET_S = 1.0


def _cpuprobe(r: Runner, ctx: Ctx) -> None:
    import time

    for src, extra in CPU_PROBES:
        for a in (5 * 10**7,):
            t0 = time.process_time()
            r.execute(src, {"a": a, **extra}, {}, "sync")
            used = time.process_time() - t0
            ctx.count("cpu_time_probes")
            ctx.mx("max:cpu_ms_per_probe", int(used * 1000))
            if used > CPU_BUDGET_S:
                ctx.violation("cpu-time-unbounded@range-membership-of-non-integer",
                              f"{used:.1f} s of CPU time for a {len(src)}-character template: membership of a "
                              f"{type(extra.get('b', 1.5)).__name__} in a range of {a} items walks the range",
                              {"source": src, "data": {"a": a, **extra}, "templates": {}, "mode": "sync", "cpu_probe": True})


def _rangeprobe(r: Runner, spec: dict[str, Any], ctx: Ctx) -> None:
    """Ranges are lazy; a filter that walks one item by item in Python is unbounded
    in the size of the input.  The logical clock (which counts generator
    resumptions) decides; C-level materialisation is outside its reach (see
    ASSUMPTIONS) so the range is kept below what would exhaust memory."""
    for p in RANGE_PROBES:
        for a in (10**8, 10**15):
            if a > 10**8 and ("first" in p or "contains" in p):
                pass
            r.execute(p, {"a": a, "b": [1]}, {}, "sync")
            ctx.count("range_probes")
    _cpuprobe(r, ctx)


def replay(wit: dict[str, Any], ctx: Ctx) -> None:
    r = Runner(ctx)
    r.variant = int(wit.get("variant") or 0)
    if wit.get("cpu_probe"):
        import time

        t0 = time.process_time()
        r.execute(wit["source"], wit.get("data") or {}, {}, "sync")
        used = time.process_time() - t0
        print(f"replay C02: {used:.2f} s of CPU time (budget {CPU_BUDGET_S} s)")
        if used > CPU_BUDGET_S:
            ctx.violation("cpu-time-unbounded@range-membership-of-non-integer", f"{used:.1f} s of CPU time", wit)
        r.sc.stop()
        return
    try:
        key = r.execute(wit["source"], wit.get("data") or {}, wit.get("templates") or {},
                        wit.get("mode", "sync"))
        print(f"replay C02: key={key}")
    finally:
        r.sc.stop()
