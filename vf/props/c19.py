"""C19 — built-in filters obey their defining laws.

Monitor: law checkers around the real filters.  Every case applies the filter through a
rendered template (`{{ x | f: args | json }}`, json-decoded) *and* through the filter
registry (`env.filters[name]` fetched the way the renderer fetches it, so context- and
environment-aware filters get their keyword arguments), compares both with each other
and with a reference read from docs/filter_reference.md (or a CTS case), compares
string-key forms with lambda forms, re-runs on permuted inputs, and deep-compares the
inputs before and after.  Law code lives in vf/c19_u_*.py, plumbing in vf/c19_run.py
and vf/c19_lib.py.
"""

from __future__ import annotations

import random
from typing import Any

from .. import c19_u_array  # noqa: F401  (registers units)
from .. import c19_u_codec  # noqa: F401
from .. import c19_u_num  # noqa: F401
from .. import c19_u_select  # noqa: F401
from .. import c19_u_shapes  # noqa: F401
from .. import c19_u_sort  # noqa: F401
from .. import c19_u_string  # noqa: F401
from ..c19_run import UNITS
from ..c19_u_history import HISTORY_UNIT
from ..c19_u_history import History
from ..c19_run import Runner
from ..core import Ctx

ID = "C19"
LEVEL = "exploration"
RULE = (
    "a case is one argument tuple (input value, filter arguments, permutation seed) drawn "
    "for a family of related filters from the documented types: unicode strings, ints of any "
    "magnitude (beyond 2**53, 2**64, 10**40), finite floats, numeric strings, flat and nested "
    "arrays of scalars and of hashes with duplicates, missing keys and mixed key types. "
    "distinct = hash of (family, tuple); non-trivial = the tuple was not seen before for that "
    "family. Every law evaluation executes the real filter at least once."
)
ASSUMPTIONS = [
    "reference definitions are read from docs/filter_reference.md, docs/optional_filters.md "
    "and the CTS snapshot; zones the documentation leaves open (half-way rounding, length == "
    "limit in truncate/truncatewords, uniq/sort on 1/true/1.0 mixtures, negative start beyond "
    "the sequence in slice, float modulo with negative operands, numeric strings other than "
    "-?d+ and -?d+.d+) are kept out of the generated domain",
    "numeric strings: the documentation says 'string representations of an integer or float' "
    "without listing spellings; the spellings accepted by the working tree when the check was "
    "calibrated (sign + or -, surrounding ASCII white space, leading zeros, digit-group "
    "underscores, any magnitude; floats also .5, 5. and exponent forms) are required to behave "
    "exactly like the number they denote (unit numstr); non-ASCII digits and exotic white space "
    "are not generated",
    "history independence: every shard evaluates a fixed panel (>= 200 high-precision arithmetic "
    "applications plus time-zone / locale / cache sensitive ones) in the fresh worker, after "
    "applying every registered filter to typical inputs, and after its own cases; decimal "
    "context, C locale and time zone are compared around every priming call (if priming changed "
    "them they are reported, then restored so the unit's own laws are not failed wholesale)",
    "a TypeError raised by a filter on the registry path is treated like the LiquidTypeError "
    "the renderer's dispatch turns it into",
    "float results are accepted within 2**-50 relative error of the exact decimal result",
    "json (C20's subject) is trusted as the decoder of template results; map results are "
    "decoded by a for-loop because its null object is not json-serialisable",
    "Python's str methods, urllib/base64/html modules are not used as the reference where "
    "an independent definition is cheap (url encoding, replace_last, truncate); str.upper/"
    "lower/strip/replace are the documented definitions and are used directly",
]

QUOTA = 500


QUICK_CASES = {"pipeline": 700, "shapes": 300, "sequence": 1500}  # ~70 template applications per case


def _plan(tier: str) -> list[tuple[str, int, int]]:
    """(unit, cases per shard, sub-shards)"""
    heavy = {"select": 2, "sort": 2, "arith2": 2, "numstr": 2, "pipeline": 2, "shapes": 2}
    out = []
    for name in sorted(UNITS):
        if tier == "quick":
            out.append((name, QUICK_CASES.get(name, 2000), 1))
        else:
            n = 8 * heavy.get(name, 1)
            out.append((name, 60_000 // n, n))
    return out


def shards(tier: str, seed: int) -> list[dict[str, Any]]:
    specs = []
    for name, cases, n in _plan(tier):
        for i in range(n):
            specs.append({"kind": name, "i": i, "n": n, "cases": cases})
    return specs


def floors(tier: str) -> dict[str, int]:
    k = 1 if tier == "quick" else 20
    nfilters = len({f for fs, _g, _c in UNITS.values() for f in fs})
    return {
        "evaluations": 400_000 * k,
        "distinct_nontrivial": 15_000 * k,
        "set:filters": min(55, nfilters),
        "set:filters_ge_quota": min(55, nfilters),
        "template_applications": 100_000 * k,
        "registry_applications": 50_000 * k,
        "template_vs_registry": 50_000 * k,
        "lambda_form_comparisons": 5_000 * k,
        "string_vs_number_comparisons": 20_000 * k,
        "template_local_variable_applications": 10_000 * k,
        "set:local_binding_sites": 6,
        "filter_output_pipelines": 20_000 * k,
        "shape_comparisons": 20_000 * k,
        "set:data_shapes": 9,
        "application_sequences": 1_000 * k,
        "inheritance_renders": 400 * k,
        "sequence_comparisons": 3_000 * k,
        "history_panel_comparisons": 4_000,
        "priming_calls_state_checked": 1_000,
        "set:primed_filters": 70,
    }


def run_shard(spec: dict[str, Any], ctx: Ctx) -> None:
    uname = spec["kind"]
    filters, gen, _case = UNITS[uname]
    rng = random.Random(f"{spec['seed']}:{uname}:{spec['i']}")
    R = Runner(ctx)
    quota = QUOTA if spec["tier"] == "quick" else QUOTA * 20 // max(1, spec["n"])
    # history independence: panel in the fresh worker, priming sequence over every
    # registered filter (process state checked after each call), panel again
    hist = History(R)
    hist.start()
    try:
        for i in range(spec["cases"]):
            inp = gen(rng, i)
            ctx.nt(uname, repr(inp))
            R.process(uname, inp)
            if i % 500 == 0:
                ctx.sample({"unit": uname, "inp": inp})
                ctx.check_deadline()
        hist.finish()
    finally:
        for f in filters:
            if ctx.counters.get(f"law:{f}", 0) >= quota:
                ctx.seen("filters_ge_quota", f)
        ctx.count("engine_renders", R.eng.renders)


def replay(wit: dict[str, Any], ctx: Ctx) -> None:
    uname = wit["unit"]
    R = Runner(ctx)
    if uname == HISTORY_UNIT:
        print("replay C19: history independence (fresh panel, priming sequence, panel again)")
        h = History(R)
        h.start()
        h.finish()
        for v in ctx.violations.values():
            print(f"  {v['key']}: {v['what']}")
        if not ctx.violations:
            print("  panel results and process state unchanged by the priming sequence")
        return
    inp = wit["inp"]
    fails = R.run_case(uname, inp)
    print(f"replay C19: unit={uname} inp={inp!r}")
    for filt, law, q, detail in fails:
        key = f"{filt}:{law}" + (f":{q}" if q else "")
        print(f"  law broken: {key}  {detail!r}")
        ctx.violation(key, f"filter '{filt}' breaks law '{law}' ({q}) {detail!r}"[:400],
                      {"unit": uname, "inp": inp, "detail": detail})
    if not fails:
        print("  all laws of the unit hold for this input")
