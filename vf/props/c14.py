"""C14 — caching loaders are transparent.

Monitor: recorded-history checker against a reference model (`vf/c14_lru.py`).
Every history is executed step by step on a REAL caching loader (fresh per history) and
on its uncached twin over the same sources; after each load-and-render step the rendered
text (source marker + the caller's globals), the exception class, and `len(loader.cache)`
are compared with what the LRU reference allows.  A history is abandoned at its first
divergence (the model is not trusted past it); the divergence is minimised (ddmin over
steps + attribute simplification, re-running the real code) and keyed by the pattern of
the minimal history.
"""

from __future__ import annotations

import asyncio
import concurrent.futures
import itertools
import os
import random
import shutil
import sys
import tempfile
import threading
import warnings
from typing import Any
from typing import Callable
from typing import Iterator

from .. import c14_lru as ref
from ..c14_lru import NAMES
from ..c14_lru import NAMESPACES
from ..c14_lru import Op
from ..core import Ctx
from ..instr import sched
from ..minimize import ddmin

ID = "C14"
LEVEL = "exploration"
RULE = (
    "a case is a history: a configuration (loader family in {CachingDictLoader, "
    "context-aware CachingLoaderMixin loader, CachingChoiceLoader over two dict loaders, "
    "CachingFileSystemLoader, CachingChoiceLoader over two file-system loaders} x capacity "
    "{1,2,3} x auto_reload {on,off}) plus a sequence of steps over {load-and-render sync / "
    "async (name, namespace via kwargs or render context, globals), modify source, delete "
    "source, make the next consultation of the source fail} on <= 3 names and <= 2 "
    "namespaces; for the file-system families with auto_reload on every modify step of the "
    "enumerated families also chooses a newer / older / equal mtime, and the 'mtime' family "
    "(loads, modify with each of 6 mtime kinds or by rename, delete / create, <= 2 names, "
    "length <= 4 quick / 5 thorough, plus load-change-[evict]-load-change-[evict]-load "
    "skeletons over all change pairs) is enumerated completely at capacity 1 and 2 (also for one "
    "CachingFileSystemLoader over two search paths, 'fs-multi').  Namespace values: the 'nsval' "
    "family runs, on tenant-aware subclasses of the three caching loaders whose get_source "
    "refines the name from the namespace (docs/loading_templates.md style; every typed value "
    "is its own tenant), every ordered pair of loads over 4 names (x, a/x, b/x, a/b/x) x {no "
    "namespace, each of None 0 1 '0' '1' '' False True 0.0 'a' 'a/b' supplied by keyword, by a "
    "render context, through a render tag, through an include tag, or by keyword and context "
    "with different values (keyword must win)} — all pairs sync, same-name pairs also async; "
    "the reference keys entries by (typed namespace value, name).  Globals precedence: the "
    "'globals' family (length <= 3: no globals / template globals / template globals + render "
    "argument / render argument only, sync/async, modify) runs on an Environment whose own "
    "globals define the SAME variable name (render argument > template globals > environment "
    "globals; the uncached twin has the same environment globals).  Templates that load "
    "templates: the 'partials' family loads and renders page (render card, card renders "
    "leaf), ipage (include card), child (extends base, base includes leaf), solo, card, with "
    "modify/delete of card / leaf / base / page, capacity 1-3, namespaces through the template "
    "globals (seen by the tags through the render context) — every history of length <= 4 "
    "all-sync and <= 3 all-async, plus A,A,B,[B2],CHANGE,A skeletons sync / async / "
    "alternating; the reference performs each tag's load as an ordinary load of the partial's "
    "(namespace, name) in document order, with the recency updates and evictions that "
    "implies; the 'locals' family adds roots that bind the namespace key's NAME locally "
    "(assign / capture / for variable / with / include argument) to the OTHER caller's "
    "namespace, or pass it as a render argument, before a tag loads a partial — followed by "
    "that other caller's loads, with modify/delete in between (local bindings never change "
    "the namespace of a load; a render argument is a global of the rendered partial's context "
    "and does, for the cache key and for a context-aware loader alike).  Matter: the "
    "'globals' family also runs on the documented FrontMatterLoader customisation over "
    "CachingFileSystemLoader and a dict-based equivalent (matter defines `site`, which the "
    "environment may define too, and for one name `who`, which template globals / environment "
    "globals / render arguments may define too: render argument > matter > template globals > "
    "environment globals).  Constructor arguments: the 'ctor' family builds "
    "CachingFileSystemLoader with search_path as str / Path / list x encoding in {utf-8, "
    "latin-1, utf-16, cp1252} x ext in {None, .liquid, .html}, and CachingChoiceLoader with a "
    "mixed delegate list (a FileSystemLoader with encoding and ext + a DictLoader), against the "
    "uncached loader built with the SAME arguments; sources contain non-ASCII text (e-acute, "
    "sharp s, euro, CJK as far as the encoding allows) written in that encoding, names with and "
    "without suffix; every history of length <= 2 and every load-modify-load over loads by name "
    "or through a render tag, sync or async.  Held templates: in the 'held' family every load "
    "KEEPS the Template it was given and later steps render a kept one again after other "
    "callers' loads of the same key (with modify / unparsable source / delete in between, "
    "eviction, another namespace, a second Environment); every history of length <= 4 ending "
    "in such a render, sync and async (length 5 for two configurations), on dict, fs (auto_reload "
    "on and off), ctx, choice-fs and front-matter loaders: a kept template renders its own "
    "snapshot with the globals of the load that returned it; the only accepted exception is "
    "the listed shared-template finding (a later HIT on the same entry re-points the object), "
    "reported under that finding's key.  Typed globals: successive callers load one "
    "unchanged template passing globals whose values COMPARE EQUAL but are distinguishable "
    "(1 / True / 1.0, 0 / False / 0.0, '' / nil / none, [1] / [True] / [1.0] / (1,), nested), "
    "printed type-revealingly ({{ n }} and {{ n | json }}), on dict / fs / choice caching "
    "loaders, with and without environment globals of the same name, sync and async: all "
    "ordered pairs and all triples inside a group; the uncached twin is the oracle.  "
    "Load-context routing: the 'tagroute' family runs the documented "
    "SnippetsFileSystemLoader customisation (get_source serves include/render targets from "
    "snippets/, and a user keyword variant='alt' from alt/) over CachingFileSystemLoader and "
    "a dict-based equivalent against the same subclass of the uncached loader: every history "
    "of length <= 3 over {load foo/bar by name, through a render tag, through an include tag, "
    "with variant='alt'; sync/async} and {modify/delete any of the six sources}, without a "
    "namespace key and with namespace_key='variant'; the reference keys entries by (route, "
    "name).  Random histories also make some loads through a second Environment sharing the "
    "loader: an entry parsed by another Environment is not an answer (miss and replace).  "
    "Enumerated families (one representative per renaming of names / "
    "namespaces, histories end in a load, directly repeated modify/delete/fail dropped): "
    "quick = every history of length <= 3 with sync/async chosen per step + every history "
    "of length 4 whose loads are all sync or all async (file-system families, and "
    "auto_reload off for the families without freshness information: all sync; file-system "
    "families: newer mtimes only at length 4; capacity 1 and 2 only); "
    "thorough = every history of length <= 4 with sync/async per step + length 5 all-sync "
    "for the dict-based families; plus the "
    "'lrudeep' family (sync loads and modifies only, length <= 6 quick / 7 thorough) that is "
    "long enough to observe the eviction order behaviourally; plus seeded random histories "
    "of length <= 40 (also namespace_key off, environment globals, globals={} and both "
    "failure kinds); plus all interleavings of 2-3 concurrent get_template_async callers "
    "on a gated loader; plus LRUCache/ThreadSafeLRUCache differential op sequences and a "
    "thread stress.  distinct = hash of (configuration, steps) (thorough: every 16th hash is "
    "kept, the counter nontrivial_histories is complete); non-trivial = the history "
    "contains >= 1 cache hit, >= 1 miss and >= 1 of {modify, delete, injected failure, "
    "eviction} according to the reference model.  Violation keys: symptom category "
    "(stale-globals, stale-source@family, lru-order:*, namespace-leak, wrong-template, "
    "error-class:<got>-instead-of-<expected>@family, capacity-exceeded) + pattern of the "
    "minimised history; when the minimal history needs an async load (or a namespace) and "
    "its all-sync (namespace-free) twin history shows no divergence the key is "
    "async-path-only:<symptom>:<step forms> (namespace-path-only:...)."
)
ASSUMPTIONS = [
    "liquid2's parser and renderer are the trusted base here: the expected text is the "
    "twin loader's source with the two placeholders substituted by the reference "
    "(cross-checked against a full render through the uncached twin on every random-history step)",
    "file freshness = mtime, always set explicitly with os.utime (never the wall clock): a "
    "modify step gives the new version an mtime that is newer, older, equal, far-future, zero "
    "or negative, in place or by rename (new inode); ANY mtime different from the one "
    "recorded at load means stale; content changed under an unchanged mtime is the documented "
    "blind spot of mtime freshness — snapshot and new content are both accepted there "
    "(counted as ev:hit-equal-mtime / ev:reload-equal-mtime)",
    "a resident entry with auto_reload off (or a source kind without freshness "
    "information) must answer from its snapshot exactly — this is how least-recently-used "
    "eviction is observed without reading the cache's internals",
    "an injected failure fires at the next consultation of the source; when a resident "
    "entry is verified fresh both 'answered from the cache' and 'consulted and failed' are accepted",
    "looking a resident key up counts as a use of that key even when the reload it triggers fails",
    "with auto_reload on and a source kind that has freshness information (files) the "
    "expected answer is always what the uncached twin returns now — including the case where "
    "a file created in an earlier ChoiceLoader member shadows the file the entry came from",
    "exhaustive file-system histories run liquid2's async path on a real event loop whose "
    "default executor runs inline; random histories use the real thread-pool executor",
    "namespace identity = presence + the value itself (1, '1', True, 1.0 are different "
    "namespaces; a keyword argument that is present wins over the render context whatever its "
    "value, including None/0/''); two identities whose '<namespace>/<name>' strings coincide "
    "are reported as namespace-key-collision:* (the engine's cache key is that string)",
    "70 % of the random histories over namespace values use a vocabulary free of such "
    "coincidences so that long histories are not all cut short by that finding",
    "thread stress checks invariants only at quiescent points; it cannot prove absence of races",
]

FAMILIES = ("dict", "ctx", "choice-dict", "fs", "choice-fs")
FS_FAMILIES = ("fs", "choice-fs")
LOOP_FAMILIES = ("fs", "choice-fs", "fs-multi", "ns-fs", "p-fs", "tag-fs", "m-fs")
M_FAMILIES = ("m-dict", "m-fs")
T_FAMILIES = ("tag-dict", "tag-fs")  # async needs a real event loop
NS_FAMILIES = ("ns-dict", "ns-choice", "ns-fs")
P_FAMILIES = ("p-dict", "p-ctx", "p-choice", "p-fs")
SHARED_TEMPLATE_KEY = "concurrent-globals:cold:aload(g).pause.render||aload(g).render"
ENV_WHO = "envwho"  # environment-level global with the SAME name as the per-load global
INJECT_KINDS = ("InjectedSourceError", "TemplateNotFoundError")

# ---------------------------------------------------------------------------
# classes built on the real liquid2 (lazily: liquid2 must come from VERIF_REPO)
# ---------------------------------------------------------------------------

_KL: Any = None


def K() -> Any:
    global _KL  # noqa: PLW0603
    if _KL is None:
        _KL = _build_classes()
    return _KL


def _build_classes() -> Any:
    from liquid2 import CachingChoiceLoader
    from liquid2 import CachingDictLoader
    from liquid2 import CachingFileSystemLoader
    from liquid2 import ChoiceLoader
    from liquid2 import DictLoader
    from liquid2 import Environment
    from liquid2 import FileSystemLoader
    from liquid2 import RenderContext
    from liquid2.builtin.loaders.mixins import CachingLoaderMixin
    from liquid2.exceptions import TemplateNotFoundError
    from liquid2.loader import BaseLoader
    from liquid2.loader import TemplateSource
    from liquid2.utils.lru_cache import LRUCache
    from liquid2.utils.lru_cache import ThreadSafeLRUCache

    class InjectedSourceError(OSError):
        """The fault injected by 'make the next load fail'."""

    class NsDictLoader(DictLoader):
        """Context-aware loader in the documented extension style: a load that carries
        `ns` (keyword argument first, render-context global second) is answered from
        '<ns>/<name>' when that exists, else from the shared '<name>'."""

        def get_source(self, env, template_name, *, context=None, **kwargs):  # noqa: ANN001, ANN003, ANN201
            ns = kwargs.get("ns")
            if ns is None and context is not None:
                ns = context.globals.get("ns")
            if ns is not None:
                scoped = f"{ns}/{template_name}"
                if scoped in self.templates:
                    return TemplateSource(self.templates[scoped], scoped, None)
            return super().get_source(env, template_name)

    class CachingNsDictLoader(CachingLoaderMixin, NsDictLoader):
        def __init__(self, templates, *, auto_reload=True, namespace_key="", capacity=300):  # noqa: ANN001
            super().__init__(
                auto_reload=auto_reload, namespace_key=namespace_key, capacity=capacity
            )
            NsDictLoader.__init__(self, templates)

    def faulty(base):  # noqa: ANN001, ANN202
        """Subclass of a caching loader whose get_source raises once when armed."""

        class Faulty(base):
            vf_store: Any = None

            def get_source(self, env, template_name, *, context=None, **kwargs):  # noqa: ANN001, ANN003, ANN201
                self.vf_store.consult()
                return super().get_source(env, template_name, context=context, **kwargs)

        if base.get_source_async is not BaseLoader.get_source_async:
            # the family has an async path of its own that does not go through get_source
            async def get_source_async(self, env, template_name, *, context=None, **kwargs):  # noqa: ANN001, ANN003, ANN202
                self.vf_store.consult()
                return await super(Faulty, self).get_source_async(
                    env, template_name, context=context, **kwargs
                )

            Faulty.get_source_async = get_source_async  # type: ignore[method-assign]
        Faulty.__name__ = "Faulty" + base.__name__
        return Faulty

    def ns_aware(base):  # noqa: ANN001, ANN202
        """Tenant-aware subclass in the style of docs/loading_templates.md: get_source
        refines the template name from the namespace the load carries (keyword argument
        `ns` first — whatever its value, even None or 0 — else the render context's global
        `ns`), and falls back to nothing: '<tenant>/<name>' must exist."""

        def scoped(template_name, context, kwargs):  # noqa: ANN001, ANN202
            if "ns" in kwargs:
                return f"{ref.ns_tag(kwargs['ns'])}/{template_name}"
            if context is not None and "ns" in context.globals:
                return f"{ref.ns_tag(context.globals['ns'])}/{template_name}"
            return template_name

        class NsAware(base):
            def get_source(self, env, template_name, *, context=None, **kwargs):  # noqa: ANN001, ANN003, ANN201
                return super().get_source(
                    env, scoped(template_name, context, kwargs), context=context, **kwargs
                )

        if base.get_source_async is not BaseLoader.get_source_async:
            async def get_source_async(self, env, template_name, *, context=None, **kwargs):  # noqa: ANN001, ANN003, ANN202
                return await super(NsAware, self).get_source_async(
                    env, scoped(template_name, context, kwargs), context=context, **kwargs
                )

            NsAware.get_source_async = get_source_async  # type: ignore[method-assign]
        NsAware.__name__ = "NsAware" + base.__name__
        return NsAware

    def tag_routed(base):  # noqa: ANN001, ANN202
        """The 'Load context' customisation of docs/loading_templates.md
        (SnippetsFileSystemLoader): `include` / `render` targets are served from
        snippets/, and — same idea with a user keyword argument — variant='alt' from alt/."""

        def routed(template_name, kwargs):  # noqa: ANN001, ANN202
            if kwargs.get("tag") in ("include", "render"):
                return f"snippets/{template_name}"
            if kwargs.get("variant"):
                return f"{kwargs['variant']}/{template_name}"
            return template_name

        class TagRouted(base):
            def get_source(self, env, template_name, *, context=None, **kwargs):  # noqa: ANN001, ANN003, ANN201
                return super().get_source(
                    env, routed(template_name, kwargs), context=context, **kwargs
                )

        if base.get_source_async is not BaseLoader.get_source_async:
            async def get_source_async(self, env, template_name, *, context=None, **kwargs):  # noqa: ANN001, ANN003, ANN202
                return await super(TagRouted, self).get_source_async(
                    env, routed(template_name, kwargs), context=context, **kwargs
                )

            TagRouted.get_source_async = get_source_async  # type: ignore[method-assign]
        TagRouted.__name__ = "TagRouted" + base.__name__
        return TagRouted

    def matter_aware(base):  # noqa: ANN001, ANN202
        """The 'Matter' customisation of docs/loading_templates.md (FrontMatterLoader):
        front matter at the top of the source becomes the template's matter."""

        def split(ts):  # noqa: ANN001, ANN202
            matter, text = ref.split_front_matter(ts.source)
            return TemplateSource(text, ts.name, ts.uptodate, matter)

        class FrontMatter(base):
            def get_source(self, env, template_name, *, context=None, **kwargs):  # noqa: ANN001, ANN003, ANN201
                return split(super().get_source(env, template_name, context=context, **kwargs))

        if base.get_source_async is not BaseLoader.get_source_async:
            async def get_source_async(self, env, template_name, *, context=None, **kwargs):  # noqa: ANN001, ANN003, ANN202
                return split(await super(FrontMatter, self).get_source_async(
                    env, template_name, context=context, **kwargs))

            FrontMatter.get_source_async = get_source_async  # type: ignore[method-assign]
        FrontMatter.__name__ = "FrontMatter" + base.__name__
        return FrontMatter

    class GatedDictLoader(DictLoader):
        """get_source_async suspends once (scheduler decides who continues)."""

        async def get_source_async(self, env, template_name, *, context=None, **kwargs):  # noqa: ANN001, ANN003, ANN201
            await sched.Gate(("source", template_name))
            return self.get_source(env, template_name, context=context, **kwargs)

    class CachingGatedDictLoader(CachingLoaderMixin, GatedDictLoader):
        def __init__(self, templates, *, auto_reload=True, namespace_key="", capacity=300):  # noqa: ANN001
            super().__init__(
                auto_reload=auto_reload, namespace_key=namespace_key, capacity=capacity
            )
            GatedDictLoader.__init__(self, templates)

    class ThreadSafeCachingDictLoader(CachingLoaderMixin, DictLoader):
        def __init__(self, templates, *, capacity=300):  # noqa: ANN001
            super().__init__(auto_reload=True, capacity=capacity, thread_safe=True)
            DictLoader.__init__(self, templates)

    class NS:
        pass

    k = NS()
    k.Environment = Environment
    k.RenderContext = RenderContext
    k.DictLoader = DictLoader
    k.ChoiceLoader = ChoiceLoader
    k.FileSystemLoader = FileSystemLoader
    k.NsDictLoader = NsDictLoader
    k.InjectedSourceError = InjectedSourceError
    k.TemplateNotFoundError = TemplateNotFoundError
    k.FaultyDict = faulty(CachingDictLoader)
    k.FaultyCtx = faulty(CachingNsDictLoader)
    k.FaultyChoice = faulty(CachingChoiceLoader)
    k.FaultyFs = faulty(CachingFileSystemLoader)
    k.NsAwareDict = ns_aware(DictLoader)
    k.NsAwareChoice = ns_aware(ChoiceLoader)
    k.NsAwareFs = ns_aware(FileSystemLoader)
    k.FaultyNsAwareDict = faulty(ns_aware(CachingDictLoader))
    k.FaultyNsAwareChoice = faulty(ns_aware(CachingChoiceLoader))
    k.FaultyNsAwareFs = faulty(ns_aware(CachingFileSystemLoader))
    k.MatterDict = matter_aware(DictLoader)
    k.MatterFs = matter_aware(FileSystemLoader)
    k.FaultyMatterDict = faulty(matter_aware(CachingDictLoader))
    k.FaultyMatterFs = faulty(matter_aware(CachingFileSystemLoader))
    k.TagRoutedDict = tag_routed(DictLoader)
    k.TagRoutedFs = tag_routed(FileSystemLoader)
    k.FaultyTagRoutedDict = faulty(tag_routed(CachingDictLoader))
    k.FaultyTagRoutedFs = faulty(tag_routed(CachingFileSystemLoader))
    k.CachingGatedDictLoader = CachingGatedDictLoader
    k.ThreadSafeCachingDictLoader = ThreadSafeCachingDictLoader
    k.LRUCache = LRUCache
    k.ThreadSafeLRUCache = ThreadSafeLRUCache
    return k


# ---------------------------------------------------------------------------
# sources ("stores"): one per loader family; shared by the caching loader and its twin
# ---------------------------------------------------------------------------


class Store:
    family = ""
    has_fresh = False

    with_site = False
    names: tuple[str, ...] = NAMES
    ns_values: tuple[object, ...] = NAMESPACES
    typed_ns = False  # True: namespace identity is the typed value, not its str()
    routed = False  # True: the source depends on the load context (tag / variant keyword)

    def __init__(self) -> None:
        self.armed: str | None = None
        self.consults = 0
        self.ver: dict[str, int] = {}
        self.twin: Any = None

    def body(self, place: str, name: str, version: int) -> str:
        return ref.body(place, name, version, self.with_site)

    BROKEN = "{% if %}<unparsable>"

    def break_(self, name: str) -> None:
        """Replace the source by text that does not parse (newer mtime for files)."""
        old = self.body
        self.body = lambda place, n, v: Store.BROKEN  # type: ignore[method-assign]
        try:
            self.modify(name)
        finally:
            self.body = old  # type: ignore[method-assign]

    def consult(self) -> None:
        self.consults += 1
        if self.armed:
            kind, self.armed = self.armed, None
            if kind == "TemplateNotFoundError":
                raise K().TemplateNotFoundError("injected")
            raise K().InjectedSourceError("injected")

    def reset(self) -> None:
        raise NotImplementedError

    def modify(self, name: str, mkind: int = 0, rename: int = 0) -> None:
        raise NotImplementedError

    def delete(self, name: str) -> None:
        raise NotImplementedError

    def make_loader(self, cap: int, auto: bool, nskey: str) -> Any:
        raise NotImplementedError

    def stamp(self, origin: str) -> object:  # noqa: ARG002
        return None

    def is_fresh(self, e: ref.Entry) -> bool:  # noqa: ARG002
        return True

    def close(self) -> None:
        return None

    def _bump(self, name: str) -> int:
        self.ver[name] = self.ver.get(name, 0) + 1
        return self.ver[name]


class DictStore(Store):
    family = "dict"

    def __init__(self) -> None:
        super().__init__()
        self.t: dict[str, str] = {}
        self.twin = K().DictLoader(self.t)

    def reset(self) -> None:
        self.armed = None
        self.ver = {}
        self.t.clear()
        for n in self.names:
            self.t[n] = self.body("src", n, 0)

    def modify(self, name: str, mkind: int = 0, rename: int = 0) -> None:  # noqa: ARG002
        self.t[name] = self.body("src", name, self._bump(name))

    def delete(self, name: str) -> None:
        self.t.pop(name, None)

    def make_loader(self, cap: int, auto: bool, nskey: str) -> Any:
        ld = K().FaultyDict(self.t, auto_reload=auto, namespace_key=nskey, capacity=cap)
        ld.vf_store = self
        return ld


class CtxStore(Store):
    """'<name>' shared plus a '<ns>/<name>' override per namespace.  modify rewrites all
    three; the first delete removes the overrides (loads fall back to the shared one),
    the second removes the shared source."""

    family = "ctx"

    def __init__(self) -> None:
        super().__init__()
        self.t: dict[str, str] = {}
        self.twin = K().NsDictLoader(self.t)

    def _write(self, n: str, v: int) -> None:
        self.t[n] = self.body("shared", n, v)
        for ns in NAMESPACES:
            self.t[f"{ns}/{n}"] = self.body(ns, n, v)

    def reset(self) -> None:
        self.armed = None
        self.ver = {}
        self.t.clear()
        for n in self.names:
            self._write(n, 0)

    def modify(self, name: str, mkind: int = 0, rename: int = 0) -> None:  # noqa: ARG002
        self._write(name, self._bump(name))

    def delete(self, name: str) -> None:
        scoped = [f"{ns}/{name}" for ns in NAMESPACES]
        if any(s in self.t for s in scoped):
            for s in scoped:
                self.t.pop(s, None)
        else:
            self.t.pop(name, None)

    def make_loader(self, cap: int, auto: bool, nskey: str) -> Any:
        ld = K().FaultyCtx(self.t, auto_reload=auto, namespace_key=nskey, capacity=cap)
        ld.vf_store = self
        return ld


class ChoiceDictStore(Store):
    """Two dict loaders; every name starts in both (L1 shadows L2).  modify writes the
    new version to L1; delete removes the name from the first loader that has it."""

    family = "choice-dict"

    def __init__(self) -> None:
        super().__init__()
        self.d1: dict[str, str] = {}
        self.d2: dict[str, str] = {}
        k = K()
        self.twin = k.ChoiceLoader([k.DictLoader(self.d1), k.DictLoader(self.d2)])

    def reset(self) -> None:
        self.armed = None
        self.ver = {}
        self.d1.clear()
        self.d2.clear()
        for n in self.names:
            self.d1[n] = self.body("L1", n, 0)
            self.d2[n] = self.body("L2", n, 0)

    def modify(self, name: str, mkind: int = 0, rename: int = 0) -> None:  # noqa: ARG002
        self.d1[name] = self.body("L1", name, self._bump(name))

    def delete(self, name: str) -> None:
        if name in self.d1:
            del self.d1[name]
        else:
            self.d2.pop(name, None)

    def make_loader(self, cap: int, auto: bool, nskey: str) -> Any:
        k = K()
        ld = k.FaultyChoice(
            [k.DictLoader(self.d1), k.DictLoader(self.d2)],
            auto_reload=auto, namespace_key=nskey, capacity=cap,
        )
        ld.vf_store = self
        return ld


class _Files:
    """Files whose mtime is always set explicitly (never the wall clock).

    mtime kinds (ref.MTIME_KINDS): newer = above every stamp handed out so far, older =
    below every stamp handed out so far, equal = the file's current mtime (new content,
    same mtime; 'newer' when the file does not exist), future = beyond 2096, zero = the
    epoch, negative = before the epoch.  The stamp recorded is what stat() reports after
    the write."""

    clock = 1_000_000_000
    down = 1_000_000_000
    future = 4_000_000_000
    neg = 0

    def __init__(self, encoding: str = "utf-8") -> None:
        self.stamps: dict[str, float] = {}
        self.encoding = encoding

    def _pick(self, path: str, mkind: int) -> float:
        c = _Files
        if mkind == 2 and path in self.stamps:
            return self.stamps[path]
        if mkind == 1:
            c.down -= 1
            return c.down
        if mkind == 3:
            c.future += 1
            return c.future
        if mkind == 4:
            return 0
        if mkind == 5:
            c.neg -= 1
            return c.neg
        c.clock += 1
        return c.clock

    def write(self, path: str, text: str, mkind: int = 0, rename: int = 0) -> None:
        t = self._pick(path, mkind)
        if path not in self.stamps:
            os.makedirs(os.path.dirname(path), exist_ok=True)
        if rename:
            tmp = os.path.join(os.path.dirname(os.path.dirname(path)),
                               ".incoming-" + os.path.basename(path))
            with open(tmp, "w", encoding=self.encoding) as f:
                f.write(text)
            os.utime(tmp, (t, t))
            os.replace(tmp, path)  # new inode
        else:
            with open(path, "w", encoding=self.encoding) as f:
                f.write(text)
            os.utime(path, (t, t))
        self.stamps[path] = os.stat(path).st_mtime

    def unlink(self, path: str) -> None:
        if path in self.stamps:
            os.unlink(path)
            del self.stamps[path]


class FsStore(Store):
    family = "fs"
    has_fresh = True
    subdir = "fs"

    def __init__(self, root: str) -> None:
        super().__init__()
        self.dir = os.path.join(root, self.subdir)
        os.makedirs(self.dir)
        self.files = _Files()
        self.dirty: set[str] = set(self.names)
        self.twin = K().FileSystemLoader(self.dir)

    def _p(self, n: str) -> str:
        return os.path.join(self.dir, n)

    def reset(self) -> None:
        self.armed = None
        self.ver = {}
        for n in self.dirty:
            self.files.write(self._p(n), self.body("src", n, 0))
        self.dirty = set()

    def modify(self, name: str, mkind: int = 0, rename: int = 0) -> None:  # noqa: ARG002
        self.dirty.add(name)
        self.files.write(self._p(name), self.body("src", name, self._bump(name)),
                         mkind, rename)

    def delete(self, name: str) -> None:
        self.dirty.add(name)
        self.files.unlink(self._p(name))

    def make_loader(self, cap: int, auto: bool, nskey: str) -> Any:
        ld = K().FaultyFs(self.dir, auto_reload=auto, namespace_key=nskey, capacity=cap)
        ld.vf_store = self
        return ld

    def stamp(self, origin: str) -> object:
        return self.files.stamps.get(origin)

    def is_fresh(self, e: ref.Entry) -> bool:
        return e.stamp is not None and self.files.stamps.get(e.origin) == e.stamp


class ChoiceFsStore(Store):
    """As ChoiceDictStore, over two directories."""

    family = "choice-fs"
    has_fresh = True
    dirnames = ("L1", "L2")

    def __init__(self, root: str) -> None:
        super().__init__()
        self.d1 = os.path.join(root, self.dirnames[0])
        self.d2 = os.path.join(root, self.dirnames[1])
        os.makedirs(self.d1)
        os.makedirs(self.d2)
        self.files = _Files()
        self.dirty: set[str] = set(self.names)
        k = K()
        self.twin = k.ChoiceLoader([k.FileSystemLoader(self.d1), k.FileSystemLoader(self.d2)])

    def reset(self) -> None:
        self.armed = None
        self.ver = {}
        for n in self.dirty:
            self.files.write(os.path.join(self.d1, n), self.body("L1", n, 0))
            self.files.write(os.path.join(self.d2, n), self.body("L2", n, 0))
        self.dirty = set()

    def modify(self, name: str, mkind: int = 0, rename: int = 0) -> None:  # noqa: ARG002
        self.dirty.add(name)
        self.files.write(os.path.join(self.d1, name),
                         self.body("L1", name, self._bump(name)), mkind, rename)

    def delete(self, name: str) -> None:
        self.dirty.add(name)
        p1 = os.path.join(self.d1, name)
        if p1 in self.files.stamps:
            self.files.unlink(p1)
        else:
            self.files.unlink(os.path.join(self.d2, name))

    def make_loader(self, cap: int, auto: bool, nskey: str) -> Any:
        k = K()
        ld = k.FaultyChoice(
            [k.FileSystemLoader(self.d1), k.FileSystemLoader(self.d2)],
            auto_reload=auto, namespace_key=nskey, capacity=cap,
        )
        ld.vf_store = self
        return ld

    def stamp(self, origin: str) -> object:
        return self.files.stamps.get(origin)

    def is_fresh(self, e: ref.Entry) -> bool:
        return e.stamp is not None and self.files.stamps.get(e.origin) == e.stamp


class FsMultiStore(ChoiceFsStore):
    """ONE CachingFileSystemLoader over two search paths (same layout and step meaning
    as ChoiceFsStore)."""

    family = "fs-multi"
    dirnames = ("M1", "M2")

    def __init__(self, root: str) -> None:
        super().__init__(root)
        self.twin = K().FileSystemLoader([self.d1, self.d2])

    def make_loader(self, cap: int, auto: bool, nskey: str) -> Any:
        ld = K().FaultyFs([self.d1, self.d2], auto_reload=auto, namespace_key=nskey, capacity=cap)
        ld.vf_store = self
        return ld


def _ns_sources(name: str) -> list[tuple[str, str]]:
    """(place, key) of every tenant's copy of *name*: the shared one and one per value."""
    out = [("shared", name)]
    for v in ref.NS_VALUES:
        t = ref.ns_tag(v)
        out.append((t, f"{t}/{name}"))
    return out


class NsDictStore(Store):
    """Namespace-dependent sources for the tenant-aware CachingDictLoader subclass: every
    name exists once without namespace and once per namespace value; modify rewrites all
    copies of a name, delete removes them."""

    family = "ns-dict"
    names = ref.NS_NAMES
    ns_values = ref.NS_VALUES
    typed_ns = True

    def __init__(self) -> None:
        super().__init__()
        self.t: dict[str, str] = {}
        self.twin = K().NsAwareDict(self.t)

    def _write(self, n: str, v: int) -> None:
        for place, key in _ns_sources(n):
            self.t[key] = self.body(place, n, v)

    _dirty: set[str] | None = None  # None: nothing written yet

    def reset(self) -> None:
        self.armed = None
        self.ver = {}
        for n in (self.names if self._dirty is None else self._dirty):
            self._write(n, 0)
        self._dirty = set()

    def modify(self, name: str, mkind: int = 0, rename: int = 0) -> None:  # noqa: ARG002
        assert self._dirty is not None
        self._dirty.add(name)
        self._write(name, self._bump(name))

    def delete(self, name: str) -> None:
        assert self._dirty is not None
        self._dirty.add(name)
        for _, key in _ns_sources(name):
            self.t.pop(key, None)

    def make_loader(self, cap: int, auto: bool, nskey: str) -> Any:
        ld = K().FaultyNsAwareDict(self.t, auto_reload=auto, namespace_key=nskey, capacity=cap)
        ld.vf_store = self
        return ld


class NsChoiceStore(NsDictStore):
    """Tenant-aware CachingChoiceLoader subclass over two dict loaders: names x and a/x
    live in the first, b/x and a/b/x in the second."""

    family = "ns-choice"

    def __init__(self) -> None:
        Store.__init__(self)
        self.t1: dict[str, str] = {}
        self.t2: dict[str, str] = {}
        k = K()
        self.twin = k.NsAwareChoice([k.DictLoader(self.t1), k.DictLoader(self.t2)])

    def _home(self, n: str) -> tuple[dict[str, str], str]:
        return (self.t1, "L1") if n in ("x", "a/x") else (self.t2, "L2")

    def _write(self, n: str, v: int) -> None:
        d, lbl = self._home(n)
        for place, key in _ns_sources(n):
            d[key] = self.body(f"{place}@{lbl}", n, v)

    def delete(self, name: str) -> None:
        assert self._dirty is not None
        self._dirty.add(name)
        d, _ = self._home(name)
        for _, key in _ns_sources(name):
            d.pop(key, None)

    def make_loader(self, cap: int, auto: bool, nskey: str) -> Any:
        k = K()
        ld = k.FaultyNsAwareChoice(
            [k.DictLoader(self.t1), k.DictLoader(self.t2)],
            auto_reload=auto, namespace_key=nskey, capacity=cap,
        )
        ld.vf_store = self
        return ld


class NsFsStore(Store):
    """Tenant-aware CachingFileSystemLoader subclass: <dir>/<tenant>/<name> files."""

    family = "ns-fs"
    has_fresh = True
    names = ref.NS_NAMES
    ns_values = ref.NS_VALUES
    typed_ns = True

    def __init__(self, root: str) -> None:
        super().__init__()
        self.dir = os.path.join(root, "nsfs")
        os.makedirs(self.dir)
        self.files = _Files()
        self.dirty: set[str] = set(self.names)
        self.twin = K().NsAwareFs(self.dir)

    def _write(self, n: str, v: int, mkind: int = 0, rename: int = 0) -> None:
        for place, key in _ns_sources(n):
            p = os.path.join(self.dir, key)
            os.makedirs(os.path.dirname(p), exist_ok=True)
            self.files.write(p, self.body(place, n, v), mkind, rename)

    def reset(self) -> None:
        self.armed = None
        self.ver = {}
        for n in self.dirty:
            self._write(n, 0)
        self.dirty = set()

    def modify(self, name: str, mkind: int = 0, rename: int = 0) -> None:
        self.dirty.add(name)
        self._write(name, self._bump(name), mkind, rename)

    def delete(self, name: str) -> None:
        self.dirty.add(name)
        for _, key in _ns_sources(name):
            self.files.unlink(os.path.join(self.dir, key))

    def make_loader(self, cap: int, auto: bool, nskey: str) -> Any:
        ld = K().FaultyNsAwareFs(self.dir, auto_reload=auto, namespace_key=nskey, capacity=cap)
        ld.vf_store = self
        return ld

    def stamp(self, origin: str) -> object:
        return self.files.stamps.get(origin)

    def is_fresh(self, e: ref.Entry) -> bool:
        return e.stamp is not None and self.files.stamps.get(e.origin) == e.stamp


class _MatterSources:
    """Mixin: every source starts with front matter (c14_lru.m_body)."""

    def body(self, place: str, name: str, version: int) -> str:
        return ref.m_body(place, name, version)


class MatterDictStore(_MatterSources, DictStore):
    family = "m-dict"

    def __init__(self) -> None:
        super().__init__()
        self.twin = K().MatterDict(self.t)

    def make_loader(self, cap: int, auto: bool, nskey: str) -> Any:
        ld = K().FaultyMatterDict(self.t, auto_reload=auto, namespace_key=nskey, capacity=cap)
        ld.vf_store = self
        return ld


class MatterFsStore(_MatterSources, FsStore):
    family = "m-fs"
    subdir = "mfs"

    def __init__(self, root: str) -> None:
        super().__init__(root)
        self.twin = K().MatterFs(self.dir)

    def make_loader(self, cap: int, auto: bool, nskey: str) -> Any:
        ld = K().FaultyMatterFs(self.dir, auto_reload=auto, namespace_key=nskey, capacity=cap)
        ld.vf_store = self
        return ld


class _TagSources:
    """Mixin: foo / bar exist at top level, under snippets/ and under alt/, each with its
    own body (the marker's place says which one was served)."""

    names = ref.T_NAMES
    routed = True

    def body(self, place: str, name: str, version: int) -> str:  # noqa: ARG002
        parts = name.split("/")
        return ref.body(parts[0] if len(parts) > 1 else "top", parts[-1], version,
                        self.with_site)  # type: ignore[attr-defined]


class TagDictStore(_TagSources, DictStore):
    family = "tag-dict"

    def __init__(self) -> None:
        super().__init__()
        self.twin = K().TagRoutedDict(self.t)

    def make_loader(self, cap: int, auto: bool, nskey: str) -> Any:
        ld = K().FaultyTagRoutedDict(self.t, auto_reload=auto, namespace_key=nskey, capacity=cap)
        ld.vf_store = self
        return ld


class TagFsStore(_TagSources, FsStore):
    family = "tag-fs"
    subdir = "tagfs"

    def __init__(self, root: str) -> None:
        super().__init__(root)
        self.twin = K().TagRoutedFs(self.dir)

    def make_loader(self, cap: int, auto: bool, nskey: str) -> Any:
        ld = K().FaultyTagRoutedFs(self.dir, auto_reload=auto, namespace_key=nskey, capacity=cap)
        ld.vf_store = self
        return ld


class _PartialSources:
    """Mixin: the templates of the partial-loading families (c14_lru.p_source)."""

    names = ref.P_NAMES

    def body(self, place: str, name: str, version: int) -> str:
        return ref.p_source(place, name, version)


class PDictStore(_PartialSources, DictStore):
    family = "p-dict"


class PCtxStore(_PartialSources, CtxStore):
    family = "p-ctx"


class PChoiceStore(_PartialSources, ChoiceDictStore):
    family = "p-choice"


class PFsStore(_PartialSources, FsStore):
    family = "p-fs"
    subdir = "pfs"


def _needs_loop(family: str) -> bool:
    return family in LOOP_FAMILIES or family.startswith("ctor-")


def ctor_family(kind: str, enc: str, ext: str | None, pathkind: str = "str") -> str:
    return f"ctor-{kind}/{enc}/{ext or 'no-ext'}/{pathkind}"


class CtorFsStore(Store):
    """CachingFileSystemLoader built with explicit constructor arguments — search_path as
    str / Path / list, encoding, ext — against FileSystemLoader built with the SAME
    arguments.  Sources contain non-ASCII text and are written in that encoding; names a
    and b have no suffix (so `ext` applies), c.txt has one."""

    has_fresh = True
    names = ref.C_NAMES

    def __init__(self, root: str, family: str) -> None:
        super().__init__()
        _, enc, ext, pathkind = family.split("/")
        self.family = family
        self.enc = enc
        self.ext = None if ext == "no-ext" else ext
        self.dir = os.path.join(root, family.replace("/", "_"))
        self.extra = self.dir + "_empty"
        os.makedirs(self.dir)
        os.makedirs(self.extra)
        self.files = _Files(enc)
        self.dirty: set[str] = set(self.names)
        self.chars = ref.C_CHARS[enc]
        from pathlib import Path

        self.search_path: Any = {
            "str": self.dir, "Path": Path(self.dir), "list": [Path(self.extra), self.dir],
        }[pathkind]
        self.twin = self._twin()

    def _twin(self) -> Any:
        return K().FileSystemLoader(self.search_path, encoding=self.enc, ext=self.ext)

    def _caching(self, cap: int, auto: bool, nskey: str) -> Any:
        return K().FaultyFs(self.search_path, encoding=self.enc, ext=self.ext,
                            auto_reload=auto, namespace_key=nskey, capacity=cap)

    def body(self, place: str, name: str, version: int) -> str:
        return ref.body(place + "-" + self.chars, name, version, self.with_site)

    def _p(self, n: str) -> str:
        if self.ext and "." not in n:
            n += self.ext
        return os.path.join(self.dir, n)

    def reset(self) -> None:
        self.armed = None
        self.ver = {}
        for n in self.dirty:
            self.files.write(self._p(n), self.body("src", n, 0))
        self.dirty = set()

    def modify(self, name: str, mkind: int = 0, rename: int = 0) -> None:
        self.dirty.add(name)
        self.files.write(self._p(name), self.body("src", name, self._bump(name)), mkind, rename)

    def delete(self, name: str) -> None:
        self.dirty.add(name)
        self.files.unlink(self._p(name))

    def make_loader(self, cap: int, auto: bool, nskey: str) -> Any:
        ld = self._caching(cap, auto, nskey)
        ld.vf_store = self
        return ld

    def stamp(self, origin: str) -> object:
        return self.files.stamps.get(origin)

    def is_fresh(self, e: ref.Entry) -> bool:
        return e.stamp is not None and self.files.stamps.get(e.origin) == e.stamp


class CtorChoiceStore(CtorFsStore):
    """CachingChoiceLoader whose delegate list mixes a FileSystemLoader (with encoding and
    ext) and a DictLoader: a and b are files, c.txt lives in the dict."""

    def __init__(self, root: str, family: str) -> None:
        self.d: dict[str, str] = {}
        super().__init__(root, family)

    def _delegates(self) -> list[Any]:
        k = K()
        return [k.FileSystemLoader(self.search_path, encoding=self.enc, ext=self.ext),
                k.DictLoader(self.d)]

    def _twin(self) -> Any:
        return K().ChoiceLoader(self._delegates())

    def _caching(self, cap: int, auto: bool, nskey: str) -> Any:
        return K().FaultyChoice(self._delegates(), auto_reload=auto, namespace_key=nskey,
                                capacity=cap)

    def reset(self) -> None:
        self.armed = None
        self.ver = {}
        for n in self.dirty:
            self._put(n, self.body("src", n, 0))
        self.dirty = set()

    def _put(self, n: str, text: str, mkind: int = 0, rename: int = 0) -> None:
        if n == "c.txt":
            self.d[n] = text
        else:
            self.files.write(self._p(n), text, mkind, rename)

    def modify(self, name: str, mkind: int = 0, rename: int = 0) -> None:
        self.dirty.add(name)
        self._put(name, self.body("src", name, self._bump(name)), mkind, rename)

    def delete(self, name: str) -> None:
        self.dirty.add(name)
        if name == "c.txt":
            self.d.pop(name, None)
        else:
            self.files.unlink(self._p(name))


class InlineExecutor(concurrent.futures.ThreadPoolExecutor):
    """run_in_executor without a thread hop (exhaustive file-system histories).
    (asyncio insists on a ThreadPoolExecutor instance; no worker thread is ever started.)"""

    def submit(self, fn, /, *args, **kwargs):  # noqa: ANN001, ANN002, ANN003, ANN201
        f: concurrent.futures.Future[Any] = concurrent.futures.Future()
        try:
            f.set_result(fn(*args, **kwargs))
        except BaseException as e:  # noqa: BLE001
            f.set_exception(e)
        return f


# ---------------------------------------------------------------------------
# the history runner
# ---------------------------------------------------------------------------


def cfg_id(cfg: dict[str, Any]) -> str:
    s = f"{cfg['family']}/cap{cfg['cap']}/auto-{'on' if cfg['auto'] else 'off'}"
    if cfg.get("nskey", "ns") != "ns":
        s += f"/namespace-key={cfg['nskey']}" if cfg["nskey"] else "/no-namespace-key"
    if cfg.get("held"):
        s += "/held-templates"
    if cfg.get("site"):
        s += "/env-globals" + ("-same-name" if cfg["site"] == 2 else "")
    if cfg.get("inject", INJECT_KINDS[0]) != INJECT_KINDS[0]:
        s += "/inject-" + cfg["inject"]
    return s


class Divergence:
    def __init__(self, step: int, category: str, what: str, view: dict[str, Any]):
        self.step = step
        self.category = category
        self.what = what
        self.view = view


def _sweep_stale(base: str) -> None:
    """Remove scratch directories left by workers that were killed (older than 6 h)."""
    import time

    try:
        for fn in os.listdir(base):
            if fn.startswith("vf-c14-"):
                p = os.path.join(base, fn)
                if time.time() - os.stat(p).st_mtime > 6 * 3600:
                    shutil.rmtree(p, ignore_errors=True)
    except OSError:
        pass


class Harness:
    def __init__(self, ctx: Ctx, *, inline_executor: bool = True, with_site: bool = False):
        self.ctx = ctx
        self.with_site = with_site
        k = K()
        base = "/dev/shm" if os.path.isdir("/dev/shm") and os.access("/dev/shm", os.W_OK) else None
        _sweep_stale(base or tempfile.gettempdir())
        self.root = tempfile.mkdtemp(prefix="vf-c14-", dir=base)
        eg: dict[int, dict[str, object] | None] = {
            0: None, 1: {"site": "S"}, 2: {"site": "S", "who": ENV_WHO}}
        self.envs = {i: k.Environment(globals=g) for i, g in eg.items()}
        self.envs_b = {i: k.Environment(globals=g) for i, g in eg.items()}  # shares the loader
        self.twin_envs = {i: k.Environment(globals=g) for i, g in eg.items()}
        self.stores: dict[str, Store] = {}
        self.loop: asyncio.AbstractEventLoop | None = None
        self.inline_executor = inline_executor
        self._rc: dict[tuple[int, str], Any] = {}
        self._parents: dict[tuple[int, str, str], Any] = {}
        self.minimal: dict[str, list[tuple[list[Op], str]]] = {}
        self.min_budget = 60
        self._pat_fails: dict[tuple[str, str], bool] = {}
        self.diag = False
        self.nt_mod = 1  # record every nt_mod-th non-trivial history hash (thorough: 16)
        self._ntc = 0
        self.full_twin = False
        self.last_loader: Any = None
        self.last_model: ref.RefLRU | None = None

    # -- plumbing -----------------------------------------------------------
    def close(self) -> None:
        if self.loop is not None:
            try:
                self.loop.run_until_complete(self.loop.shutdown_default_executor())
            except Exception:  # noqa: BLE001
                pass
            self.loop.close()
            self.loop = None
        shutil.rmtree(self.root, ignore_errors=True)

    def store(self, family: str) -> Store:
        st = self.stores.get(family)
        if st is None:
            if family == "dict":
                st = DictStore()
            elif family == "ctx":
                st = CtxStore()
            elif family == "choice-dict":
                st = ChoiceDictStore()
            elif family == "fs":
                st = FsStore(self.root)
            elif family == "choice-fs":
                st = ChoiceFsStore(self.root)
            elif family == "fs-multi":
                st = FsMultiStore(self.root)
            elif family == "ns-dict":
                st = NsDictStore()
            elif family == "ns-choice":
                st = NsChoiceStore()
            elif family == "ns-fs":
                st = NsFsStore(self.root)
            elif family.startswith("ctor-fs/"):
                st = CtorFsStore(self.root, family)
            elif family.startswith("ctor-choice/"):
                st = CtorChoiceStore(self.root, family)
            elif family == "m-dict":
                st = MatterDictStore()
            elif family == "m-fs":
                st = MatterFsStore(self.root)
            elif family == "tag-dict":
                st = TagDictStore()
            elif family == "tag-fs":
                st = TagFsStore(self.root)
            elif family == "p-dict":
                st = PDictStore()
            elif family == "p-ctx":
                st = PCtxStore()
            elif family == "p-choice":
                st = PChoiceStore()
            elif family == "p-fs":
                st = PFsStore(self.root)
            else:
                raise ValueError(family)
            st.with_site = self.with_site
            self.stores[family] = st
        return st

    def _loop(self) -> asyncio.AbstractEventLoop:
        if self.loop is None:
            self.loop = asyncio.new_event_loop()
            if self.inline_executor:
                self.loop.set_default_executor(InlineExecutor())  # type: ignore[arg-type]
        return self.loop

    def render_context(self, site: int, has_ns: bool, ns: object, second: int = 0) -> Any:
        ck = (site + 10 * second, ref.ns_tag(ns) if has_ns else "")
        rc = self._rc.get(ck)
        if rc is None:
            env = self.envs_b[site] if second else self.envs[site]
            rc = K().RenderContext(
                env.from_string(""), global_data={"ns": ns} if has_ns else {}
            )
            self._rc[ck] = rc
        return rc

    def real_load(self, env: Any, family: str, name: str, g: Any, kw: dict[str, Any],
                  mode: int, partial_tag: str = "", pglobals: dict[str, Any] | None = None,
                  rargs: dict[str, Any] | None = None) -> tuple[str, str]:
        """One load-and-render step on the real caching loader.  partial_tag: the load
        is made by a `render` / `include` tag of a parent template whose globals
        (*pglobals*) reach the loader through the render context."""
        loop = self._loop() if (mode and _needs_loop(family)) else None
        ra = rargs or {}
        try:
            if partial_tag:
                parent = env.from_string("{% " + partial_tag + " '" + name + "' %}",
                                         globals=pglobals)
                if mode == 0:
                    return ("ok", parent.render(**ra))
                coro = parent.render_async(**ra)
            elif mode == 0:
                return ("ok", env.get_template(name, globals=g, **kw).render(**ra))
            else:
                async def step() -> str:
                    t = await env.get_template_async(name, globals=g, **kw)
                    return await t.render_async(**ra)

                coro = step()
            if _needs_loop(family):
                assert loop is not None
                return ("ok", loop.run_until_complete(coro))
            return ("ok", sched.drive(coro))
        except Exception as e:  # noqa: BLE001
            return ("err", type(e).__name__)

    # -- one history ----------------------------------------------------------
    def run_history(
        self, cfg: dict[str, Any], ops: list[Op] | tuple[Op, ...], *, record: bool,
        trace: list[str] | None = None, diag: bool = False,
    ) -> Divergence | None:
        """Execute *ops* on a fresh caching loader; return the first divergence.

        diag=True (never used for the verdict, only to name the mechanism of a divergence
        already observed) additionally compares the real cache's key set with the
        reference's after every step and reports a key-derivation disagreement."""
        if ref.is_p_family(cfg["family"]):
            return self._run_partials(cfg, ops, record=record, trace=trace)
        if cfg.get("held"):
            return self._run_held(cfg, ops, record=record, trace=trace)
        ctx = self.ctx
        family = cfg["family"]
        cap = cfg["cap"]
        auto = cfg["auto"]
        nskey = cfg.get("nskey", "ns")
        site_i = int(cfg.get("site") or 0)
        site = "S" if site_i else None
        env_who = ENV_WHO if site_i == 2 else None
        inject = cfg.get("inject", INJECT_KINDS[0])
        st = self.store(family)
        st.reset()
        env_a = self.envs[site_i]
        env_b = self.envs_b[site_i]
        loader = st.make_loader(cap, auto, nskey)
        env_a.loader = loader
        env_b.loader = loader
        model = ref.RefLRU(cap)
        self.last_loader, self.last_model = loader, model
        twin = st.twin
        saw_hit = saw_miss = saw_other = False
        n_loads = 0
        for i, op in enumerate(ops):
            kind = op.kind
            if kind != "load":
                saw_other = True
                if kind == "modify":
                    st.modify(st.names[op.name], op.g, op.via)
                elif kind == "delete":
                    st.delete(st.names[op.name])
                else:
                    st.armed = inject
                if trace is not None:
                    trace.append(f"  step {i}: {ref.show_op(op, family)}")
                continue
            name = st.names[op.name]
            env = env_b if op.env else env_a
            has_ns = op.ns != 0
            ns: Any = st.ns_values[op.ns - 1] if has_ns else None
            # who wins: render argument > this load's template globals > environment globals
            tmpl_who = f"u{i}" if op.g in (1, 3) else None
            rargs: dict[str, Any] = {"who": f"a{i}"} if op.g in (3, 4) else {}
            who = rargs.get("who") or tmpl_who or env_who
            g: Any = {"who": tmpl_who} if tmpl_who else ({} if op.g == 2 else None)
            # how the namespace travels: 0 keyword, 1 render context handed to get_template,
            # 2/3 a render/include tag of a parent rendered with globals {ns: ...},
            # 4 keyword AND a render context carrying a different value (keyword wins)
            kw: dict[str, Any] = {}
            partial_tag = ""
            pglobals: dict[str, Any] | None = None
            if op.via in (2, 3):
                partial_tag = "render" if op.via == 2 else "include"
                pglobals = dict(g or {})
                if has_ns:
                    pglobals["ns"] = ns
                tkw: dict[str, Any] = {
                    "context": self.render_context(site_i, has_ns, ns, op.env),
                    "tag": partial_tag}
            else:
                if op.via == 5:
                    kw["variant"] = "alt"  # a user keyword argument a custom loader routes on
                elif has_ns:
                    if op.via == 1:
                        kw["context"] = self.render_context(site_i, True, ns, op.env)
                    else:
                        kw["ns"] = ns
                        if op.via == 4:
                            kw["context"] = self.render_context(
                                site_i, True, ref.other_ns(family, op.ns), op.env)
                tkw = kw
            # what the uncached twin returns at this moment (no injected fault)
            try:
                ts = twin.get_source(env, name, **tkw)
                now: tuple[Any, ...] = ("ok", ref.with_matter(ts.source, ts.matter), ts.name,
                                        st.stamp(ts.name))
            except Exception as e:  # noqa: BLE001
                now = ("err", type(e).__name__)
            if nskey and has_ns:
                key = f"{ref.ns_tag(ns)}|{name}" if st.typed_ns else f"{ns}/{name}"
            else:
                key = name
            if st.routed:
                # the source depends on the load context: so does the identity of the entry
                key = f"{ref.t_route(op.via)}|{name}"
            armed = st.armed
            ent_before = model.get(key)
            was_resident = ent_before is not None
            alts = ref.expect_load(
                model, key, now, step=i, auto_reload=auto, has_fresh=st.has_fresh,
                is_fresh=st.is_fresh, armed=armed, env_tag=op.env,
            )
            if self.full_twin and record and now[0] == "ok":
                tenv = self.twin_envs[site_i]
                tenv.loader = twin
                if partial_tag:
                    full = tenv.from_string(
                        "{% " + partial_tag + " '" + name + "' %}", globals=pglobals
                    ).render(**rargs)
                else:
                    full = tenv.get_template(name, globals=g, **kw).render(**rargs)
                if full != ref.render_with_matter(now[1], rargs.get("who"), tmpl_who, env_who, site):
                    raise AssertionError(
                        f"reference rendering disagrees with the uncached twin: {full!r} "
                        f"vs {ref.render_with_matter(now[1], rargs.get('who'), tmpl_who, env_who, site)!r}"
                    )
                ctx.count("twin_full_renders")
            obs = self.real_load(env, family, name, g, kw, op.mode, partial_tag, pglobals, rargs)
            n_loads += 1
            matched = None
            exps = []
            for a in alts:
                exp = (
                    ("ok", ref.render_with_matter(
                        a.outcome[1], rargs.get("who"), tmpl_who, env_who, site))
                    if a.outcome[0] == "ok" else a.outcome
                )
                exps.append(exp)
                if obs == exp:
                    matched = a
                    break
            clen = len(loader.cache)
            if trace is not None:
                trace.append(
                    f"  step {i}: {ref.show_op(op, family)}  key={key} twin-now={_short_now(now)} "
                    f"armed={armed} expected={exps} observed={obs} "
                    f"len(cache)={clen} cache-keys={list(loader.cache.keys())} "
                    f"model(before)={model.view()}"
                )
            if record:
                ctx.ev()
            if matched is None:
                cat, what = self.classify(
                    cfg, model, key, name, ns, was_resident, now, alts[0], exps[0], obs, who, site
                )
                return Divergence(i, cat, what, {
                    "step": i, "op": ref.show_op(op, family), "cache_key": key, "expected": exps,
                    "observed": obs, "model_before": model.view(),
                    "real_cache_keys": [str(x) for x in loader.cache.keys()],
                })
            ev = matched.event
            matched.commit()
            if ev in ("hit", "hit-verified", "hit-equal-mtime"):
                saw_hit = True
            elif ev in ("miss", "reload", "reload-equal-mtime"):
                saw_miss = True
            if record:
                ctx.count("ev:" + ev)
                if ev == "reload" and ent_before is not None and ent_before.stamp is not None:
                    cur = st.stamp(ent_before.origin)
                    ctx.count(
                        "reload_origin_gone" if cur is None
                        else "reload_older_mtime" if cur < ent_before.stamp  # type: ignore[operator]
                        else "reload_newer_mtime"
                    )
            if diag and matched.outcome[0] == "ok" and not st.typed_ns and not st.routed:
                # after a successful load its key must be resident; if it is not, but a
                # key differing only by the namespace prefix is, the key was derived wrongly
                rk = {str(x) for x in loader.cache.keys()}
                if key not in rk:
                    rc = _key_disagreement(key, rk)
                    if rc is not None:
                        return Divergence(
                            i, rc, f"after {ref.show_op(op, family)} the cache holds {sorted(rk)} "
                                   f"but not the key {key!r} of this load",
                            {"step": i, "op": ref.show_op(op, family), "real_cache_keys": sorted(rk),
                             "model_keys": sorted(model.od)})
            if clen > cap:
                return Divergence(i, "capacity-exceeded",
                                  f"len(loader.cache)={clen} > capacity={cap}", {
                                      "step": i, "op": ref.show_op(op, family), "len_cache": clen,
                                      "real_cache_keys": [str(x) for x in loader.cache.keys()]})
        if record:
            ctx.count("loads_compared", n_loads)
            if model.evictions:
                ctx.count("model_evictions", model.evictions)
                saw_other = True
            if saw_hit and saw_miss and saw_other:
                ctx.count("nontrivial_histories")
                self._ntc += 1
                if self._ntc % self.nt_mod == 0:
                    ctx.nt(cfg_id(cfg), tuple(ops))
        return None

    # -- histories in which callers keep the Template they were given -----------------
    def _run_held(
        self, cfg: dict[str, Any], ops: list[Op] | tuple[Op, ...], *, record: bool,
        trace: list[str] | None = None,
    ) -> Divergence | None:
        """Loads keep the returned Template; 'held' steps render a kept one again later.
        Reference: a kept template renders its own snapshot with the globals of the load
        that returned it, whatever other callers load afterwards.  The one exception is
        the listed finding: a later HIT on the same cache entry re-points the shared object
        (reported under that finding's key, the history goes on)."""
        ctx = self.ctx
        family = cfg["family"]
        cap = cfg["cap"]
        auto = cfg["auto"]
        nskey = cfg.get("nskey", "ns")
        site_i = int(cfg.get("site") or 0)
        site = "S" if site_i else None
        env_who = ENV_WHO if site_i == 2 else None
        st = self.store(family)
        st.reset()
        env_a, env_b = self.envs[site_i], self.envs_b[site_i]
        loader = st.make_loader(cap, auto, nskey)
        env_a.loader = loader
        env_b.loader = loader
        tenv = self.twin_envs[site_i]
        model = ref.RefLRU(cap)
        self.last_loader, self.last_model = loader, model
        twin = st.twin
        kept: list[Any] = []  # real Template objects (None: that load failed)
        handles: list[tuple[ref.Entry, object] | None] = []  # (model entry, who at load)
        saw_hit = saw_miss = saw_other = False

        def run(coro_or_none: Any, fn: Callable[[], str], mode: int) -> tuple[str, str]:
            try:
                if not mode:
                    return ("ok", fn())
                if _needs_loop(family):
                    return ("ok", self._loop().run_until_complete(coro_or_none()))
                return ("ok", sched.drive(coro_or_none()))
            except Exception as e:  # noqa: BLE001
                return ("err", type(e).__name__)

        for i, op in enumerate(ops):
            if op.kind in ("modify", "delete", "break"):
                saw_other = True
                nm = st.names[op.name]
                if op.kind == "modify":
                    st.modify(nm, op.g, op.via)
                elif op.kind == "delete":
                    st.delete(nm)
                else:
                    st.break_(nm)
                if trace is not None:
                    trace.append(f"  step {i}: {op.kind} {nm}")
                continue
            if op.kind == "held":
                if op.name >= len(kept) or kept[op.name] is None or handles[op.name] is None:
                    if trace is not None:
                        trace.append(f"  step {i}: (no template kept from load #{op.name})")
                    continue
                t = kept[op.name]
                ent, who0 = handles[op.name]  # type: ignore[misc]
                exp = ("ok", ref.render_with_matter(ent.source, None, who0, None, site))
                obs = run(lambda t=t: t.render_async(), lambda t=t: t.render(), op.mode)
                if record:
                    ctx.ev()
                    ctx.count("held_renders_compared")
                if trace is not None:
                    trace.append(f"  step {i}: {ref.show_op(op, family)} expected={exp} "
                                 f"observed={obs} (entry last bound to {ent.bound!r})")
                if obs != exp:
                    repointed = ("ok", ref.render_with_matter(ent.source, None, ent.bound, None, site))
                    if ent.bound != who0 and obs == repointed:
                        # the listed finding: the cached object is shared, a later hit on
                        # the same entry gave it that caller's globals
                        if record:
                            ctx.count("held_repointed_by_later_hit")
                            ctx.violation(SHARED_TEMPLATE_KEY,
                                          f"[{cfg_id(cfg)}] a kept template rendered {obs[1]!r} "
                                          f"(expected {exp[1]!r}) after a later cache hit on its entry",
                                          {"kind": "history", "cfg": dict(cfg),
                                           "ops": [o.j() for o in ops[: i + 1]],
                                           "readable": [ref.show_op(o, family) for o in ops[: i + 1]],
                                           "origin": "held"})
                        continue
                    return Divergence(i, "kept-template-changed",
                                      f"a kept template rendered {obs[1]!r}, expected {exp[1]!r}: a later "
                                      "load that did not hit its cache entry changed it", {
                                          "step": i, "op": ref.show_op(op, family),
                                          "expected": exp, "observed": obs})
                continue
            # ---- load (keeps the template) and render
            name = st.names[op.name]
            env = env_b if op.env else env_a
            has_ns = op.ns != 0
            ns = st.ns_values[op.ns - 1] if has_ns else None
            tmpl_who = f"u{i}" if op.g else None
            who = tmpl_who or env_who
            g = {"who": tmpl_who} if tmpl_who else None
            kw: dict[str, Any] = {"ns": ns} if has_ns else {}
            try:
                ts = twin.get_source(env, name, **kw)
                tenv.from_string(ts.source)  # the uncached loader parses on every load
                now: tuple[Any, ...] = ("ok", ref.with_matter(ts.source, ts.matter), ts.name,
                                        st.stamp(ts.name))
            except Exception as e:  # noqa: BLE001
                now = ("err", type(e).__name__)
            key = f"{ns}/{name}" if (nskey and has_ns) else name
            alts = ref.expect_load(
                model, key, now, step=i, auto_reload=auto, has_fresh=st.has_fresh,
                is_fresh=st.is_fresh, armed=None, env_tag=op.env,
            )
            box: list[Any] = [None]

            def sync_load(box: list[Any] = box, env: Any = env, name: str = name, g: Any = g,
                          kw: dict[str, Any] = kw) -> str:
                box[0] = env.get_template(name, globals=g, **kw)
                return box[0].render()

            async def async_load(box: list[Any] = box, env: Any = env, name: str = name,
                                 g: Any = g, kw: dict[str, Any] = kw) -> str:
                box[0] = await env.get_template_async(name, globals=g, **kw)
                return await box[0].render_async()

            obs = run(async_load, sync_load, op.mode)
            matched = None
            exps = []
            for a in alts:
                e2 = (("ok", ref.render_with_matter(a.outcome[1], None, tmpl_who, env_who, site))
                      if a.outcome[0] == "ok" else a.outcome)
                exps.append(e2)
                if obs == e2:
                    matched = a
                    break
            if record:
                ctx.ev()
            if trace is not None:
                trace.append(f"  step {i}: {ref.show_op(op, family)} key={key} expected={exps} "
                             f"observed={obs} model(before)={model.view()}")
            if matched is None:
                cat, what = self.classify(cfg, model, key, name, ns, model.get(key) is not None,
                                          now, alts[0], exps[0], obs, who, site)
                return Divergence(i, cat, what, {"step": i, "op": ref.show_op(op, family),
                                                 "expected": exps, "observed": obs})
            matched.commit()
            ev = matched.event
            if ev.startswith("hit"):
                saw_hit = True
            elif ev in ("miss", "reload", "reload-other-env"):
                saw_miss = True
            if record:
                ctx.count("ev:" + ev)
            if matched.outcome[0] == "ok":
                ent2 = model.get(key)
                assert ent2 is not None
                ent2.bound = who
                kept.append(box[0])
                handles.append((ent2, who))
            else:
                kept.append(None)
                handles.append(None)
            if len(loader.cache) > cap:
                return Divergence(i, "capacity-exceeded",
                                  f"len(loader.cache)={len(loader.cache)} > capacity={cap}",
                                  {"step": i})
        if record:
            ctx.count("loads_compared", sum(1 for o in ops if o.kind == "load"))
            if saw_hit and saw_miss and saw_other:
                ctx.count("nontrivial_histories")
                self._ntc += 1
                if self._ntc % self.nt_mod == 0:
                    ctx.nt(cfg_id(cfg), tuple(ops))
        return None

    # -- histories whose templates load other templates ----------------------------
    def _run_partials(
        self, cfg: dict[str, Any], ops: list[Op] | tuple[Op, ...], *, record: bool,
        trace: list[str] | None = None,
    ) -> Divergence | None:
        """One history of a partial-loading family.  A 'load' step loads and renders a
        template whose tags (render / include / extends, nested) load further templates;
        the reference performs the same loads one after another as ordinary loads of
        (namespace, name) — namespace from the template globals, seen by the tags through
        the render context; the top-level load itself carries none — and composes the
        expected text from what each of them may answer."""
        ctx = self.ctx
        family = cfg["family"]
        cap = cfg["cap"]
        auto = cfg["auto"]
        nskey = cfg.get("nskey", "ns")
        st = self.store(family)
        st.reset()
        env = self.envs[0]
        loader = st.make_loader(cap, auto, nskey)
        env.loader = loader
        model = ref.RefLRU(cap)
        self.last_loader, self.last_model = loader, model
        twin = st.twin
        names = st.names
        saw_hit = saw_miss = saw_other = False
        for i, op in enumerate(ops):
            if op.kind != "load":
                saw_other = True
                if op.kind == "modify":
                    st.modify(names[op.name], op.g, op.via)
                elif op.kind == "delete":
                    st.delete(names[op.name])
                if trace is not None:
                    trace.append(f"  step {i}: {ref.show_op(op, family)}")
                continue
            name = names[op.name]
            has_ns = op.ns != 0
            ns = NAMESPACES[op.ns - 1] if has_ns else None
            who = f"u{i}" if op.g else None
            g: dict[str, Any] = {}
            if who:
                g["who"] = who
            if has_ns:
                g["ns"] = ns
            # what the binding roots bind the namespace key's name to: the OTHER caller
            other_ns = "t1" if ns == "t2" else "t2"
            g["other"] = other_ns
            g["others"] = [other_ns]
            events: list[str] = []

            def mload(nm: str, tag: str, other: bool = False, i: int = i,
                      has_ns: bool = has_ns, ns: Any = ns, other_ns: str = other_ns,
                      events: list[str] = events) -> tuple[str, str]:
                if other:
                    has_ns, ns = True, other_ns  # a render argument IS a global in there
                if tag:
                    tkw: dict[str, Any] = {
                        "context": self.render_context(0, has_ns, ns), "tag": tag}
                    key = f"{ns}/{nm}" if (nskey and has_ns) else nm
                else:
                    tkw, key = {}, nm
                try:
                    ts = twin.get_source(env, nm, **tkw)
                    now: tuple[Any, ...] = ("ok", ts.source, ts.name, st.stamp(ts.name))
                except Exception as e:  # noqa: BLE001
                    now = ("err", type(e).__name__)
                alts = ref.expect_load(
                    model, key, now, step=i, auto_reload=auto, has_fresh=st.has_fresh,
                    is_fresh=st.is_fresh, armed=None,
                )
                a = alts[0]  # no faults / equal mtimes in these families: one alternative
                a.commit()
                events.append(f"{key}:{a.event}")
                return a.outcome

            before = model.view()
            top = mload(name, "")
            exp = ref.p_expand(top[1], who, mload) if top[0] == "ok" else top
            obs = self.real_load(env, family, name, g or None, {}, op.mode)
            clen = len(loader.cache)
            if trace is not None:
                trace.append(
                    f"  step {i}: {ref.show_op(op, family)}  model loads={events} "
                    f"expected={exp} observed={obs} len(cache)={clen} "
                    f"cache-keys={list(loader.cache.keys())} model(before)={before}"
                )
            if record:
                ctx.ev()
                ctx.count("partial_loads_modelled", len(events))
            if obs != exp:
                cat, what = _classify_partials(family, exp, obs)
                return Divergence(i, cat, what, {
                    "step": i, "op": ref.show_op(op, family), "model_loads": events,
                    "expected": exp, "observed": obs, "model_before": before,
                    "real_cache_keys": [str(x) for x in loader.cache.keys()],
                })
            for e in events:
                ev = e.rsplit(":", 1)[1]
                if ev in ("hit", "hit-verified"):
                    saw_hit = True
                elif ev in ("miss", "reload"):
                    saw_miss = True
                if record:
                    ctx.count("ev:" + ev)
            if record and len(events) > 1:
                ctx.count("ev:tag-load", len(events) - 1)
            if clen > cap:
                return Divergence(i, "capacity-exceeded",
                                  f"len(loader.cache)={clen} > capacity={cap}", {
                                      "step": i, "op": ref.show_op(op, family), "len_cache": clen})
        if record:
            ctx.count("loads_compared", sum(1 for o in ops if o.kind == "load"))
            if model.evictions:
                ctx.count("model_evictions", model.evictions)
                saw_other = True
            if saw_hit and saw_miss and saw_other:
                ctx.count("nontrivial_histories")
                self._ntc += 1
                if self._ntc % self.nt_mod == 0:
                    ctx.nt(cfg_id(cfg), tuple(ops))
        return None

    # -- classification ---------------------------------------------------------
    def classify(self, cfg, model, key, name, ns, was_resident, now, alt0, exp0, obs,  # noqa: ANN001
                 who, site) -> tuple[str, str]:  # noqa: ANN001
        fam = cfg["family"].split("/")[0]  # ctor-fs/<enc>/<ext>/<path kind> -> ctor-fs
        if obs[0] == "err" and exp0[0] == "ok":
            return (f"error-class:{obs[1]}-instead-of-ok@{fam}",
                    f"load raised {obs[1]} where the uncached twin (or the resident snapshot) "
                    f"gives {exp0[1]!r}")
        if obs[0] == "ok" and exp0[0] == "err":
            return (f"error-class:ok-instead-of-{exp0[1]}@{fam}",
                    f"load returned {obs[1]!r} where the uncached twin raises {exp0[1]}")
        if obs[0] == "err":
            return (f"error-class:{obs[1]}-instead-of-{exp0[1]}@{fam}",
                    f"load raised {obs[1]}, the uncached twin raises {exp0[1]}")
        po = ref.parse_out(obs[1])
        pe = ref.parse_out(exp0[1])
        if po is None or pe is None:
            return ("garbled-output", f"rendered {obs[1]!r}, expected {exp0[1]!r}")
        what = f"rendered {obs[1]!r}, expected {exp0[1]!r}"
        if po[:3] == pe[:3]:
            if po[3] != pe[3]:
                return ("stale-globals", what + " (the render used another caller's globals)")
            return ("env-globals", what + " (environment globals lost or invented)")
        obs_marker = po[:3]

        def marker(src: str) -> tuple[str, str, int] | None:
            p = ref.parse_out(ref.render_ref(ref.plain_text(src), None, None))
            return p[:3] if p else None

        if po[1] != name:
            return ("wrong-template", what + " (a different template name was served)")
        # an entry loaded for another namespace?
        other = [
            k2 for k2, e2 in model.last.items()
            if k2 != key and k2.rsplit("/", 1)[-1] == name and marker(e2.source) == obs_marker
        ]
        own = model.last.get(key)
        own_matches = own is not None and marker(own.source) == obs_marker
        if ref.is_t_family(fam) and po[0] != pe[0]:
            return ("load-context-collision",
                    what + " (the source chosen for another load context was served)")
        if (fam == "ctx" or ref.is_ns_family(fam)) and po[0] != pe[0]:
            return ("namespace-leak", what + " (content selected for another namespace)")
        if own_matches:
            if was_resident:
                return (f"stale-source@{fam}",
                        what + " (resident entry served although auto_reload is on and the "
                               "uncached loader now returns something else)")
            return ("lru-order:evicted-entry-served",
                    what + " (an entry the LRU reference had evicted / never stored was served)")
        if was_resident and now[0] == "ok" and marker(now[1]) == obs_marker:
            return ("lru-order:resident-entry-lost",
                    what + " (a resident entry was re-read: it was evicted although not least "
                           "recently used, or dropped)")
        if other:
            return ("namespace-leak", what + f" (matches the entry cached for {other[0]!r})")
        return ("wrong-source", what)

    # -- minimisation + keys ------------------------------------------------------
    def fails(self, cfg: dict[str, Any], ops: list[Op]) -> str | None:
        """Category if the history diverges exactly at its last step."""
        if not ops or ops[-1].kind not in ("load", "held"):
            return None
        self.ctx.count("minimiser_runs")
        d = self.run_history(cfg, ops, record=False, diag=self.diag)
        if d is not None and d.step == len(ops) - 1:
            return d.category
        return None

    def minimise(self, cfg: dict[str, Any], ops: list[Op], cat: str) -> list[Op]:
        cur = list(ops)
        for _ in range(6):
            before = list(cur)
            if len(cur) > 1:
                last = cur[-1]
                if self.fails(cfg, [last]) == cat:
                    cur = [last]
                else:
                    head = ddmin(
                        cur[:-1], lambda c, last=last: self.fails(cfg, [*c, last]) == cat,
                        max_calls=150,
                    )
                    cur = [*head, last]
            changed = True
            while changed:
                changed = False
                for cand in ref.simplifications(cur, cfg["family"]):
                    if cand != cur and self.fails(cfg, cand) == cat:
                        cur = cand
                        changed = True
                        break
            if cur == before:
                break
        return cur

    def key_for(self, cfg: dict[str, Any], small: list[Op], cat: str) -> str:
        """Mechanism key of a minimal failing history.

        capacity: the bare category.  Otherwise two counterfactual twins of the minimal
        history localise the mechanism: if it needs an async load and its all-sync twin
        shows no divergence at all, the mechanism is in the async path; if it needs a
        namespace and its namespace-free twin shows none, it is in the namespace
        handling.  Such keys name the step forms involved (whatever the symptom — wrong
        error, leak, stale entry — and whatever the loader family).  Everything else:
        symptom category + pattern of the minimal history."""
        if cat == "capacity-exceeded":
            return cat
        loads = [o for o in small if o.kind == "load"]
        base = cat.split(":")[0].split("@")[0]

        def forms(pred: Callable[[Op], bool]) -> str:
            out = set()
            for o in loads:
                if pred(o):
                    out.add(("aload" if o.mode else "load") + ("[ns]" if o.ns else "")
                            + ("(g)" if o.g == 1 else ""))
            return "+".join(sorted(out))

        if any(o.mode for o in loads):
            twin = [o._replace(mode=0) if o.kind == "load" else o for o in small]
            self.ctx.count("minimiser_runs")
            if self.run_history(cfg, twin, record=False) is None:
                return f"async-path-only:{base}:" + forms(lambda o: bool(o.mode))
        fam = cfg["family"]
        # a minimal history needs every one of its steps: if two of its loads have the same
        # cache key although their identities differ, that coincidence is the mechanism,
        # whatever the symptom (it may also act silently: replace or keep alive an entry)
        if ref.is_t_family(fam):
            for jb in range(len(small) - 1, 0, -1):
                for ja in range(jb - 1, -1, -1):
                    coll = ref.context_collision(small[ja], small[jb], fam, cfg.get("nskey", "ns"))
                    if coll is not None:
                        return f"load-context-collision:{coll}"
            return f"{cat}:{ref.pattern(ref.sort_commuting(small), cat, fam)}"
        if ref.is_ns_family(fam):
            for jb in range(len(small) - 1, 0, -1):
                for ja in range(jb - 1, -1, -1):
                    if small[ja].kind == "load" and small[jb].kind == "load":
                        coll = ref.engine_key_collision(small[ja], small[jb], fam)
                        if coll is not None:
                            return f"namespace-key-collision:{coll}"
            return f"{cat}:{ref.pattern(ref.sort_commuting(small), cat, fam)}"
        if any(o.ns for o in loads):
            twin = [o._replace(ns=0, via=0) if o.kind == "load" else o for o in small]
            self.ctx.count("minimiser_runs")
            if self.run_history(cfg, twin, record=False) is None:
                return f"namespace-path-only:{base}:" + forms(lambda o: bool(o.ns))
        return f"{cat}:{ref.pattern(ref.sort_commuting(small), cat, fam)}"

    def report(self, cfg: dict[str, Any], ops: list[Op], d: Divergence, origin: str) -> str:
        """Turn a divergence at the last executed step into a keyed violation."""
        ctx = self.ctx
        hist = list(ops[: d.step + 1])
        cat = d.category
        symptom = ""
        d_step = d.step
        self.diag = False
        if not cat.startswith("capacity"):
            # diagnostic pass: did the cache key derivation disagree before the symptom?
            d0 = self.run_history(cfg, hist, record=False, diag=True)
            if d0 is not None and d0.category.startswith("cache-key-") and d0.step < d.step:
                symptom = f"; first visible symptom at step {d.step}: {d.category}: {d.what}"
                d = d0
                cat = d0.category
                hist = hist[: d0.step + 1]
                self.diag = True
        try:
            return self._report(cfg, hist, d, cat, origin, symptom, list(ops[: d_step + 1]))
        finally:
            self.diag = False

    def _report(self, cfg: dict[str, Any], hist: list[Op], d: Divergence, cat: str,
                origin: str, symptom: str, full: list[Op]) -> str:
        ctx = self.ctx
        known = self.minimal.setdefault(cat, [])
        key = None
        small: list[Op] | None = None
        fam = cfg["family"]
        if ref.is_ns_family(fam) and not self.diag:
            # two loads of different (namespace, name) identity whose '<ns>/<name>' strings
            # coincide: named directly when that pair alone reproduces the divergence
            last = hist[-1]
            colliders = [
                j for j in range(len(hist) - 1)
                if hist[j].kind == "load"
                and ref.engine_key_collision(hist[j], last, fam) is not None
            ]
            if colliders:
                j = colliders[-1]
                coll = ref.engine_key_collision(hist[j], last, fam)
                pair = [hist[j]._replace(g=0), last._replace(g=0)]
                without = [o for i2, o in enumerate(hist) if i2 not in colliders]
                # the pair alone reproduces it, or taking the colliding loads away cures it
                if pair == hist or self.fails(cfg, pair) == cat or self.fails(cfg, without) != cat:
                    key, small = f"namespace-key-collision:{coll}", pair
                    ctx.count("violations_named_as_key_collision")
        if ref.is_t_family(fam) and not self.diag:
            last = hist[-1]
            nsk = cfg.get("nskey", "ns")
            colliders = [
                j for j in range(len(hist) - 1)
                if ref.context_collision(hist[j], last, fam, nsk) is not None
            ]
            if colliders:
                j = colliders[-1]
                coll = ref.context_collision(hist[j], last, fam, nsk)
                pair = [hist[j]._replace(g=0, mode=0, env=0), last._replace(g=0, mode=0, env=0)]
                without = [o for i2, o in enumerate(hist) if i2 not in colliders]
                if pair == hist or self.fails(cfg, pair) == cat or self.fails(cfg, without) != cat:
                    key, small = f"load-context-collision:{coll}", pair
                    ctx.count("violations_named_as_context_collision")
        for pat, k in ([] if key is not None else known):
            embs = list(ref.embeddings(pat, hist, exact=ref.concrete_names(cfg["family"])))
            if not embs:
                continue
            for idx in embs:
                sub = [hist[j] for j in idx]
                if sub == hist or self.fails(cfg, sub) == cat:
                    key, small = k, sub
                    ctx.count("violations_attributed_by_embedding")
                    break
            if key is None:
                # the selected steps do not fail on their own (another defect interferes),
                # but the minimal pattern itself fails under this configuration
                memo = (cfg_id(cfg), k)
                if memo not in self._pat_fails:
                    self._pat_fails[memo] = self.fails(cfg, pat) == cat
                if self._pat_fails[memo]:
                    key, small = k, list(pat)
                    ctx.count("violations_attributed_by_pattern")
            if key is not None:
                break
        if key is None:
            if self.min_budget > 0:
                self.min_budget -= 1
                small = self.minimise(cfg, hist, cat)
                key = self.key_for(cfg, small, cat)
                if not any(k == key for _, k in known):
                    known.append((small, key))
                    known.sort(key=lambda pk: len(pk[0]))
            else:
                key, small = f"{cat}:unminimised", hist
        d2 = d
        if small != hist:
            tr: list[str] = []
            d2 = self.run_history(cfg, small, record=False, trace=tr, diag=self.diag) or d
        wit = {
            "kind": "history", "cfg": dict(cfg), "ops": [o.j() for o in small],
            "readable": [ref.show_op(o, cfg["family"]) for o in small], "at": d2.view,
            "origin": origin,
        }
        if small != hist and len(hist) <= 8:
            wit["minimised_from"] = [ref.show_op(o, cfg["family"]) for o in hist]
        if symptom:
            # the key names the first disagreement about cache keys (diagnostic); the
            # behavioural violation is the symptom history, which is what replay executes
            wit["symptom"] = symptom[2:]
            wit["symptom_ops"] = [o.j() for o in full]
            wit["symptom_readable"] = [ref.show_op(o, cfg["family"]) for o in full]
        wit["category"] = cat
        ctx.violation(key, f"[{cfg_id(cfg)}] {cat}: {d2.what}{symptom}", wit)
        return key


def _classify_partials(fam: str, exp: tuple[str, str], obs: tuple[str, str]) -> tuple[str, str]:
    if obs[0] == "err" and exp[0] == "ok":
        return (f"error-class:{obs[1]}-instead-of-ok@{fam}",
                f"render raised {obs[1]} where the reference composes {exp[1]!r}")
    if obs[0] == "ok" and exp[0] == "err":
        return (f"error-class:ok-instead-of-{exp[1]}@{fam}",
                f"render returned {obs[1]!r} where an uncached load of a partial raises {exp[1]}")
    if obs[0] == "err":
        return (f"error-class:{obs[1]}-instead-of-{exp[1]}@{fam}",
                f"render raised {obs[1]}, expected {exp[1]}")
    what = f"rendered {obs[1]!r}, expected {exp[1]!r}"
    mo, me = ref.RE_MARKER.findall(obs[1]), ref.RE_MARKER.findall(exp[1])
    if len(mo) != len(me):
        return ("wrong-source", what)
    for a, b in zip(mo, me):
        if a == b:
            continue
        if a[1] != b[1]:
            return ("wrong-template", what)
        if a[0] != b[0]:
            return ("namespace-leak", what + f" (the {b[1]!r} loaded for another namespace)")
        if a[2] != b[2]:
            older = int(a[2]) < int(b[2])
            return (f"stale-partial@{fam}" if older else f"lru-order:resident-partial-reloaded@{fam}",
                    what + f" ({b[1]!r}: v{a[2]} served, v{b[2]} expected)")
        return ("stale-globals", what)
    return ("garbled-output", what)


def _key_disagreement(key: str, real_keys: set[str]) -> str | None:
    """Name a disagreement about how the cache key of a load is derived (None: the key
    is missing for another reason — the behavioural symptom names that)."""
    if any(key.endswith("/" + r) for r in real_keys):
        return "cache-key-without-namespace"
    if any(r.endswith("/" + key) for r in real_keys):
        return "cache-key-with-spurious-namespace"
    return None


def _short_now(now: tuple[Any, ...]) -> str:
    if now[0] == "ok":
        return f"ok:{now[1].split('|')[0][1:]}@{os.path.basename(str(now[2]))}"
    return f"err:{now[1]}"


# ---------------------------------------------------------------------------
# shard plans
# ---------------------------------------------------------------------------


FS_MODIFY_KINDS = (0, 1, 2)  # newer / older / equal mtime, in the main enumerated family


def exh_plan(tier: str, family: str, cap: int, auto: bool = False) -> list[tuple[int, dict[str, Any]]]:
    """[(length, canonical_histories kwargs)] making up the enumerated family.

    File-system families with auto_reload on (the only configurations in which an mtime
    is ever compared) take every modify step with a newer, an older and an equal mtime."""
    fs = family in FS_FAMILIES
    mk: dict[str, Any] = {"modify_kinds": FS_MODIFY_KINDS} if (fs and auto) else {}
    plan: list[tuple[int, dict[str, Any]]] = [(1, {}), (2, dict(mk)), (3, dict(mk))]
    if tier == "quick":
        # with capacity 3 a 4-step history can evict only at its last step, which no
        # later step can observe; quick leaves those to the thorough tier.  Length 4 in
        # quick: file-system families all-sync with newer mtimes only (older / equal at
        # length <= 3 and in the mtime family); families without freshness information
        # all-sync and all-async with auto_reload on, all-sync with it off (the flag has
        # no behavioural effect there).
        if cap < 3:
            modes = (0,) if (fs or not auto) else (0, 1)
            plan.append((4, {"per_op_mode": False, "uniform_modes": modes}))
    else:
        plan.append((4, dict(mk)))
        if not fs:
            plan.append((5, {"per_op_mode": False, "uniform_modes": (0,)}))
    return plan


def exh_expected(tier: str, family: str, cap: int, auto: bool = False) -> int:
    return sum(ref.count_canonical(ln, **kw) for ln, kw in exh_plan(tier, family, cap, auto))


def mtime_len(tier: str) -> int:
    return 4 if tier == "quick" else 5


def mtime_configs() -> list[dict[str, Any]]:
    # fs-multi: one CachingFileSystemLoader over two search paths
    return [{"family": f, "cap": c, "auto": True}
            for f in (*FS_FAMILIES, "fs-multi") for c in (1, 2)]


def globals_configs() -> list[dict[str, Any]]:
    """Environment globals that define the same name as the per-load globals."""
    out = [{"family": f, "cap": c, "auto": True, "site": 2}
           for f in ("dict", "choice-dict", "fs") for c in (1, 2)]
    # sources with front matter (matter keys overlap with environment globals, and for
    # one name with the per-load global too): with and without environment globals
    out += [{"family": f, "cap": c, "auto": True, "site": st}
            for f in M_FAMILIES for c in (1, 2) for st in (0, 2)]
    return out


GLOBALS_LEN = 3


def globals_expected() -> int:
    return len(globals_configs()) * sum(
        1 for ln in range(1, GLOBALS_LEN + 1) for _ in ref.globals_histories(ln))


def partials_configs() -> list[dict[str, Any]]:
    """(cfg, with namespaces, max length of the fully enumerated part)."""
    out = [{"family": "p-dict", "cap": c, "auto": True} for c in (1, 2, 3)]
    out.append({"family": "p-choice", "cap": 2, "auto": True})
    out.append({"family": "p-fs", "cap": 2, "auto": True})
    out += [{"family": "p-ctx", "cap": c, "auto": True} for c in (2, 3)]
    return out


def partials_plan(tier: str, family: str) -> tuple[bool, int, int]:
    """(namespaces?, max length enumerated all-sync AND all-async, max length all-sync)."""
    k = 0 if tier == "quick" else 1
    if family == "p-ctx":
        return True, 2 + k, 3 + k
    if family == "p-fs":
        return False, 3, 3 + k
    return False, 3 + k, 4 + k


def partials_items(tier: str, family: str) -> Iterator[tuple[Op, ...]]:
    with_ns, both, sync_only = partials_plan(tier, family)
    for ln in range(1, sync_only + 1):
        for ops in ref.partials_histories(ln, with_ns):
            yield ref.with_mode(ops, 0)
            if ln <= both:
                yield ref.with_mode(ops, 1)


def partials_expected(tier: str) -> int:
    n = 0
    for cfg in partials_configs():
        n += sum(1 for _ in partials_items(tier, cfg["family"]))
        n += 3 * sum(1 for _ in ref.partials_skeletons())
    return n


TAGROUTE_LEN = 3


def tagroute_configs() -> list[dict[str, Any]]:
    """The documented tag-routing subclass over CachingFileSystemLoader and a dict-based
    equivalent, without a namespace key and with namespace_key='variant' (then the user
    keyword the loader routes on is part of the cache key)."""
    return [
        {"family": "tag-fs", "cap": 2, "auto": True, "nskey": ""},
        {"family": "tag-fs", "cap": 1, "auto": False, "nskey": "variant"},
        {"family": "tag-dict", "cap": 2, "auto": True, "nskey": ""},
        {"family": "tag-dict", "cap": 3, "auto": True, "nskey": "variant"},
    ]


def tagroute_expected() -> int:
    return len(tagroute_configs()) * sum(
        1 for ln in range(1, TAGROUTE_LEN + 1) for _ in ref.tagroute_histories(ln))


def held_configs() -> list[tuple[dict[str, Any], bool, int]]:
    """(cfg, namespaces?, length enumerated all-sync beyond the common 4)."""
    base = {"held": 1}
    return [
        ({"family": "dict", "cap": 1, "auto": True, **base}, False, 5),
        ({"family": "dict", "cap": 2, "auto": True, "site": 2, **base}, False, 4),
        ({"family": "fs", "cap": 1, "auto": True, **base}, False, 5),
        ({"family": "fs", "cap": 2, "auto": True, **base}, False, 4),
        ({"family": "fs", "cap": 2, "auto": False, **base}, False, 4),
        ({"family": "ctx", "cap": 2, "auto": True, **base}, True, 4),
        ({"family": "choice-fs", "cap": 2, "auto": True, **base}, False, 4),
        ({"family": "m-fs", "cap": 2, "auto": True, **base}, False, 4),
    ]


def held_items(with_ns: bool, maxlen: int) -> Iterator[tuple[Op, ...]]:
    for ln in range(2, maxlen + 1):
        for ops in ref.held_histories(ln, with_ns):
            yield ref.with_mode(ops, 0)
            if ln <= 4:
                yield tuple(o._replace(mode=1) if o.kind in ("load", "held") else o for o in ops)


def held_expected() -> int:
    return sum(sum(1 for _ in held_items(w, m)) for _, w, m in held_configs())


def ctor_configs() -> list[dict[str, Any]]:
    """Every documented constructor argument that has an uncached counterpart."""
    out = []
    for enc in ref.C_ENCODINGS:
        for ext in ref.C_EXTS:
            for pk in ref.C_PATHKINDS:
                out.append({"family": ctor_family("fs", enc, ext, pk), "cap": 2, "auto": True})
        for ext in (None, ".liquid"):
            out.append({"family": ctor_family("choice", enc, ext), "cap": 2, "auto": True})
    return out


def ctor_expected() -> int:
    return len(ctor_configs()) * sum(1 for _ in ref.ctor_histories())


def locals_configs() -> list[dict[str, Any]]:
    return [{"family": "p-ctx", "cap": 2, "auto": True}, {"family": "p-ctx", "cap": 3, "auto": True},
            {"family": "p-dict", "cap": 3, "auto": True}]


def locals_expected() -> int:
    return 2 * len(locals_configs()) * sum(1 for _ in ref.locals_histories())


def nsval_configs() -> list[dict[str, Any]]:
    return [{"family": f, "cap": 2, "auto": True} for f in NS_FAMILIES]


def mtime_expected(tier: str) -> int:
    per = sum(1 for ln in range(1, mtime_len(tier) + 1) for _ in ref.mtime_histories(ln))
    per += sum(1 for _ in ref.mtime_skeletons())
    return per * len(mtime_configs())


def exh_parts(tier: str, family: str, cap: int, auto: bool = False) -> int:
    if tier == "quick":
        if cap == 3:
            return 1
        return 3 if (family in FS_FAMILIES and auto) else 2
    return 36 if (family in FS_FAMILIES and auto) else 24


def lrudeep_len(tier: str) -> int:
    return 6 if tier == "quick" else 7


def configs() -> list[dict[str, Any]]:
    return [
        {"family": f, "cap": c, "auto": a}
        for f in FAMILIES for c in (1, 2, 3) for a in (True, False)
    ]


def shards(tier: str, seed: int) -> list[dict[str, Any]]:  # noqa: ARG001
    specs: list[dict[str, Any]] = []
    # slowest first so the pool stays busy
    for cfg in sorted(configs(), key=lambda c: c["family"] not in FS_FAMILIES):
        n = exh_parts(tier, cfg["family"], cfg["cap"], cfg["auto"])
        for i in range(n):
            specs.append({"kind": "exh", "cfg": cfg, "i": i, "n": n})
    nm = 2 if tier == "quick" else 12
    for cfg in mtime_configs():
        for i in range(nm):
            specs.append({"kind": "mtime", "cfg": cfg, "i": i, "n": nm})
    for cfg in nsval_configs():
        nn = (6 if cfg["family"] == "ns-fs" else 3) * (1 if tier == "quick" else 2)
        for i in range(nn):
            specs.append({"kind": "nsval", "cfg": cfg, "i": i, "n": nn})
    for cfg in partials_configs():
        npp = (2 if tier == "quick" else 8)
        for i in range(npp):
            specs.append({"kind": "partials", "cfg": cfg, "i": i, "n": npp})
    for cfg in globals_configs():
        specs.append({"kind": "globals", "cfg": cfg})
    for cfg in locals_configs():
        specs.append({"kind": "locals", "cfg": cfg})
    for k in range(len(held_configs())):
        specs.append({"kind": "held", "k": k})
    cc = ctor_configs()
    ncc = 4 if tier == "quick" else 8
    for i in range(ncc):
        specs.append({"kind": "ctor", "cfgs": cc[i::ncc]})
    for cfg in tagroute_configs():
        nt2 = 2 if cfg["family"] == "tag-fs" else 1
        for i in range(nt2):
            specs.append({"kind": "tagroute", "cfg": cfg, "i": i, "n": nt2})
    nr = 12 if tier == "quick" else 48
    for i in range(nr):
        specs.append({"kind": "random", "i": i, "n": nr})
    for fam in ("dict", "fs", "choice-dict", "ctx"):
        for cap in (1, 2, 3):
            specs.append({"kind": "lrudeep", "cfg": {"family": fam, "cap": cap, "auto": False}})
    specs.append({"kind": "lrudeep", "cfg": {"family": "dict", "cap": 2, "auto": True}})
    ns = 2 if tier == "quick" else 6
    for i in range(ns):
        specs.append({"kind": "sched", "i": i, "n": ns})
    specs.append({"kind": "lrucache"})
    specs.append({"kind": "typedglobals"})
    nt = 2 if tier == "quick" else 8
    for i in range(nt):
        specs.append({"kind": "threads", "i": i, "n": nt})
    return specs


def floors(tier: str) -> dict[str, int]:
    if tier == "quick":
        return {
            "evaluations": 1_500_000,
            "loads_compared": 1_500_000,
            "distinct_nontrivial": 100_000,
            "set:configs": 30,
            "exh_histories_done": 800_000,
            "mtime_histories_done": 87_876,
            "nsval_histories_done": 194_940,
            "partials_histories_done": 58_100,
            "ev:tag-load": 100_000,
            "globals_histories_done": 38_192,
            "locals_histories_done": 13_968,
            "ctor_histories_done": 29_040,
            "held_histories_done": 35_602,
            "typed_sequences_done": 7_362,
            "set:typed_configs": 9,
            "held_renders_compared": 30_000,
            "set:ctor_configs": 44,
            "tagroute_histories_done": 25_248,
            "ev:reload-other-env": 500,
            "set:nsval_value_pairs": 110,
            "set:nsval_channels": 25,
            "reload_older_mtime": 5_000,
            "reload_newer_mtime": 5_000,
            "ev:hit-equal-mtime": 1_000,
            "lrudeep_histories_done": 40_000,
            "ev:hit": 150_000,
            "ev:miss": 1_000_000,
            "ev:reload": 10_000,
            "ev:hit-verified": 30_000,
            "ev:miss-failed": 40_000,
            "model_evictions": 400_000,
            "random_histories": 4_000,
            "twin_full_renders": 30_000,
            "schedules_explored": 5_000,
            "sched_scenarios_exhaustive": 200,
            "lrucache_sequences": 250_000,
            "thread_quiescent_checks": 60,
        }
    return {
        "evaluations": 30_000_000,
        "loads_compared": 30_000_000,
        "distinct_nontrivial": 250_000,
        "nontrivial_histories": 2_000_000,
        "set:configs": 30,
        "exh_histories_done": 15_000_000,
        "mtime_histories_done": 1_000_000,
        "nsval_histories_done": 194_940,
        "partials_histories_done": 594_485,
        "ev:tag-load": 1_000_000,
        "globals_histories_done": 38_192,
            "locals_histories_done": 13_968,
            "ctor_histories_done": 29_040,
            "held_histories_done": 35_602,
            "typed_sequences_done": 7_362,
            "set:typed_configs": 9,
            "held_renders_compared": 30_000,
            "set:ctor_configs": 44,
        "tagroute_histories_done": 25_248,
        "ev:reload-other-env": 5_000,
        "set:nsval_value_pairs": 110,
        "set:nsval_channels": 25,
        "reload_older_mtime": 50_000,
        "reload_newer_mtime": 50_000,
        "ev:hit-equal-mtime": 10_000,
        "lrudeep_histories_done": 200_000,
        "ev:hit": 3_000_000,
        "ev:miss": 20_000_000,
        "ev:reload": 100_000,
        "ev:hit-verified": 250_000,
        "ev:miss-failed": 1_000_000,
        "model_evictions": 8_000_000,
        "random_histories": 60_000,
        "twin_full_renders": 400_000,
        "schedules_explored": 80_000,
        "sched_scenarios_exhaustive": 500,
        "lrucache_sequences": 3_000_000,
        "thread_quiescent_checks": 800,
    }


def exhaustive(tier: str, merged: dict[str, Any]) -> bool:
    want = sum(exh_expected(tier, c["family"], c["cap"], c["auto"]) for c in configs())
    got = merged["counters"].get("exh_histories_done", 0)
    if merged["counters"].get("mtime_histories_done", 0) != mtime_expected(tier):
        return False
    if merged["counters"].get("nsval_histories_done", 0) != ref.nsval_count() * len(nsval_configs()):
        return False
    if merged["counters"].get("partials_histories_done", 0) != partials_expected(tier):
        return False
    if merged["counters"].get("globals_histories_done", 0) != globals_expected():
        return False
    if merged["counters"].get("tagroute_histories_done", 0) != tagroute_expected():
        return False
    if merged["counters"].get("locals_histories_done", 0) != locals_expected():
        return False
    if merged["counters"].get("ctor_histories_done", 0) != ctor_expected():
        return False
    if merged["counters"].get("held_histories_done", 0) != held_expected():
        return False
    if merged["counters"].get("typed_sequences_done", 0) != typed_expected():
        return False
    return got == want and not merged.get("truncated") and not merged.get("failed")


# ---------------------------------------------------------------------------
# shard bodies
# ---------------------------------------------------------------------------


def run_shard(spec: dict[str, Any], ctx: Ctx) -> None:
    warnings.filterwarnings("ignore", category=RuntimeWarning)
    kind = spec["kind"]
    if kind == "lrucache":
        _lrucache(spec, ctx)
        return
    if kind == "typedglobals":
        _typedglobals(spec, ctx)
        return
    if kind == "threads":
        _threads(spec, ctx)
        return
    if kind == "sched":
        _sched(spec, ctx)
        return
    h = Harness(ctx, inline_executor=(kind != "random"), with_site=(kind == "random"))
    try:
        if kind == "exh":
            _exh(h, spec, ctx)
        elif kind == "lrudeep":
            _lrudeep(h, spec, ctx)
        elif kind == "mtime":
            _mtime(h, spec, ctx)
        elif kind == "nsval":
            _nsval(h, spec, ctx)
        elif kind == "partials":
            _partials(h, spec, ctx)
        elif kind == "globals":
            _globals(h, spec, ctx)
        elif kind == "tagroute":
            _tagroute(h, spec, ctx)
        elif kind == "locals":
            _locals(h, spec, ctx)
        elif kind == "ctor":
            _ctor(h, spec, ctx)
        elif kind == "held":
            _held(h, spec, ctx)
        elif kind == "random":
            _random(h, spec, ctx)
        else:
            raise ValueError(kind)
    finally:
        h.close()


def _run_and_report(h: Harness, cfg: dict[str, Any], ops: tuple[Op, ...] | list[Op],
                    ctx: Ctx, origin: str, only_last: bool) -> None:
    d = h.run_history(cfg, ops, record=True)
    if d is None:
        return
    if only_last and d.step != len(ops) - 1:
        # the divergence belongs to (and is reported by) the shorter history ending there
        ctx.count("exh_cut_by_earlier_divergence")
        return
    ctx.count("histories_diverged")
    h.report(cfg, list(ops), d, origin)


def _exh(h: Harness, spec: dict[str, Any], ctx: Ctx) -> None:
    cfg = spec["cfg"]
    tier = spec["tier"]
    ctx.seen("configs", cfg_id(cfg))
    if tier != "quick":
        h.nt_mod = 16  # keep the merged hash set small; 'nontrivial_histories' is the full count
    if spec["i"] == 0 and cfg["cap"] == 1 and cfg["auto"]:
        ctx.note(
            f"enumerated family [{cfg['family']}, {tier}]: "
            + "; ".join(f"length {ln}: {kw or 'sync/async per step'}"
                        for ln, kw in exh_plan(tier, cfg["family"], 2, True))
            + (" (capacity 3: lengths <= 3 only)" if tier == "quick" else "")
        )
    idx = 0
    i, n = spec["i"], spec["n"]
    sample = None
    for ln, kw in exh_plan(tier, cfg["family"], cfg["cap"], cfg["auto"]):
        for ops in ref.canonical_histories(ln, **kw):
            idx += 1
            if idx % n != i:
                continue
            if idx & 255 == 0:
                ctx.check_deadline()
            _run_and_report(h, cfg, ops, ctx, "exhaustive", only_last=True)
            ctx.count("exh_histories_done")
            ctx.count(f"exh_len{ln}_done")
            sample = ops
    ctx.count("real_source_consultations", h.store(cfg["family"]).consults)
    if sample is not None and i == 0:
        ctx.sample({"kind": "exhaustive", "cfg": cfg_id(cfg),
                    "history": [ref.show_op(o, cfg["family"]) for o in sample]})


def _lrudeep(h: Harness, spec: dict[str, Any], ctx: Ctx) -> None:
    cfg = spec["cfg"]
    ctx.seen("configs", cfg_id(cfg))
    for ln in range(1, lrudeep_len(spec["tier"]) + 1):
        for k, ops in enumerate(ref.lru_deep_histories(ln)):
            if k & 255 == 0:
                ctx.check_deadline()
            _run_and_report(h, cfg, ops, ctx, "lrudeep", only_last=True)
            ctx.count("lrudeep_histories_done")


def _mtime(h: Harness, spec: dict[str, Any], ctx: Ctx) -> None:
    """File freshness family: every mtime kind / rename / delete+create (see c14_lru)."""
    cfg = spec["cfg"]
    ctx.seen("configs", cfg_id(cfg))
    i, n = spec["i"], spec["n"]
    idx = 0
    last = None
    for ln in range(1, mtime_len(spec["tier"]) + 1):
        for ops in ref.mtime_histories(ln):
            idx += 1
            if idx % n != i:
                continue
            if idx & 255 == 0:
                ctx.check_deadline()
            _run_and_report(h, cfg, ops, ctx, "mtime", only_last=True)
            ctx.count("mtime_histories_done")
    for ops in ref.mtime_skeletons():
        idx += 1
        if idx % n != i:
            continue
        if idx & 255 == 0:
            ctx.check_deadline()
        _run_and_report(h, cfg, ops, ctx, "mtime", only_last=False)
        ctx.count("mtime_histories_done")
        last = ops
    if last is not None and i == 0:
        ctx.sample({"kind": "mtime", "cfg": cfg_id(cfg), "history": [ref.show_op(o, cfg["family"]) for o in last]})


def _partials(h: Harness, spec: dict[str, Any], ctx: Ctx) -> None:
    """Templates that load templates (render / include / extends, nested)."""
    cfg = spec["cfg"]
    fam = cfg["family"]
    ctx.seen("configs", cfg_id(cfg))
    i, n = spec["i"], spec["n"]
    idx = 0
    last = None
    for ops in partials_items(spec["tier"], fam):
        idx += 1
        if idx % n != i:
            continue
        if idx & 255 == 0:
            ctx.check_deadline()
        _run_and_report(h, cfg, ops, ctx, "partials", only_last=True)
        ctx.count("partials_histories_done")
    for sk in ref.partials_skeletons():
        for mode in (0, 1, 2):
            idx += 1
            if idx % n != i:
                continue
            ops = ref.with_mode(sk, mode)
            _run_and_report(h, cfg, ops, ctx, "partials", only_last=False)
            ctx.count("partials_histories_done")
            last = ops
    if last is not None and i == 0:
        ctx.sample({"kind": "partials", "cfg": cfg_id(cfg),
                    "history": [ref.show_op(o, fam) for o in last]})


def _globals(h: Harness, spec: dict[str, Any], ctx: Ctx) -> None:
    """Which layer wins: render argument > template globals > environment globals, on an
    Environment whose globals use the same variable name."""
    cfg = spec["cfg"]
    ctx.seen("configs", cfg_id(cfg))
    last = None
    for ln in range(1, GLOBALS_LEN + 1):
        for k, ops in enumerate(ref.globals_histories(ln)):
            if k & 255 == 0:
                ctx.check_deadline()
            _run_and_report(h, cfg, ops, ctx, "globals", only_last=True)
            ctx.count("globals_histories_done")
            last = ops
    if last is not None:
        ctx.sample({"kind": "globals", "cfg": cfg_id(cfg),
                    "history": [ref.show_op(o, cfg["family"]) for o in last]})


def _held(h: Harness, spec: dict[str, Any], ctx: Ctx) -> None:
    """Callers keep the Template they were given and render it again after other loads."""
    cfg, with_ns, maxlen = held_configs()[spec["k"]]
    ctx.seen("configs", cfg_id(cfg))
    last = None
    for k, ops in enumerate(held_items(with_ns, maxlen)):
        if k & 255 == 0:
            ctx.check_deadline()
        _run_and_report(h, cfg, ops, ctx, "held", only_last=True)
        ctx.count("held_histories_done")
        last = ops
    if last is not None:
        ctx.sample({"kind": "held", "cfg": cfg_id(cfg),
                    "history": [ref.show_op(o, cfg["family"]) for o in last]})


def _ctor(h: Harness, spec: dict[str, Any], ctx: Ctx) -> None:
    """Constructor arguments: the caching loader and the uncached one built with the same
    search_path kind / encoding / ext / delegate list, over non-ASCII sources."""
    last = None
    for cfg in spec["cfgs"]:
        ctx.seen("configs", cfg_id(cfg))
        ctx.seen("ctor_configs", cfg["family"])
        for k, ops in enumerate(ref.ctor_histories()):
            if k & 255 == 0:
                ctx.check_deadline()
            _run_and_report(h, cfg, ops, ctx, "ctor", only_last=True)
            ctx.count("ctor_histories_done")
            last = (cfg, ops)
    if last is not None:
        ctx.sample({"kind": "ctor", "cfg": cfg_id(last[0]),
                    "history": [ref.show_op(o, last[0]["family"]) for o in last[1]]})


def _locals(h: Harness, spec: dict[str, Any], ctx: Ctx) -> None:
    """Roots that bind the namespace key's name locally (assign / capture / for variable /
    with / include argument) or pass it as a render argument, before tags load partials."""
    cfg = spec["cfg"]
    ctx.seen("configs", cfg_id(cfg))
    last = None
    for k, ops in enumerate(ref.locals_histories()):
        if k & 255 == 0:
            ctx.check_deadline()
        for mode in (0, 1):
            o2 = ref.with_mode(ops, mode)
            _run_and_report(h, cfg, o2, ctx, "locals", only_last=True)
            ctx.count("locals_histories_done")
            last = o2
    if last is not None:
        ctx.sample({"kind": "locals", "cfg": cfg_id(cfg),
                    "history": [ref.show_op(o, cfg["family"]) for o in last]})


def _tagroute(h: Harness, spec: dict[str, Any], ctx: Ctx) -> None:
    """docs/loading_templates.md 'Load context': a subclass that routes on the `tag`
    keyword (and on a user keyword), cached vs its uncached counterpart."""
    cfg = spec["cfg"]
    ctx.seen("configs", cfg_id(cfg))
    i, n = spec["i"], spec["n"]
    idx = 0
    last = None
    for ln in range(1, TAGROUTE_LEN + 1):
        for ops in ref.tagroute_histories(ln):
            idx += 1
            if idx % n != i:
                continue
            if idx & 255 == 0:
                ctx.check_deadline()
            _run_and_report(h, cfg, ops, ctx, "tagroute", only_last=True)
            ctx.count("tagroute_histories_done")
            last = ops
    if last is not None and i == 0:
        ctx.sample({"kind": "tagroute", "cfg": cfg_id(cfg),
                    "history": [ref.show_op(o, cfg["family"]) for o in last]})


def _nsval(h: Harness, spec: dict[str, Any], ctx: Ctx) -> None:
    """Namespace-value family on the tenant-aware loaders (see c14_lru.nsval_pairs)."""
    cfg = spec["cfg"]
    ctx.seen("configs", cfg_id(cfg))
    i, n = spec["i"], spec["n"]
    last = None
    for idx, ops in enumerate(ref.nsval_pairs()):
        if idx % n != i:
            continue
        if idx & 1023 == 0:
            ctx.check_deadline()
        _run_and_report(h, cfg, ops, ctx, "nsval", only_last=False)
        ctx.count("nsval_histories_done")
        if ops[0].ns and ops[1].ns and ops[0].ns != ops[1].ns:
            ctx.seen("nsval_value_pairs", (ops[0].ns, ops[1].ns))
        ctx.seen("nsval_channels", (ops[0].via, ops[1].via))
        last = ops
    if last is not None and i == 0:
        ctx.sample({"kind": "nsval", "cfg": cfg_id(cfg),
                    "history": [ref.show_op(o, cfg["family"]) for o in last]})


def random_history(rng: random.Random, length: int, fam: str = "") -> list[Op]:
    if ref.is_ns_family(fam):
        return _random_ns_history(rng, length)
    if ref.is_p_family(fam):
        return _random_p_history(rng, length, fam == "p-ctx")
    if ref.is_t_family(fam):
        return _random_t_history(rng, length)
    ops: list[Op] = []
    n_names = rng.choice((2, 3, 3))
    for _ in range(length):
        r = rng.random()
        if r < 0.66:
            ops.append(Op("load", rng.randrange(n_names), rng.choice((0, 0, 1, 2)),
                          rng.choice((0, 1, 1, 2, 3, 4)), rng.randrange(2), rng.randrange(2),
                          1 if rng.random() < 0.12 else 0))
            if not ops[-1].ns:
                ops[-1] = ops[-1]._replace(via=0)
        elif r < 0.82:
            # mtime kind / rename only mean something to the file-backed families
            ops.append(Op("modify", rng.randrange(n_names), 0,
                          rng.choice((0, 0, 0, 1, 1, 2, 3, 4, 5)), 0, rng.randrange(2)))
        elif r < 0.91:
            ops.append(Op("delete", rng.randrange(n_names)))
        else:
            ops.append(Op("fail"))
    ops.append(Op("load", rng.randrange(n_names), rng.choice((0, 1, 2)), rng.randrange(2),
                  rng.randrange(2), 0))
    return ops


def _random_ns_history(rng: random.Random, length: int) -> list[Op]:
    """Random history over the namespace-value vocabulary: few names and a small pool of
    values per history (so that the same and the colliding identities recur)."""
    if rng.random() < 0.7:
        # vocabulary without two identities whose '<ns>/<name>' strings coincide, so that
        # long histories are not all cut short by the key-collision finding
        free = [i + 1 for i, v in enumerate(ref.NS_VALUES) if v not in ("0", "1", "a/b")]
        pool = [0, 0] + rng.sample(free, rng.choice((2, 3, 4)))
        has_a = any(ref.NS_VALUES[i - 1] == "a" for i in pool if i)
        allowed = [0, 2] if has_a else list(range(len(ref.NS_NAMES)))
        names = rng.sample(allowed, rng.choice((1, 2)))
    else:
        names = rng.sample(range(len(ref.NS_NAMES)), rng.choice((1, 2, 3)))
        pool = [0, 0] + rng.sample(range(1, len(ref.NS_VALUES) + 1), rng.choice((2, 3, 4)))
    ops: list[Op] = []

    def load() -> Op:
        ns = rng.choice(pool)
        via = rng.randrange(5) if ns else rng.choice((0, 0, 2, 3))
        return Op("load", rng.choice(names), ns, rng.choice((0, 1, 1, 2, 3, 4)), rng.randrange(2), via)

    for _ in range(length):
        r = rng.random()
        if r < 0.72:
            ops.append(load())
        elif r < 0.86:
            ops.append(Op("modify", rng.choice(names), 0, rng.choice((0, 0, 1, 2)), 0, 0))
        elif r < 0.93:
            ops.append(Op("delete", rng.choice(names)))
        else:
            ops.append(Op("fail"))
    ops.append(load())
    return ops


def _random_p_history(rng: random.Random, length: int, with_ns: bool) -> list[Op]:
    """Random history over the partial-loading vocabulary."""
    ops: list[Op] = []

    def load() -> Op:
        ns = rng.choice((0, 0, 1, 2)) if with_ns else 0
        top = rng.choice(ref.P_TOPS if rng.random() < 0.6 else ref.P_LOCAL_ROOTS)
        return Op("load", top, ns, rng.choice((0, 1, 1)), rng.randrange(2), 0)

    for _ in range(length):
        r = rng.random()
        if r < 0.7:
            ops.append(load())
        else:
            kind, n = rng.choice(ref.P_MUTATIONS)
            ops.append(Op(kind, n))
    ops.append(load())
    return ops


def _random_t_history(rng: random.Random, length: int) -> list[Op]:
    """Random history over the tag-routing vocabulary."""
    ops: list[Op] = []

    def load() -> Op:
        return Op("load", rng.randrange(2), 0, rng.choice((0, 1, 1, 3)), rng.randrange(2),
                  rng.choice(ref.T_CHANNELS), 1 if rng.random() < 0.15 else 0)

    for _ in range(length):
        r = rng.random()
        if r < 0.68:
            ops.append(load())
        elif r < 0.86:
            ops.append(Op("modify", rng.randrange(6), 0, rng.choice((0, 0, 1, 2))))
        elif r < 0.94:
            ops.append(Op("delete", rng.randrange(6)))
        else:
            ops.append(Op("fail"))
    ops.append(load())
    return ops


RANDOM_FAMILIES = (*FAMILIES, "fs-multi", *NS_FAMILIES, *P_FAMILIES, *T_FAMILIES, *M_FAMILIES,
                   "ctor-fs/latin-1/.liquid/list", "ctor-fs/utf-16/no-ext/Path",
                   "ctor-choice/cp1252/.liquid/str")


def _random(h: Harness, spec: dict[str, Any], ctx: Ctx) -> None:
    tier = spec["tier"]
    rng = random.Random(f"{spec['seed']}:random:{spec['i']}")
    h.full_twin = True
    h.min_budget = 40
    per = 400 if tier == "quick" else 1500
    last = None
    for hi in range(per):
        if hi & 15 == 0:
            ctx.check_deadline()
        fam = RANDOM_FAMILIES[(hi + spec["i"]) % len(RANDOM_FAMILIES)]
        cfg = {
            "family": fam, "cap": rng.choice((1, 2, 3)), "auto": rng.random() < 0.5,
            "nskey": "ns" if (fam in ("ctx", "p-ctx") or ref.is_ns_family(fam)
                              or rng.random() < 0.8) else "",
            "site": rng.choice((0, 0, 0, 0, 1, 2, 2)),
            "inject": rng.choice(INJECT_KINDS),
        }
        if ref.is_p_family(fam):
            cfg["site"] = 0  # the partial-loading runner uses the plain environment
        if ref.is_t_family(fam):
            cfg["nskey"] = rng.choice(("", "variant"))
        ctx.seen("configs", cfg_id({"family": fam, "cap": cfg["cap"], "auto": cfg["auto"]}))
        ctx.seen("random_configs", cfg_id(cfg))
        ops = random_history(rng, rng.randrange(5, 40), fam)
        ctx.mx("max:random_history_length", len(ops))
        _run_and_report(h, cfg, ops, ctx, "random", only_last=False)
        ctx.count("random_histories")
        last = (cfg, ops)
    if last is not None:
        ctx.sample({"kind": "random", "cfg": cfg_id(last[0]),
                    "history": [ref.show_op(o, last[0]["family"]) for o in last[1]]})


# ---------------------------------------------------------------------------
# concurrent async callers under the deterministic scheduler
# ---------------------------------------------------------------------------


def sched_scenarios(tier: str = "thorough") -> list[dict[str, Any]]:
    """callers: [name index, has globals, pause between load and render], sorted.
    quick keeps the 3-caller scenarios with at most one pausing caller and capacity 1."""
    out = []
    caller_kinds = [(n, g, p) for n in (0, 1) for g in (1, 0) for p in (0, 1)]
    for ncall in (2, 3):
        for callers in itertools.combinations_with_replacement(caller_kinds, ncall):
            if min(c[0] for c in callers) != 0:
                continue  # canonical: name a is used
            for warm in (0, 1):
                for cap in (1, 2):
                    if tier == "quick" and ncall == 3 and (
                        cap != 1 or sum(c[2] for c in callers) > 1
                    ):
                        continue
                    out.append({"callers": sorted(list(c) for c in callers),
                                "warm": warm, "cap": cap})
    return out


class SchedRunner:
    def __init__(self, ctx: Ctx):
        self.ctx = ctx
        k = K()
        self.env = k.Environment()
        self.templates = {n: ref.body("src", n, 0) for n in NAMES}

    def run(self, sc: dict[str, Any], prefix: list[int]):
        """One schedule: follow *prefix*, then always the first live coroutine."""
        k = K()
        loader = k.CachingGatedDictLoader(dict(self.templates), capacity=sc["cap"])
        env = self.env
        env.loader = loader
        if sc["warm"]:
            for n in sorted({c[0] for c in sc["callers"]}):
                env.get_template(NAMES[n], globals={"who": "warmup"}).render()
        lives: list[list[int]] = []

        def choose(live: list[int], step: int) -> int:
            lives.append(list(live))
            if step < len(prefix) and prefix[step] in live:
                return live.index(prefix[step])
            return 0

        def factory(i: int, c: list[int]) -> Callable[[], Any]:
            async def caller() -> str:
                g = {"who": f"caller{i}"} if c[1] else None
                t = await env.get_template_async(NAMES[c[0]], globals=g)
                if c[2]:
                    await sched.Gate(("pause", i))
                return await t.render_async()

            return caller

        outcomes, taken = sched.run_schedule(
            [factory(i, c) for i, c in enumerate(sc["callers"])], choose
        )
        return outcomes, taken, lives, len(loader.cache)

    def judge(self, sc: dict[str, Any], outcomes, clen: int) -> tuple[str, str] | None:  # noqa: ANN001
        if clen > sc["cap"]:
            return ("capacity-exceeded", f"len(cache)={clen} > {sc['cap']}")
        for i, (c, o) in enumerate(zip(sc["callers"], outcomes)):
            who = f"caller{i}" if c[1] else None
            exp = ref.render_ref(self.templates[NAMES[c[0]]], who, None)
            if o.error is not None:
                return (f"concurrent-error:{type(o.error).__name__}",
                        f"caller {i} raised {type(o.error).__name__}: {o.error}")
            if o.value != exp:
                po, pe = ref.parse_out(str(o.value)), ref.parse_out(exp)
                if po and pe and po[:3] == pe[:3]:
                    return ("concurrent-globals",
                            f"caller {i} rendered {o.value!r}, expected {exp!r}: another "
                            "caller's globals were used")
                return ("concurrent-wrong-source", f"caller {i} rendered {o.value!r}, expected {exp!r}")
        return None

    def explore(self, sc: dict[str, Any], record: bool, limit: int = 5000):
        """DFS over all schedules.  Returns (n_schedules, first failure or None, complete)."""
        stack: list[list[int]] = [[]]
        n = 0
        first = None
        while stack:
            if n >= limit:
                return n, first, False
            prefix = stack.pop()
            outcomes, taken, lives, clen = self.run(sc, prefix)
            n += 1
            if record:
                self.ctx.count("schedules_explored")
                self.ctx.ev(len(sc["callers"]))
                self.ctx.nt("sched", repr(sc), tuple(taken))
            v = self.judge(sc, outcomes, clen)
            if v is not None and first is None:
                first = (v, list(taken), [o.key() for o in outcomes])
                if not record:
                    return n, first, False
            for k in range(len(prefix), len(taken)):
                for alt in lives[k]:
                    if alt != taken[k]:
                        stack.append([*taken[:k], alt])
        return n, first, True


def sched_pattern(sc: dict[str, Any]) -> str:
    names = sorted({c[0] for c in sc["callers"]})
    multi = len(names) > 1
    parts = []
    for c in sc["callers"]:
        s = "aload" + (" " + "xyz"[names.index(c[0])] if multi else "")
        s += "(g)" if c[1] else "(no-g)"
        s += ".pause.render" if c[2] else ".render"
        parts.append(s)
    return ("warm" if sc["warm"] else "cold") + ":" + "||".join(sorted(parts))


def _sched(spec: dict[str, Any], ctx: Ctx) -> None:
    r = SchedRunner(ctx)
    scs = sched_scenarios(spec["tier"])
    failing: dict[str, list[dict[str, Any]]] = {}
    for si, sc in enumerate(scs):
        if si % spec["n"] != spec["i"]:
            continue
        ctx.check_deadline()
        n, first, complete = r.explore(sc, record=True)
        ctx.count("sched_scenarios")
        if complete:
            ctx.count("sched_scenarios_exhaustive")
        ctx.mx("max:schedules_per_scenario", n)
        if first is None:
            continue
        (cat, what), taken, outs = first
        # minimise the scenario: drop callers, drop pauses, drop globals, cold cache, cap
        cur = sc

        def still(c2: dict[str, Any]) -> bool:
            _, f2, _ = r.explore(c2, record=False)
            return f2 is not None and f2[0][0] == cat

        changed = True
        while changed:
            changed = False
            cands = []
            if len(cur["callers"]) > 2:
                for j in range(len(cur["callers"])):
                    cands.append({**cur, "callers": cur["callers"][:j] + cur["callers"][j + 1:]})
            for j, c in enumerate(cur["callers"]):
                # prefer: no pause, WITH globals (so a scenario that only fails because a
                # caller passes none keeps saying so), first name
                for pos, val in ((2, 0), (1, 1), (0, 0)):
                    if c[pos] != val:
                        c2 = list(c)
                        c2[pos] = val
                        cands.append({**cur, "callers": cur["callers"][:j] + [c2] + cur["callers"][j + 1:]})
            if cur["warm"]:
                cands.append({**cur, "warm": 0})
            if cur["cap"] > 1:
                cands.append({**cur, "cap": 1})
            for c2 in cands:
                c2 = {**c2, "callers": sorted(c2["callers"])}
                if c2 != cur and still(c2):
                    cur = c2
                    changed = True
                    break
        _, f3, _ = r.explore(cur, record=False)
        if f3 is None:
            cur, f3 = sc, first
        (cat3, what3), taken3, outs3 = f3
        key = f"{cat3}:{sched_pattern(cur)}"
        failing.setdefault(key, []).append(cur)
        ctx.violation(key, what3, {
            "kind": "sched", "scenario": cur, "schedule": taken3, "outcomes": outs3,
            "minimised_from": sc if cur != sc else None,
        })
    ctx.sample({"kind": "sched", "scenario": scs[spec["i"]], "pattern": sched_pattern(scs[spec["i"]])})


# ---------------------------------------------------------------------------
# LRUCache / ThreadSafeLRUCache: differential op sequences and a thread stress
# ---------------------------------------------------------------------------


def lrucache_sequences(maxlen: int):
    """Canonical (keys named by first use) sequences over get/set/del/in on <= 3 keys."""

    def rec(prefix: tuple[tuple[str, int], ...], used: int):
        if prefix:
            yield prefix
        if len(prefix) == maxlen:
            return
        for kind in ("set", "get", "del", "in"):
            for kx in range(min(used + 1, 3)):
                yield from rec((*prefix, (kind, kx)), max(used, kx + 1))

    yield from rec((), 0)


def lrucache_check(cls: Any, cap: int, seq) -> tuple[str, str] | None:  # noqa: ANN001
    from collections import OrderedDict

    cache = cls(cap)
    model: OrderedDict[int, tuple[int, int]] = OrderedDict()
    for step, (kind, kx) in enumerate(seq):
        exp: Any
        got: Any
        if kind == "set":
            val = (kx, step)
            cache[kx] = val
            if kx in model:
                model.move_to_end(kx)
            elif len(model) >= cap:
                model.popitem(last=False)
            model[kx] = val
            exp = got = None
        elif kind == "get":
            try:
                got = cache[kx]
            except KeyError:
                got = KeyError
            if kx in model:
                model.move_to_end(kx)
                exp = model[kx]
            else:
                exp = KeyError
        elif kind == "del":
            try:
                del cache[kx]
                got = None
            except KeyError:
                got = KeyError
            exp = None if kx in model else KeyError
            model.pop(kx, None)
        else:
            got = kx in cache
            exp = kx in model
        if len(cache) > cap:
            return ("capacity-exceeded", f"len={len(cache)} > capacity={cap} after step {step}")
        if got != exp:
            return ("wrong-answer", f"step {step} {kind} k{kx}: got {got!r}, reference {exp!r}")
        keys = set(cache.keys())
        if keys != set(model):
            return ("lru-order", f"after step {step} cache holds {sorted(keys)}, LRU reference "
                                 f"holds {sorted(model)} (a key that was not least recently used was evicted)")
    return None


# ---------------------------------------------------------------------------
# globals whose values compare equal but are distinguishable (1 / True / 1.0 ...)
# ---------------------------------------------------------------------------

TYPED_BODY = "<{{ n }}|{{ n | json }}|{{ d.k }}|{{ d | json }}>"
# value of global `n` (index 0: the caller passes no globals at all)
TYPED_POOL: tuple[Any, ...] = (
    "<no globals>", 1, True, 1.0, 0, False, 0.0, "", None, "1",
    [1], [True], [1.0], (1,), [[0]], [[False]],
)
TYPED_GROUPS = ((1, 2, 3), (4, 5, 6), (10, 11, 12, 13), (14, 15), (7, 8, 0))
TYPED_LOADERS = ("dict", "fs", "choice")
TYPED_ENVS: tuple[dict[str, Any] | None, ...] = (None, {"n": 1, "d": {"k": 1}}, {"n": 0.0})


def typed_sequences() -> list[tuple[int, ...]]:
    """Index sequences into TYPED_POOL: every ordered pair, and every triple inside a
    group of equal-comparing values."""
    n = len(TYPED_POOL)
    out: list[tuple[int, ...]] = [(a, b) for a in range(n) for b in range(n)]
    for grp in TYPED_GROUPS:
        out += [(a, b, c) for a in grp for b in grp for c in grp]
    return out


def typed_globals(i: int) -> dict[str, Any] | None:
    if i == 0:
        return None
    v = TYPED_POOL[i]
    return {"n": v, "d": {"k": v}}  # the same value once more, nested


def typed_expected() -> int:
    return len(typed_sequences()) * len(TYPED_LOADERS) * len(TYPED_ENVS) * 2


def typed_run(k: Any, root: str, loader_kind: str, env_i: int, mode: int, seq: tuple[int, ...],
              loop: Any) -> tuple[int, str, str] | None:
    """One sequence of loads of ONE unchanged template by successive callers whose globals
    differ only in the TYPE of equal-comparing values; the uncached twin (same arguments,
    same environment globals) is the oracle.  Returns (step, observed, expected)."""
    src = {"t": TYPED_BODY}
    if loader_kind == "dict":
        caching, twin = k.FaultyDict(src, capacity=2), k.DictLoader(src)
    elif loader_kind == "choice":
        caching = k.FaultyChoice([k.DictLoader(src)], capacity=2)
        twin = k.ChoiceLoader([k.DictLoader(src)])
    else:
        caching, twin = k.FaultyFs(root, capacity=2), k.FileSystemLoader(root)
    caching.vf_store = Store()
    eg = TYPED_ENVS[env_i]
    env = k.Environment(loader=caching, globals=eg)
    tenv = k.Environment(loader=twin, globals=eg)

    def once(e: Any, g: Any) -> str:
        try:
            if not mode:
                return e.get_template("t", globals=g).render()

            async def step() -> str:
                t = await e.get_template_async("t", globals=g)
                return await t.render_async()

            if loader_kind == "fs":
                return loop.run_until_complete(step())
            return sched.drive(step())
        except Exception as err:  # noqa: BLE001
            return "!" + type(err).__name__

    for step_i, vi in enumerate(seq):
        g = typed_globals(vi)
        exp = once(tenv, g)
        obs = once(env, g)
        if obs != exp:
            return (step_i, obs, exp)
    return None


def _typedglobals(spec: dict[str, Any], ctx: Ctx) -> None:
    k = K()
    base = "/dev/shm" if os.path.isdir("/dev/shm") and os.access("/dev/shm", os.W_OK) else None
    root = tempfile.mkdtemp(prefix="vf-c14-", dir=base)
    loop = asyncio.new_event_loop()
    loop.set_default_executor(InlineExecutor())  # type: ignore[arg-type]
    try:
        with open(os.path.join(root, "t"), "w", encoding="utf-8") as f:
            f.write(TYPED_BODY)
        seqs = typed_sequences()
        reported = False
        for lk in TYPED_LOADERS:
            for env_i in range(len(TYPED_ENVS)):
                ctx.seen("typed_configs", f"{lk}/env{env_i}")
                for mode in (0, 1):
                    for n, seq in enumerate(seqs):
                        if n & 255 == 0:
                            ctx.check_deadline()
                        r = typed_run(k, root, lk, env_i, mode, seq, loop)
                        ctx.count("typed_sequences_done")
                        ctx.ev(len(seq))
                        if len({repr(TYPED_POOL[v]) for v in seq}) > 1:
                            ctx.nt("typed", lk, env_i, mode, seq)
                        if r is not None:
                            ctx.count("typed_sequences_diverged")
                            ctx.violation(
                                "stale-globals:equal-comparing-values",
                                f"[{lk}, environment globals {TYPED_ENVS[env_i]!r}, "
                                f"{'async' if mode else 'sync'}] caller {r[0]} passing "
                                f"n={TYPED_POOL[seq[r[0]]]!r} rendered {r[1]!r}, the uncached "
                                f"loader renders {r[2]!r} (previous callers passed "
                                f"{[TYPED_POOL[v] for v in seq[: r[0]]]!r})",
                                {"kind": "typedglobals", "loader": lk, "env": env_i,
                                 "mode": mode, "seq": list(seq[: r[0] + 1]),
                                 "values": [repr(TYPED_POOL[v]) for v in seq[: r[0] + 1]]},
                            )
                            reported = True
        if not reported:
            ctx.sample({"kind": "typedglobals", "body": TYPED_BODY,
                        "values": [repr(v) for v in TYPED_POOL]})
    finally:
        loop.close()
        shutil.rmtree(root, ignore_errors=True)


def _lrucache(spec: dict[str, Any], ctx: Ctx) -> None:
    k = K()
    maxlen = 5 if spec["tier"] == "quick" else 6
    reported: set[str] = set()
    for cname, cls in (("LRUCache", k.LRUCache), ("ThreadSafeLRUCache", k.ThreadSafeLRUCache)):
        for cap in (1, 2, 3):
            # sequences are produced in prefix order, so the first failure per category is
            # a shortest one; prefixes are checked as sequences of their own
            for n, seq in enumerate(lrucache_sequences(maxlen)):
                if n & 4095 == 0:
                    ctx.check_deadline()
                v = lrucache_check(cls, cap, seq)
                ctx.count("lrucache_sequences")
                ctx.ev()
                if v is not None:
                    pat = "->".join(f"{kd} {'xyz'[kx]}" for kd, kx in seq)
                    cat = f"lrucache-{v[0]}@{cname}"
                    if cat in reported:
                        ctx.count("lrucache_failures_after_first")
                        continue
                    reported.add(cat)
                    ctx.violation(f"{cat}:{pat}", f"[capacity {cap}] {v[1]}", {
                        "kind": "lrucache", "cls": cname, "cap": cap,
                        "seq": [[kd, kx] for kd, kx in seq]})
    ctx.sample({"kind": "lrucache", "sequences_up_to": maxlen})


def _threads(spec: dict[str, Any], ctx: Ctx) -> None:
    k = K()
    rng = random.Random(f"{spec['seed']}:threads:{spec['i']}")
    rounds = 20 if spec["tier"] == "quick" else 60
    old = sys.getswitchinterval()
    sys.setswitchinterval(1e-5)
    try:
        for rd in range(rounds):
            ctx.check_deadline()
            cap = rng.choice((1, 2, 3, 8))
            nkeys = rng.choice((4, 16))
            cache = k.ThreadSafeLRUCache(cap)
            errors: list[str] = []
            bad: list[str] = []

            def work(tid: int, seed: str, cache=cache, nkeys=nkeys, errors=errors, bad=bad) -> None:  # noqa: ANN001
                r = random.Random(seed)
                for n in range(1500):
                    kx = r.randrange(nkeys)
                    p = r.random()
                    try:
                        if p < 0.45:
                            cache[kx] = (kx, tid, n)
                        elif p < 0.8:
                            v = cache.get(kx)
                            if v is not None and v[0] != kx:
                                bad.append(f"get({kx}) returned {v!r}")
                        elif p < 0.9:
                            _ = kx in cache
                        else:
                            try:
                                del cache[kx]
                            except KeyError:
                                pass
                    except Exception as e:  # noqa: BLE001
                        errors.append(type(e).__name__)

            ths = [
                threading.Thread(target=work, args=(t, f"{spec['seed']}:{spec['i']}:{rd}:{t}"))
                for t in range(8)
            ]
            for t in ths:
                t.start()
            for t in ths:
                t.join()
            ctx.ev()
            ctx.count("thread_quiescent_checks")
            wit = {"kind": "threads", "cap": cap, "nkeys": nkeys, "round": rd}
            if len(cache) > cap:
                ctx.violation("threadsafe-capacity-exceeded",
                              f"len={len(cache)} > capacity={cap} after threads joined", wit)
            items = list(cache.items())
            keys = list(cache.keys())
            if len(items) != len(cache) or len(set(keys)) != len(keys) or any(
                v[0] != kk for kk, v in items
            ) or any(cache.get(kk) != v for kk, v in items):
                ctx.violation("threadsafe-key-value-integrity",
                              f"items={items!r} keys={keys!r} len={len(cache)}", wit)
            if bad:
                ctx.violation("threadsafe-key-value-integrity", bad[0], wit)
            if errors:
                ctx.violation(f"threadsafe-exception:{sorted(set(errors))[0]}",
                              f"{len(errors)} operations raised {sorted(set(errors))}", wit)

            # the caching mixin with thread_safe=True, loads without globals
            tcap = rng.choice((1, 2, 3))
            src = {n: ref.body("src", n, 0) for n in NAMES}
            loader = k.ThreadSafeCachingDictLoader(src, capacity=tcap)
            env = k.Environment(loader=loader)
            lbad: list[str] = []

            def lwork(seed: str, env=env, src=src, lbad=lbad) -> None:  # noqa: ANN001
                r = random.Random(seed)
                for _ in range(300):
                    n = r.choice(NAMES)
                    try:
                        out = env.get_template(n).render()
                    except Exception as e:  # noqa: BLE001
                        lbad.append(f"{n}: {type(e).__name__}")
                        continue
                    if out != ref.render_ref(src[n], None, None):
                        lbad.append(f"{n}: {out!r}")

            ths = [threading.Thread(target=lwork, args=(f"{spec['seed']}:{spec['i']}:{rd}:L{t}",))
                   for t in range(6)]
            for t in ths:
                t.start()
            for t in ths:
                t.join()
            ctx.ev()
            ctx.count("thread_quiescent_checks")
            if len(loader.cache) > tcap:
                ctx.violation("threadsafe-loader-capacity-exceeded",
                              f"len(loader.cache)={len(loader.cache)} > {tcap}", wit)
            if lbad:
                ctx.violation("threadsafe-loader-wrong-result", lbad[0], wit)
    finally:
        sys.setswitchinterval(old)
    ctx.sample({"kind": "threads", "rounds": rounds, "threads": 8, "ops_per_thread": 1500})


# ---------------------------------------------------------------------------
# replay
# ---------------------------------------------------------------------------


def replay(wit: dict[str, Any], ctx: Ctx) -> None:
    warnings.filterwarnings("ignore", category=RuntimeWarning)
    kind = wit.get("kind", "history")
    if kind == "history":
        h = Harness(ctx, inline_executor=(wit.get("origin") != "random"),
                    with_site=bool(wit["cfg"].get("site")) or wit.get("origin") == "random")
        try:
            cfg = dict(wit["cfg"])
            ops = [ref.op_from(j) for j in (wit.get("symptom_ops") or wit["ops"])]
            tr: list[str] = []
            d = h.run_history(cfg, ops, record=True, trace=tr)
            print(f"replay C14 [{cfg_id(cfg)}]")
            print("\n".join(tr))
            if d is None:
                print("no divergence")
            else:
                print(f"divergence at step {d.step}: {d.category}: {d.what}")
                h.min_budget = 1
                key = h.report(cfg, ops, d, wit.get("origin", "replay"))
                print(f"key={key}")
        finally:
            h.close()
    elif kind == "sched":
        r = SchedRunner(ctx)
        sc = wit["scenario"]
        outcomes, taken, lives, clen = r.run(sc, list(wit.get("schedule") or []))
        print(f"replay C14 sched scenario={sc} schedule={taken} len(cache)={clen}")
        for i, o in enumerate(outcomes):
            print(f"  caller {i}: {o.key()}")
        v = r.judge(sc, outcomes, clen)
        if v is not None:
            ctx.violation(f"{v[0]}:{sched_pattern(sc)}", v[1], wit)
            print(f"key={v[0]}:{sched_pattern(sc)}: {v[1]}")
        else:
            print("no divergence")
    elif kind == "typedglobals":
        k = K()
        base = "/dev/shm" if os.path.isdir("/dev/shm") and os.access("/dev/shm", os.W_OK) else None
        root = tempfile.mkdtemp(prefix="vf-c14-", dir=base)
        loop = asyncio.new_event_loop()
        loop.set_default_executor(InlineExecutor())  # type: ignore[arg-type]
        try:
            with open(os.path.join(root, "t"), "w", encoding="utf-8") as f:
                f.write(TYPED_BODY)
            seq = tuple(int(x) for x in wit["seq"])
            r = typed_run(k, root, wit["loader"], int(wit["env"]), int(wit["mode"]), seq, loop)
            print(f"replay C14 typedglobals {wit['loader']} env={TYPED_ENVS[int(wit['env'])]!r} "
                  f"values={[TYPED_POOL[v] for v in seq]!r} -> {r}")
            if r is not None:
                ctx.violation("stale-globals:equal-comparing-values",
                              f"caller {r[0]} rendered {r[1]!r}, the uncached loader {r[2]!r}", wit)
        finally:
            loop.close()
            shutil.rmtree(root, ignore_errors=True)
    elif kind == "lrucache":
        k = K()
        cls = k.LRUCache if wit["cls"] == "LRUCache" else k.ThreadSafeLRUCache
        seq = [(a, int(b)) for a, b in wit["seq"]]
        v = lrucache_check(cls, wit["cap"], seq)
        print(f"replay C14 lrucache {wit['cls']} cap={wit['cap']} seq={seq} -> {v}")
        if v is not None:
            pat = "->".join(f"{kd} {'xyz'[kx]}" for kd, kx in seq)
            ctx.violation(f"lrucache-{v[0]}@{wit['cls']}:{pat}", v[1], wit)
    else:
        print("replay C14: thread-stress witnesses are not deterministic; re-running one shard")
        _threads({"seed": ctx.seed, "i": 0, "tier": "quick"}, ctx)
