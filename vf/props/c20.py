"""C20 — literals denote exactly what is written; json output decodes to its input.

Monitor: a literal *encoder* (own code, derived from the documented escape set) turns a
target Python value into many valid Liquid spellings; every spelling is planted at every
*site* where a literal may appear, the REAL engine parses and renders the template, and
the value that came out (output text, recorded loader name, recorded mapping key, branch
taken) is compared with the target value.  Numbers: the literal text is compared with the
exact number it denotes.  json: ``json.loads(render('{{ x | json }}')) == x``.
"""

from __future__ import annotations

import html
import json
import math
import random
import re
import decimal
from decimal import Decimal
from typing import Any
from typing import Callable

from ..core import Ctx
from ..instr.sched import drive
from ..minimize import ddmin

ID = "C20"
LEVEL = "exploration"
RULE = (
    "string cases = (target string s, spelling, quote, site): s is one code point (all of "
    "U+0008..U+00FF exhaustively, the BMP and the astral planes swept with a stride plus "
    "every surrogate-pair block boundary), alone and embedded, or a string of <= 3 "
    "characters over a hostile alphabet (quotes, backslash, $, {, }, %, #, n, u, newline; "
    "bounded-exhaustive) or a random string of <= 8 code points (<= 12 with a confusable prefix such as a spelled-out escape); a spelling chooses per "
    "character raw / \\uXXXX (lower, upper case hex) / surrogate pair / short escape / "
    "escaped quote, in single or double quotes; sites = output, filter arguments, "
    "bracketed path segments, tag arguments (assign, echo, if/unless/case/when, cycle, "
    "include/render/extends names against a recording loader, with, macro/call, "
    "translate), names given as strings (macro, block, cycle group, increment, alias), "
    "template-string text parts and literals inside ${...}, {% liquid %} line statements, "
    "ternaries (branches, tails), array literals, lambdas, every positional (1st/2nd/3rd) and "
    "keyword slot of a test filter `cat`, 2nd slots of with/include/render/call/macro/"
    "translate/cycle/when, for and tablerow iterables, capture; every third evaluation at a "
    "site is repeated with the literal turned into a template string (`${x}` at the start / "
    "middle / end of the body, both quote styles): it must denote the string with X inserted, "
    "and where it is refused (names and aliases take plain strings only) both quote styles "
    "must be refused alike; strings given to for limit:/offset: "
    "(every spelling must behave like the minimal spelling), and a few of them again under auto_escape=True "
    "(decided by comparison / lookup).  Every 7th evaluation renders through render_async.  "
    "A failing case is delta-debugged over its characters; the mechanism key is "
    "<site>:<spelling features of the minimal literal> (or <site>:not-unescaped when the "
    "engine used the raw source text, <site>:rejected:<features> when a valid literal was "
    "refused).  number cases = (literal text, site) for ints "
    "up to 10**40 (+/-, 2**53 and 10**k neighbourhoods), e/E/e+ exponents and decimal / "
    "scientific float spellings, plus exponent-form integers and floats whose mantissa has "
    "1..60 significant digits (random digits, runs of 9s, a 5 / 49.. / 50..1 at the positions "
    "where a double or a 28/34-digit decimal context would round, negative, all of e E e+ E+, "
    "exponents 0..40), decimal expansions at and next to the exact midpoint of adjacent "
    "doubles, and probes of the library's integer digit limit (clearly within => exact; "
    "beyond => only a LiquidError is an acceptable failure); compared by printed digits, "
    "| json, ==, <=, <, >=, case/when (both positions) against exact data values (with a "
    "neighbouring value as negative control).  Numbers as ARGUMENTS: every integer -13..14 in "
    "every integer-class spelling (leading zeros, sign, e0/E0/e+0/E+0, multiples of ten as "
    "k e1, zero as 0 00 -0 0e5 0E+3 0e40 ...), integral and half floats, and boundary "
    "magnitudes, written as for limit/offset (alone, combined, `=`, then offset: continue, in "
    "{% liquid %}), tablerow cols/limit/offset, range bounds, path indexes, and the numeric "
    "arguments of slice, truncate, truncatewords, round, at_most, at_least, plus, minus, times, "
    "cycle, default; each compared with a small reference model of the documented behaviour "
    "(first k, skip k, s[k], min(5,k)...), with the canonical spelling, and with the same "
    "number supplied through a variable.  json cases = random JSON-like "
    "values (nested lists/dicts, BMP+astral strings, big ints, finite floats, bools, None) "
    "x {plain, indent, assign, auto-escape + html.unescape}.  distinct = hash of (site, "
    "literal text) / (variant, value); non-trivial = the string has >= 1 character that "
    "needs or was given an escape, the number has >= 2 digits, the json value is a "
    "container or a string needing an escape."
)
ASSUMPTIONS = [
    "valid spellings are those the documentation and the lexer's escape set define: "
    "\\b \\f \\n \\r \\t \\/ \\\\ \\$ \\uXXXX, surrogate pairs for astral code points, and "
    "the string's own quote escaped; a raw `${` is never emitted (always `\\${`) because it "
    "starts interpolation; code points below U+0008 and lone surrogates are outside the "
    "property and never generated",
    "a float literal denotes the correctly rounded IEEE double of its decimal text "
    "(float(Decimal(text))); an integer-class literal (no '.', no negative exponent) "
    "denotes the exact integer",
    "inside {% liquid %} line statements raw CR/LF are not emitted (escapes are)",
    "Python's json.loads / html.unescape and CPython's float() are the trusted base",
    "name-as-string sites (macro, block, cycle group, increment, include alias) are decided "
    "by a metamorphic relation between the tested spelling and a minimal spelling of the "
    "same string at the partner position; an empty name is not tested there (it means 'no "
    "name given')",
    "after a minimal witness has been recorded for (site, outcome), later failures at that "
    "site whose spelling contains all features of the witness are counted under its key "
    "without being minimised again",
    "digit-limit probes: 'within' means mantissa digits + exponent <= MAX_STR_INT - 1 (sign "
    "excluded), 'beyond' means >= MAX_STR_INT + 2; the two values in between are only required "
    "not to fail with a non-Liquid exception or a wrong value; three astronomically large "
    "exponents are only run when the ordinary beyond-probes were refused (otherwise the "
    "engine would try to build the number)",
    "integer-class literals with an exponent are keyed int-exp-literal, plain digit strings "
    "int-literal; 'through-float' is assigned by a counterfactual run (the engine gives the "
    "same output when int(float(text)) is written instead)",
]

# ---------------------------------------------------------------------------
# encoder
# ---------------------------------------------------------------------------

SHORT = {"\b": "b", "\f": "f", "\n": "n", "\r": "r", "\t": "t", "/": "/", "\\": "\\", "$": "$"}

Piece = tuple[str, str]  # (character, mode)


def modes_for(ch: str, quote: str) -> list[str]:
    """All valid ways to spell *ch* inside a string delimited by *quote*."""
    cp = ord(ch)
    assert cp >= 8 and not 0xD800 <= cp <= 0xDFFF
    if cp > 0xFFFF:
        return ["raw", "sp", "SP"]
    out = ["u", "U"]
    if ch == quote:
        out.append("q")
    elif ch != "\\":
        out.append("raw")
    if ch in SHORT:
        out.append("short")
    return out


def spell_piece(ch: str, mode: str) -> str:
    cp = ord(ch)
    if mode == "raw":
        return ch
    if mode == "u":
        return "\\u%04x" % cp
    if mode == "U":
        return "\\u%04X" % cp
    if mode in ("sp", "SP"):
        v = cp - 0x10000
        hi, lo = 0xD800 + (v >> 10), 0xDC00 + (v & 0x3FF)
        return ("\\u%04x\\u%04x" if mode == "sp" else "\\u%04X\\u%04X") % (hi, lo)
    if mode == "short":
        return "\\" + SHORT[ch]
    if mode == "q":
        return "\\" + ch
    raise ValueError(mode)


def normalise(pieces: list[Piece], *, no_raw_newline: bool = False) -> list[Piece]:
    """Repair spellings that would not be valid: a raw `$` directly before a raw `{`
    starts interpolation, so the `$` is written `\\$`."""
    out = list(pieces)
    for i, (ch, mode) in enumerate(out):
        if ch == "$" and mode == "raw" and i + 1 < len(out) and out[i + 1] == ("{", "raw"):
            out[i] = (ch, "short")
        if no_raw_newline and mode == "raw" and ch in "\r\n":
            out[i] = (ch, "short")
    return out


def body_of(pieces: list[Piece]) -> str:
    return "".join(spell_piece(c, m) for c, m in pieces)


def minimal_pieces(s: str, quote: str) -> list[Piece]:
    out: list[Piece] = []
    for ch in s:
        ms = modes_for(ch, quote)
        if "raw" in ms:
            out.append((ch, "raw"))
        elif "q" in ms:
            out.append((ch, "q"))
        else:
            out.append((ch, "short"))
    return out


def maximal_pieces(s: str, quote: str, upper: bool = False) -> list[Piece]:
    out: list[Piece] = []
    for ch in s:
        ms = modes_for(ch, quote)
        if "q" in ms:
            out.append((ch, "q"))
        elif "short" in ms:
            out.append((ch, "short"))
        elif "sp" in ms:
            out.append((ch, "SP" if upper else "sp"))
        else:
            out.append((ch, "U" if upper else "u"))
    return out


def alternating_pieces(s: str, quote: str, phase: int) -> list[Piece]:
    """Minimal and maximal spellings alternate (raw `$` next to an escaped `{`, an escaped
    backslash next to a raw character that would complete an escape, ...)."""
    lo, hi = minimal_pieces(s, quote), maximal_pieces(s, quote)
    # prefer \uXXXX over the short form on the escaped positions so both kinds are met
    out: list[Piece] = []
    for i, ch in enumerate(s):
        if (i + phase) % 2:
            out.append(lo[i])
        else:
            m = hi[i][1]
            if m == "short" and ch not in "\\":
                m = "u"
            out.append((ch, m))
    return out


def random_pieces(s: str, quote: str, rng: random.Random) -> list[Piece]:
    return [(ch, rng.choice(modes_for(ch, quote))) for ch in s]


def partner_literal(s: str, quote: str) -> str:
    """A minimal spelling of *s* in the *other* quote style (partner of a relation)."""
    q2 = '"' if quote == "'" else "'"
    p = normalise(minimal_pieces(s, q2), no_raw_newline=True)
    return q2 + body_of(p) + q2


def feature(ch: str, mode: str) -> str:
    cp = ord(ch)
    if mode == "q":
        return "escaped-single-quote" if ch == "'" else "escaped-double-quote"
    if mode == "short":
        return {"\\": "escaped-backslash", "$": "escaped-dollar", "/": "escaped-solidus"}.get(
            ch, "short-escape"
        )
    if mode in ("u", "U"):
        return "unicode-escape"
    if mode in ("sp", "SP"):
        return "surrogate-pair"
    if ch in "'\"":
        return "raw-other-quote"
    if ch == "$":
        return "raw-dollar"
    if ch in "{}%#":
        return "raw-markup-char"
    if ch in "\r\n":
        return "raw-newline"
    if cp > 0xFFFF:
        return "raw-astral"
    if cp >= 0x80:
        return "raw-non-ascii"
    if cp < 0x20 or cp == 0x7F:
        return "raw-control"
    return "raw-ascii"


NT_CAP = {"quick": 10**9, "thorough": 50_000}


def mark_nontrivial(ctx: Ctx, *parts: object) -> None:
    """ctx.nt with a per-shard cap (thorough runs would otherwise ship tens of millions of
    hashes to the merger); cases beyond the cap are only counted."""
    if len(ctx.nontrivial) < NT_CAP.get(ctx.tier, 10**9):
        ctx.nt(*parts)
    else:
        ctx.count("nontrivial_beyond_hash_cap")


def needs_or_has_escape(pieces: list[Piece]) -> bool:
    return any(m != "raw" or c in "'\"\\$" for c, m in pieces)


# ---------------------------------------------------------------------------
# sites
# ---------------------------------------------------------------------------

_PH = re.compile("(«[LMBQ]»)")


def fill(tmpl: str, lit: str, lit2: str, body: str, quote: str) -> str:
    parts = _PH.split(tmpl)
    m = {"«L»": lit, "«M»": lit2, "«B»": body, "«Q»": quote}
    return "".join(m.get(p, p) for p in parts)


class Site:
    """One place where a string literal may appear.

    src/partials use placeholders «L» (tested literal), «M» (partner literal),
    «B» (literal body without quotes) and «Q» (the quote character).
    expect(s) is the exact expected output.  probe: None | 'loader' | 'mapping'.
    """

    def __init__(
        self,
        name: str,
        src: str,
        expect: Callable[[str], str],
        *,
        partials: dict[str, str] | None = None,
        data: Callable[[str], dict[str, Any]] | None = None,
        probe: str | None = None,
        name_keyed: bool = False,
        liquid: bool = False,
        nonempty: bool = False,
        ae: bool = False,
        check: Callable[[str, str], tuple[bool, Any]] | None = None,
    ):
        self.name = name
        self.src = src
        self.expect = expect
        self.partials = partials or {}
        self.data = data
        self.probe = probe
        self.name_keyed = name_keyed  # loader dict gets {s: '<<HIT>>'}
        self.liquid = liquid
        self.nonempty = nonempty  # an empty name means "no name given" at this site
        self.ae = ae  # rendered by an Environment(auto_escape=True)
        self.check = check
        # may the planted literal be turned into a template string (`${x}` inserted)?
        # not in quoted path segments (no interpolation there) and not at the sites that
        # already build their own template string around the body
        self.tstring = (probe != "mapping" and not name.startswith("path-")
                        and "«B»" not in src
                        and not any("«B»" in v for v in (partials or {}).values()))


def _w(s: str) -> str:
    return "<<" + s + ">>"


def _hit(_s: str) -> str:
    return "<<HIT>>"


def _T(_s: str) -> str:
    return "T"


def _F(_s: str) -> str:
    return "F"


def _json_check(out: str, s: str) -> tuple[bool, Any]:
    try:
        v = json.loads(out)
    except ValueError:
        return False, out
    return (isinstance(v, str) and v == s), v


IFE = "T{% else %}F{% endif %}"

STRING_SITES: list[Site] = [
    Site("output", "<<{{ «L» }}>>", _w),
    Site("output-json", "{{ «L» | json }}", _w, check=_json_check),
    Site("filter-arg", "<<{{ '' | append: «L» }}>>", _w),
    Site("filter-arg-2nd", "<<{{ 'A-B' | replace: '-', «L» }}>>", lambda s: _w("A" + s + "B")),
    Site("filter-kwarg", "<<{{ '%(x)s' | t: x: «L» }}>>", _w),
    Site("filter-arg-in-tag", "{% assign v = '' | append: «L» %}<<{{ v }}>>", _w),
    Site("path-segment", "<<{{ data[«L»] }}>>", _hit, probe="mapping"),
    Site("path-segment-after-dot", "<<{{ data. k[ «L» ] }}>>", _hit,
         data=lambda s: {"data": {"k": {s: "HIT"}}}),
    Site("path-segment-nested", "<<{{ data[idx[«L»]] }}>>", _hit,
         data=lambda s: {"idx": {s: "k2"}, "data": {"k2": "HIT"}}),
    Site("path-root", "<<{{ [«L»] }}>>", _hit, data=lambda s: {s: "HIT"}),
    Site("assign", "{% assign v = «L» %}<<{{ v }}>>", _w),
    Site("echo", "<<{% echo «L» %}>>", _w),
    Site("if-eq", "{% if «L» == v %}" + IFE, _T, data=lambda s: {"v": s}),
    Site("if-eq-right", "{% if v == «L» %}" + IFE, _T, data=lambda s: {"v": s}),
    Site("if-eq-control", "{% if «L» == v %}" + IFE, _F, data=lambda s: {"v": s + "~"}),
    Site("if-ne", "{% if «L» != v %}" + IFE, _F, data=lambda s: {"v": s}),
    Site("if-contains", "{% if v contains «L» %}" + IFE, _T, data=lambda s: {"v": ["zz", s]}),
    Site("if-and", "{% if true and v == «L» %}" + IFE, _T, data=lambda s: {"v": s}),
    Site("if-grouped", "{% if (v == «L») %}" + IFE, _T, data=lambda s: {"v": s}),
    Site("elsif", "{% if false %}X{% elsif «L» == v %}" + IFE, _T, data=lambda s: {"v": s}),
    Site("unless", "{% unless «L» == v %}F{% else %}T{% endunless %}", _T,
         data=lambda s: {"v": s}),
    Site("case-when", "{% case v %}{% when «L» %}T{% else %}F{% endcase %}", _T,
         data=lambda s: {"v": s}),
    Site("case-when-list", "{% case v %}{% when 'zz', «L» %}T{% else %}F{% endcase %}", _T,
         data=lambda s: {"v": s}),
    Site("case-subject", "{% case «L» %}{% when v %}T{% else %}F{% endcase %}", _T,
         data=lambda s: {"v": s}),
    Site("cycle", "<<{% cycle «L», 'zz' %}>>", _w),
    Site("cycle-group", "{% cycle «L»: 'a', 'b' %}{% cycle «M»: 'a', 'b' %}", lambda s: "ab", nonempty=True),
    Site("include-name", "{% include «L» %}", _hit, probe="loader", name_keyed=True),
    Site("render-name", "{% render «L» %}", _hit, probe="loader", name_keyed=True),
    Site("extends-name", "{% extends «L» %}", _hit, probe="loader", name_keyed=True),
    Site("include-arg", "{% include 'p', x: «L» %}", _w, partials={"p": "<<{{ x }}>>"}),
    Site("render-arg", "{% render 'p', x: «L» %}", _w, partials={"p": "<<{{ x }}>>"}),
    Site("include-with", "{% include 'p' with «L» as x %}", _w, partials={"p": "<<{{ x }}>>"}),
    Site("render-with", "{% render 'p' with «L» as x %}", _w, partials={"p": "<<{{ x }}>>"}),
    Site("include-alias", "{% include 'p' with 'HIT' as «L» %}", _hit,
         partials={"p": "<<{{ [«M»] }}>>"}, nonempty=True),
    Site("render-alias", "{% render 'p' with 'HIT' as «L» %}", _hit,
         partials={"p": "<<{{ [«M»] }}>>"}, nonempty=True),
    Site("with", "{% with x: «L» %}<<{{ x }}>>{% endwith %}", _w),
    Site("macro-default", "{% macro m a: «L» %}<<{{ a }}>>{% endmacro %}{% call m %}", _w),
    Site("call-arg", "{% macro m a %}<<{{ a }}>>{% endmacro %}{% call m «L» %}", _w),
    Site("call-kwarg", "{% macro m a %}<<{{ a }}>>{% endmacro %}{% call m a: «L» %}", _w),
    Site("macro-name", "{% macro «L» %}<<HIT>>{% endmacro %}{% call «M» %}", _hit, nonempty=True),
    Site("call-name", "{% macro «M» %}<<HIT>>{% endmacro %}{% call «L» %}", _hit, nonempty=True),
    Site("block-name", "{% extends 'base' %}{% block «L» %}<<HIT>>{% endblock %}", _hit,
         partials={"base": "{% block «M» %}MISS{% endblock %}"}, nonempty=True),
    Site("increment-name", "{% increment «L» %}{% increment «M» %}", lambda s: "01", nonempty=True),
    Site("translate-arg", "{% translate x: «L» %}<<{{ x }}>>{% endtranslate %}", _w),
    # an empty context means "no context": the plain message is looked up
    Site("translate-context", "{% translate context: «L» %}m{% endtranslate %}",
         lambda s: _w(s) if s else "m", probe="translations"),
    Site("tstring-text-after", "<<{{ «Q»a${x}«B»«Q» }}>>", lambda s: _w("aX" + s)),
    Site("tstring-text-before", "<<{{ «Q»«B»${x}z«Q» }}>>", lambda s: _w(s + "Xz")),
    Site("tstring-text-between", "<<{{ «Q»${x}«B»${ x }«Q» }}>>", lambda s: _w("X" + s + "X")),
    Site("tstring-inner-dq", '<<{{ "p${ «L» }q" }}>>', lambda s: _w("p" + s + "q")),
    Site("tstring-inner-sq", "<<{{ 'p${«L»}q' }}>>", lambda s: _w("p" + s + "q")),
    Site("tstring-inner-filter-arg", "<<{{ \"p${ '' | append: «L» }q\" }}>>",
         lambda s: _w("p" + s + "q")),
    Site("tstring-in-tag", "{% assign v = «Q»${x}«B»«Q» %}<<{{ v }}>>", lambda s: _w("X" + s)),
    Site("liquid-echo", "<<{% liquid echo «L» %}>>", _w, liquid=True),
    Site("liquid-assign", "{% liquid\n  assign v = «L»\n  echo '<<'\n  echo v\n  echo '>>'\n%}",
         _w, liquid=True),
    Site("liquid-if", "{% liquid if «L» == v\n echo 'T'\n else\n echo 'F'\n endif %}", _T,
         data=lambda s: {"v": s}, liquid=True),
    Site("liquid-tstring", "<<{% liquid echo «Q»${x}«B»«Q» %}>>", lambda s: _w("X" + s),
         liquid=True),
    Site("ternary", "<<{{ «L» if true else 'zz' }}>>", _w),
    Site("ternary-else", "<<{{ 'zz' if false else «L» }}>>", _w),
    Site("ternary-cond", "{{ 'T' if «L» == v else 'F' }}", _T, data=lambda s: {"v": s}),
    Site("array-literal", "<<{{ 'zz', «L» | last }}>>", _w),
    Site("lambda-eq", "<<{{ arr | where: i => i == «L» | first }}>>", _w,
         data=lambda s: {"arr": ["zz~", s]}),
    Site("filter-arg-3rd", "<<{{ '' | cat: 'p', 'q', «L» }}>>", lambda s: _w("pq" + s)),
    Site("filter-arg-1st-of-3", "<<{{ '' | cat: «L», 'p', 'q' }}>>", lambda s: _w(s + "pq")),
    Site("filter-arg-2nd-of-3", "<<{{ '' | cat: 'p', «L», 'q' }}>>", lambda s: _w("p" + s + "q")),
    Site("filter-kwarg-after-positional", "<<{{ '' | cat: 'p', k: «L» }}>>",
         lambda s: _w("p[k=" + s + "]")),
    Site("filter-kwarg-2nd", "<<{{ '' | cat: j: 'p', k: «L» }}>>",
         lambda s: _w("[j=p][k=" + s + "]")),
    Site("filter-arg-chained", "<<{{ '' | append: «L» | append: '!' | upcase | downcase }}>>",
         lambda s: _w((s + "!").upper().lower())),
    Site("filter-arg-2nd-filter", "<<{{ 'a' | append: 'b' | cat: «L» }}>>", lambda s: _w("ab" + s)),
    Site("ternary-branch-filter", "<<{{ 'a' | cat: «L» if true else 'zz' }}>>",
         lambda s: _w("a" + s)),
    Site("ternary-else-filter", "<<{{ 'zz' if false else 'a' | cat: «L» }}>>",
         lambda s: _w("a" + s)),
    Site("ternary-tail-filter", "<<{{ 'a' if true else 'b' || cat: «L», 'q' }}>>",
         lambda s: _w("a" + s + "q")),
    Site("ternary-tail-filter-kwarg", "<<{{ 'a' if true else 'b' || cat: k=«L» }}>>",
         lambda s: _w("a[k=" + s + "]")),
    Site("lambda-two-params", "<<{{ arr | where: (i, n) => i == «L» | first }}>>", _w,
         data=lambda s: {"arr": ["zz~", s]}),
    Site("assign-array", "{% assign v = 'zz', «L» %}<<{{ v | last }}>>", _w),
    Site("for-in-array-first", "{% for i in «L», 'zz' %}<<{{ i }}>>{% endfor %}",
         lambda s: _w(s) + _w("zz")),
    Site("tablerow-in-array", "{% tablerow i in 'zz', «L» %}<<{{ i }}>>{% endtablerow %}",
         lambda s: "", check=lambda out, s: (_w(s) in out and _w("zz") in out, out)),
    # one tag instance rendered twice (two separate tags would test cycle-group identity)
    Site("cycle-2nd", "{% for i in (1..2) %}<<{% cycle 'zz', «L» %}>>{% endfor %}",
         lambda s: _w("zz") + _w(s)),
    Site("case-when-first", "{% case v %}{% when «L», 'zz' %}T{% else %}F{% endcase %}", _T,
         data=lambda s: {"v": s}),
    Site("with-2nd", "{% with a: 'zz', x: «L» %}<<{{ x }}>>{% endwith %}", _w),
    Site("include-arg-2nd", "{% include 'p', a: 'zz', x: «L» %}", _w, partials={"p": "<<{{ x }}>>"}),
    Site("render-arg-2nd", "{% render 'p', a: 'zz', x: «L» %}", _w, partials={"p": "<<{{ x }}>>"}),
    Site("call-arg-2nd", "{% macro m a, b %}<<{{ b }}>>{% endmacro %}{% call m 'zz', «L» %}", _w),
    Site("macro-default-2nd", "{% macro m a: 'zz', b: «L» %}<<{{ b }}>>{% endmacro %}{% call m %}",
         _w),
    Site("translate-arg-2nd", "{% translate a: 'zz', x: «L» %}<<{{ x }}>>{% endtranslate %}", _w),
    Site("echo-filter-arg", "<<{% echo '' | append: «L» %}>>", _w),
    Site("liquid-echo-filter-arg", "<<{% liquid echo 'a' | cat: 'p', «L» %}>>",
         lambda s: _w("ap" + s), liquid=True),
    Site("capture-output", "{% capture c %}{{ «L» }}{% endcapture %}<<{{ c }}>>", _w),
    Site("filter-kwarg-eq", "<<{{ '%(x)s' | t: x=«L» }}>>", _w),
    Site("case-when-or", "{% case v %}{% when 'zz' or «L» %}T{% else %}F{% endcase %}", _T,
         data=lambda s: {"v": s}),
    Site("assign-filtered", "{% assign v = «L» | append: '' %}<<{{ v }}>>", _w),
    # auto-escaping environment: decided by comparison / lookup, not by escaped text
    Site("if-eq@autoescape", "{% if «L» == v %}" + IFE, _T, data=lambda s: {"v": s}, ae=True),
    Site("if-eq-control@autoescape", "{% if «L» == v %}" + IFE, _F,
         data=lambda s: {"v": s + "~"}, ae=True),
    Site("case-when@autoescape", "{% case v %}{% when «L» %}T{% else %}F{% endcase %}", _T,
         data=lambda s: {"v": s}, ae=True),
    Site("path-segment@autoescape", "<<{{ data[«L»] }}>>", _hit, probe="mapping", ae=True),
    Site("include-name@autoescape", "{% include «L» %}", _hit, probe="loader", name_keyed=True,
         ae=True),
    Site("tstring-eq@autoescape", "{% if «Q»${x}«B»«Q» == v %}" + IFE, _T,
         data=lambda s: {"v": "X" + s}, ae=True),
    Site("for-in-array", "{% for i in 'zz', «L» %}<<{{ i }}>>{% endfor %}",
         lambda s: _w("zz") + _w(s)),
]
SITE = {s.name: s for s in STRING_SITES}


# ---------------------------------------------------------------------------
# harness
# ---------------------------------------------------------------------------


class Outcome:
    __slots__ = ("kind", "observed", "detail", "out")

    def __init__(self, kind: str, observed: Any = None, detail: str = "", out: Any = None):
        self.kind = kind  # ok | rejected | wrong | liquid-error:<T> | error:<T>
        self.observed = observed
        self.detail = detail
        self.out = out


class Harness:
    def __init__(self, ctx: Ctx):
        from liquid2 import DictLoader
        from liquid2 import Environment
        from liquid2.exceptions import LiquidError
        from liquid2.exceptions import LiquidSyntaxError

        self.ctx = ctx
        self.LiquidError = LiquidError
        self.LiquidSyntaxError = LiquidSyntaxError
        self.requested: list[str] = []
        self.keys: list[Any] = []
        self.contexts: list[Any] = []
        h = self

        class RecLoader(DictLoader):
            def get_source(self, env, template_name, *, context=None, **kwargs):  # noqa: ANN001, ANN003
                h.requested.append(template_name)
                return super().get_source(env, template_name, context=context, **kwargs)

        class RecDict(dict):  # type: ignore[type-arg]
            def __getitem__(self, k):  # noqa: ANN001
                h.keys.append(k)
                return dict.__getitem__(self, k)

        class RecTranslations:
            def gettext(self, m):  # noqa: ANN001
                return m

            def ngettext(self, s, p, n):  # noqa: ANN001
                return s if n == 1 else p

            def pgettext(self, c, m):  # noqa: ANN001
                h.contexts.append(c)
                return "<<%s>>" % c.replace("%", "%%")

            def npgettext(self, c, s, p, n):  # noqa: ANN001
                h.contexts.append(c)
                return s if n == 1 else p

        self.RecDict = RecDict
        self.translations = RecTranslations()
        self.tpls: dict[str, str] = {}
        self.env = Environment(loader=RecLoader(self.tpls))
        self.env_ae = Environment(loader=RecLoader(self.tpls), auto_escape=True)

        def cat(left: object, *args: object, **kwargs: object) -> str:
            """Test filter: shows every positional and keyword argument it received."""
            return (str(left) + "".join(str(a) for a in args)
                    + "".join(f"[{k}={v}]" for k, v in kwargs.items()))

        from liquid2.shopify.tags.tablerow_tag import TablerowTag

        for e in (self.env, self.env_ae):
            e.filters["cat"] = cat
            e.tags["tablerow"] = TablerowTag(e)
        self.n = 0
        self.site_n: dict[str, int] = {}
        self.explained: dict[tuple[str, str], list[tuple[frozenset[str], str]]] = {}

    # -- generic execution -------------------------------------------------
    def render(self, src: str, tpls: dict[str, str], data: dict[str, Any],
               *, env: Any = None, use_async: bool = False) -> Outcome:
        env = env or self.env
        self.tpls.clear()
        self.tpls.update(tpls)
        del self.requested[:]
        del self.keys[:]
        del self.contexts[:]
        try:
            t = env.from_string(src)
        except self.LiquidSyntaxError as e:
            return Outcome("rejected", detail=_first_line(e))
        except self.LiquidError as e:
            return Outcome(f"liquid-error:{type(e).__name__}", detail=_first_line(e))
        except Exception as e:  # noqa: BLE001
            return Outcome(f"error:{type(e).__name__}", detail=_first_line(e))
        try:
            out = drive(t.render_async(data)) if use_async else t.render(data)
        except self.LiquidSyntaxError as e:
            # partials are parsed at render time
            return Outcome("rejected", detail=_first_line(e))
        except self.LiquidError as e:
            return Outcome(f"liquid-error:{type(e).__name__}", detail=_first_line(e))
        except Exception as e:  # noqa: BLE001
            return Outcome(f"error:{type(e).__name__}", detail=_first_line(e))
        return Outcome("ok", out=out)

    # -- strings -------------------------------------------------------------
    def build_string_case(self, site: Site, pieces: list[Piece], quote: str,
                          interp: str | None = None):
        pieces = normalise(pieces, no_raw_newline=site.liquid)
        s = "".join(c for c, _ in pieces)
        body = body_of(pieces)
        if interp:
            # the literal becomes a template string: `${x}` (x = 'X') at the start, in the
            # middle or at the end of the body; the string it denotes gains an X there
            k = {"start": 0, "middle": len(pieces) // 2, "end": len(pieces)}[interp]
            body = body_of(pieces[:k]) + "${x}" + body_of(pieces[k:])
            s = s[:k] + "X" + s[k:]
        lit = quote + body + quote
        lit2 = partner_literal(s, quote)
        src = fill(site.src, lit, lit2, body, quote)
        tpls = {k: fill(v, lit, lit2, body, quote) for k, v in site.partials.items()}
        if site.name_keyed:
            tpls[s] = "<<HIT>>"
        if site.probe == "mapping":
            data: dict[str, Any] = {"data": self.RecDict({s: "HIT"})}
        elif site.data:
            data = site.data(s)
        else:
            data = {}
        # a global is always present (render-with binding is lost without globals: C07)
        data.setdefault("x", "X")
        data.setdefault("g", 1)
        if site.probe == "translations":
            data["translations"] = self.translations
        return pieces, s, body, lit, src, tpls, data

    def eval_string(self, site: Site, pieces: list[Piece], quote: str,
                    *, use_async: bool = False,
                    interp: str | None = None) -> tuple[Outcome, dict[str, Any]]:
        pieces, s, body, lit, src, tpls, data = self.build_string_case(site, pieces, quote,
                                                                       interp)
        o = self.render(src, tpls, data, use_async=use_async,
                        env=self.env_ae if site.ae else self.env)
        info = {"s": s, "body": body, "lit": lit, "src": src, "tpls": dict(tpls),
                "pieces": pieces, "interp": interp}
        # the value the engine derived from the literal, when a probe saw it
        probed: Any = None
        if site.probe == "loader":
            names = [n for n in self.requested]
            probed = names[0] if names else None
        elif site.probe == "mapping":
            probed = self.keys[0] if self.keys else None
        elif site.probe == "translations":
            probed = self.contexts[0] if self.contexts else None
        if o.kind == "ok":
            if site.check:
                ok, obs = site.check(o.out, s)
            else:
                exp = site.expect(s)
                ok = o.out == exp
                obs = o.out
                if not ok and exp.startswith("<<") and o.out.startswith("<<") and o.out.endswith(">>"):
                    obs = o.out[2:-2]
            if probed is not None and probed != s:
                ok = False
            if not ok:
                o = Outcome("wrong", observed=probed if probed is not None else obs,
                            out=o.out)
        elif probed is not None and probed != s:
            # e.g. TemplateNotFound because a different name was requested
            o = Outcome("wrong", observed=probed, detail=o.kind + " " + o.detail)
        return o, info

    INTERP_POSITIONS = ("start", "middle", "end")

    def check_string(self, site: Site, pieces: list[Piece], quote: str,
                     interp: str | None = None) -> None:
        ctx = self.ctx
        if site.nonempty and not pieces:
            return
        if interp and not site.tstring:
            return
        self.n += 1
        use_async = self.n % 7 == 0
        if interp is None:
            n = self.site_n[site.name] = self.site_n.get(site.name, 0) + 1
        else:
            n = 0
        o, info = self.eval_string(site, pieces, quote, use_async=use_async, interp=interp)
        ctx.ev()
        ctx.count("string_evaluations")
        ctx.seen("sites", site.name)
        if interp:
            ctx.count("tstring_evaluations")
        if interp or needs_or_has_escape(info["pieces"]):
            mark_nontrivial(ctx, "s", site.name, info["lit"])
        if self.n % 9973 == 1:
            ctx.sample({"kind": "string", "site": site.name, "source": info["src"],
                        "expected": info["s"]})
        if o.kind == "ok":
            if interp:
                ctx.seen("tstring_accepting", f"{site.name}:{'dq' if quote == '"' else 'sq'}")
        elif interp and (o.kind == "rejected" or o.kind.startswith("liquid-error:")):
            self.report_tstring_refused(site, info["pieces"], quote, interp, o, info, use_async)
        else:
            self.report_string(site, info["pieces"], quote, o, info, use_async, interp)
        # every third plain evaluation at a site is repeated with the literal turned into a template
        # string (interpolation position rotates)
        if interp is None and site.tstring and n % 3 == 0:
            self.check_string(site, pieces, quote, self.INTERP_POSITIONS[(n // 3) % 3])

    def report_tstring_refused(self, site: Site, pieces: list[Piece], quote: str, interp: str,
                               o: Outcome, info: dict[str, Any], use_async: bool) -> None:
        """A template string was refused.  Some positions take plain strings only (names,
        aliases), which is documented; what must hold is that both quote styles of the same
        text are treated alike."""
        q2 = '"' if quote == "'" else "'"
        other: list[Piece] = []
        for ch, mode in pieces:
            if mode == "q":
                other.append((ch, "raw"))
            elif ch == q2 and mode == "raw":
                other.append((ch, "q"))
            else:
                other.append((ch, mode))
        o2, info2 = self.eval_string(site, other, q2, use_async=use_async, interp=interp)
        if o2.kind == o.kind:
            self.ctx.count("tstring_refused_in_both_quote_styles")
            self.ctx.seen("tstring_refusing_sites", site.name)
            return
        # smallest witness: the bare `${x}` if it shows the same asymmetry
        if pieces and not site.nonempty:
            o3, info3 = self.eval_string(site, [], quote, use_async=use_async, interp=interp)
            o4, info4 = self.eval_string(site, [], q2, use_async=use_async, interp=interp)
            if o3.kind == o.kind and o4.kind == o2.kind:
                pieces, o, info, o2, info2 = [], o3, info3, o4, info4
        style = "double-quoted" if quote == '"' else "single-quoted"
        what_kind = "rejected" if o.kind == "rejected" else o.kind
        key = f"{site.name}:template-string-{what_kind}:{style}"
        self.ctx.violation(
            key,
            f"site {site.name}: template string {info['lit']} -> {o.kind} {o.detail}; the same "
            f"text written {info2['lit']} -> {o2.kind} {o2.out!r}",
            {"kind": "string", "site": site.name, "quote": quote, "interp": interp,
             "pieces": [[c, m] for c, m in pieces], "literal": info["lit"],
             "expected": info["s"], "source": info["src"], "templates": info["tpls"],
             "outcome": o.kind, "detail": o.detail, "other_style_literal": info2["lit"],
             "other_style_outcome": o2.kind, "async": use_async})

    def _string_key(self, site: Site, pieces: list[Piece], o: Outcome, info: dict[str, Any]) -> str:
        fs = {feature(c, m) for c, m in pieces}
        if info.get("interp"):
            fs.add("template-string")
        feats = "+".join(sorted(fs)) or "empty"
        if o.kind == "wrong":
            if isinstance(o.observed, str) and o.observed == info["body"] and info["body"] != info["s"]:
                return f"{site.name}:not-unescaped"
            return f"{site.name}:{feats}"
        if o.kind == "rejected":
            return f"{site.name}:rejected:{feats}"
        return f"{site.name}:{o.kind}:{feats}"

    def report_string(self, site: Site, pieces: list[Piece], quote: str, o: Outcome,
                      info: dict[str, Any], use_async: bool, interp: str | None = None) -> None:
        kind = o.kind
        orig_lit = info["lit"]
        # a failure already explained by a recorded minimal witness of the same site and
        # outcome (its spelling features are all present here) is only counted
        feats = frozenset(feature(c, m) for c, m in pieces) | ({"template-string"} if interp else set())
        raw_here = (kind == "wrong" and isinstance(o.observed, str)
                    and o.observed == info["body"] and info["body"] != info["s"])
        for fs, k in self.explained.get((site.name, kind), ()):
            if fs <= feats and (not k.endswith(":not-unescaped") or raw_here):
                self.ctx.violations[k]["count"] += 1
                return

        def still(cand: list[Piece]) -> bool:
            o2, _ = self.eval_string(site, cand, quote, use_async=use_async, interp=interp)
            return o2.kind == kind

        small = pieces
        if len(pieces) > 1:
            try:
                small = ddmin(pieces, still, max_calls=120)
            except Exception:  # noqa: BLE001
                small = pieces
        o2, info2 = self.eval_string(site, small, quote, use_async=use_async, interp=interp)
        if o2.kind != kind:  # should not happen; fall back to the original
            o2, info2, small = o, info, pieces
        key = self._string_key(site, info2["pieces"], o2, info2)
        what = (
            f"site {site.name}: literal {info2['lit']} should denote {info2['s']!r}; "
            + (f"engine derived {o2.observed!r}" if o2.kind == "wrong"
               else f"{o2.kind} {o2.detail}")
        )
        self.explained.setdefault((site.name, kind), []).append(
            (frozenset(feature(c, m) for c, m in info2["pieces"])
             | ({"template-string"} if interp else set()), key))
        self.ctx.violation(key, what, {
            "kind": "string", "site": site.name, "quote": quote, "interp": interp,
            "pieces": [[c, m] for c, m in info2["pieces"]],
            "literal": info2["lit"], "expected": info2["s"], "source": info2["src"],
            "templates": info2["tpls"], "observed": _jsonable(o2.observed),
            "outcome": o2.kind, "detail": o2.detail, "async": use_async,
            "minimised_from": orig_lit,
        })


def _first_line(e: BaseException) -> str:
    try:
        return str(e).split("\n", 1)[0][:160]
    except Exception:  # noqa: BLE001
        return type(e).__name__


def _jsonable(o: Any) -> Any:
    if o is None or isinstance(o, (str, int, float, bool)):
        return o
    return repr(o)


# ---------------------------------------------------------------------------
# string workloads
# ---------------------------------------------------------------------------

QUOTES = ("'", '"')


def _embed(pieces: list[Piece], how: int) -> list[Piece]:
    if how == 0:
        return pieces
    if how == 1:
        return [("a", "raw")] + pieces + [("b", "raw")]
    # neighbours that make a mis-decoded escape visible: hex digit / quote / backslash
    return [("\\", "short")] + pieces + [("1", "raw"), ("'", "u")]


def sweep_codepoints(h: Harness, cps: list[int], *, all_sites: bool, embeds: tuple[int, ...],
                     salt: int = 0) -> None:
    """Every valid spelling of each code point, at all sites (or a rotating subset)."""
    ctx = h.ctx
    nsites = len(STRING_SITES)
    k = salt
    for cp in cps:
        ch = chr(cp)
        for quote in QUOTES:
            for mode in modes_for(ch, quote):
                for how in embeds:
                    pieces = _embed([(ch, mode)], how)
                    if all_sites:
                        sites = STRING_SITES
                    else:
                        k += 1
                        sites = [STRING_SITES[(k * 7 + j * 23) % nsites] for j in range(3)]
                    for site in sites:
                        h.check_string(site, pieces, quote)
        ctx.count("distinct_codepoints")
        if cp < 0x100 or cp % 97 == 0:
            ctx.seen("codepoints", "%04X" % cp)
        ctx.check_deadline()


HOSTILE = ["'", '"', "\\", "$", "{", "}", "n", "u", "%", "#", "\n"]

RANDOM_ALPHABET = (
    ["'", '"', "\\", "$", "{", "}"] * 6
    + ["%", "#", "\n", "\r", "\t", "/", " ", "|", ":", ",", ".", "[", "]", "(", ")", "-", "~"] * 2
    + list("nrtbfuUxX0123456789abcdefABCDEF") + list("hello") + ["\b", "\f", "\x0b", "\x1f", "\x7f"]
    + ["\u00e9", "\u00a0", "\u0085", "\u2028", "\u2029", "\ufeff", "\uffff", "\ufffd", "\u0300",
       "\ud7ff", "\ue000", "\u4e2d", "\u05d0", "\u200d", "\u202e"]
    + ["\U0001f600", "\U00010000", "\U0010ffff", "\U0001f1e6", "\U000e0001", "\U0002f800"] * 2
)


def random_string(rng: random.Random, maxlen: int = 8) -> str:
    n = rng.randint(0, maxlen)
    out = []
    for _ in range(n):
        r = rng.random()
        if r < 0.8:
            out.append(rng.choice(RANDOM_ALPHABET))
        elif r < 0.9:
            cp = rng.randrange(8, 0xFFFF)
            if 0xD800 <= cp <= 0xDFFF:
                cp = 0xE000 + (cp & 0xFF)
            out.append(chr(cp))
        else:
            out.append(chr(rng.randrange(0x10000, 0x110000)))
    s = "".join(out)
    # favourite confusions
    if rng.random() < 0.08:
        s = rng.choice(["${", "\\${", "$\\{", "{{", "%}", "}}", "{%", "{#", "\\u0041", "\\n", "\\'",
                        '\\"', "\\\\", "${x}", "'${x}'", "\\ud83d\\ude00", "a'b\"c", "\\$"]) + s[:4]
        s = s[:12]
    return s


def _adversarial(h: Harness, spec: dict[str, Any]) -> None:
    import itertools

    ctx = h.ctx
    rng = random.Random(f"{spec['seed']}:adv:{spec['i']}")
    maxlen = 3
    idx = 0
    thorough = spec["tier"] != "quick"
    nsites = len(STRING_SITES)
    for L in range(0, maxlen + 1):
        for tup in itertools.product(HOSTILE, repeat=L):
            idx += 1
            if idx % spec["n"] != spec["i"]:
                continue
            s = "".join(tup)
            for quote in QUOTES:
                spellings = [minimal_pieces(s, quote), maximal_pieces(s, quote)]
                if L:
                    spellings.append(random_pieces(s, quote, rng))
                if L >= 2:
                    spellings.append(alternating_pieces(s, quote, 0))
                    spellings.append(alternating_pieces(s, quote, 1))
                    if thorough:
                        spellings.append(random_pieces(s, quote, rng))
                        spellings.append(maximal_pieces(s, quote, upper=True))
                seen = set()
                for sp in spellings:
                    t = tuple(sp)
                    if t in seen:
                        continue
                    seen.add(t)
                    if L <= 2 or thorough:
                        sites = STRING_SITES
                    else:
                        # quick: length-3 strings visit a third of the sites each
                        off = rng.randrange(nsites)
                        sites = [STRING_SITES[(off + 3 * j) % nsites] for j in range(nsites // 3)]
                    for site in sites:
                        h.check_string(site, sp, quote)
            ctx.count("adversarial_strings")
            ctx.check_deadline()


def _random(h: Harness, spec: dict[str, Any]) -> None:
    ctx = h.ctx
    rng = random.Random(f"{spec['seed']}:rnd:{spec['i']}")
    n = spec["count"]
    nsites = len(STRING_SITES)
    for _ in range(n):
        s = random_string(rng)
        quote = rng.choice(QUOTES)
        r = rng.random()
        if r < 0.15:
            pieces = minimal_pieces(s, quote)
        elif r < 0.3:
            pieces = maximal_pieces(s, quote, upper=rng.random() < 0.5)
        else:
            pieces = random_pieces(s, quote, rng)
        off = rng.randrange(nsites)
        for j in range(6):
            h.check_string(STRING_SITES[(off + j * 11) % nsites], pieces, quote)
        ctx.count("random_strings")
        ctx.mx("max:string_codepoints", len(s))
        ctx.check_deadline()


def _astral_boundaries() -> list[int]:
    cps = set()
    for hi in range(0x400):  # every high surrogate: first and last code point of its block
        base = 0x10000 + (hi << 10)
        cps.update((base, base + 0x3FF))
    for plane in range(1, 17):
        cps.update((plane << 16, (plane << 16) + 1, (plane << 16) + 0xFFFE, (plane << 16) + 0xFFFF))
    cps.update((0x1F600, 0x1F4A9, 0x1F1E6, 0x1D11E, 0x2F800, 0xE0001, 0x10FFFF, 0x10000, 0x103FF,
                0x10400, 0x10FC00, 0x10FBFF))
    return sorted(cps)


BMP_EDGES = [0x100, 0x7FF, 0x800, 0xFFF, 0x1000, 0x2028, 0x2029, 0xD7FF, 0xE000, 0xFEFF, 0xFFFD,
             0xFFFE, 0xFFFF, 0x00AD, 0x0300, 0x200B, 0x200D, 0x202E, 0x3000, 0x0085]


# ---------------------------------------------------------------------------
# numbers
# ---------------------------------------------------------------------------


class NumSite:
    def __init__(self, name: str, src: str, mode: str = "print", *, int_only: bool = False,
                 partials: dict[str, str] | None = None):
        self.name = name
        self.src = src  # «N» literal, «N1» literal text + 1 (int only sites)
        self.mode = mode  # print | T | F(control: data value is a neighbour)
        self.int_only = int_only
        self.partials = partials or {}


NUM_SITES = [
    NumSite("output", "<<{{ «N» }}>>"),
    NumSite("output-json", "<<{{ «N» | json }}>>"),
    NumSite("assign-json", "{% assign v = «N» %}<<{{ v | json: 1 }}>>"),
    NumSite("assign", "{% assign v = «N» %}<<{{ v }}>>"),
    NumSite("echo", "<<{% echo «N» %}>>"),
    NumSite("filter-arg", "<<{{ nosuch | default: «N» }}>>"),
    NumSite("with", "{% with x: «N» %}<<{{ x }}>>{% endwith %}"),
    NumSite("macro-default", "{% macro m a: «N» %}<<{{ a }}>>{% endmacro %}{% call m %}"),
    NumSite("call-arg", "{% macro m a %}<<{{ a }}>>{% endmacro %}{% call m «N» %}"),
    NumSite("render-arg", "{% render 'p', x: «N» %}", partials={"p": "<<{{ x }}>>"}),
    NumSite("tstring-inner", "<<{{ \"${ «N» }\" }}>>"),
    NumSite("liquid-echo", "<<{% liquid echo «N» %}>>"),
    NumSite("cycle", "<<{% cycle «N», 0 %}>>"),
    NumSite("array-literal", "<<{{ 0, «N» | last }}>>"),
    NumSite("ternary", "<<{{ «N» if true else 0 }}>>"),
    NumSite("translate-arg", "{% translate x: «N» %}<<{{ x }}>>{% endtranslate %}"),
    NumSite("range-start", "<<{{ («N»..«N1») | first }}>>", int_only=True),
    NumSite("range-stop", "<<{{ («N0»..«N») | last }}>>", int_only=True),
    NumSite("if-eq", "{% if «N» == v %}" + IFE, "T"),
    NumSite("if-eq-right", "{% if v == «N» %}" + IFE, "T"),
    NumSite("if-eq-control", "{% if «N» == v %}" + IFE, "F"),
    NumSite("if-le-ge", "{% if «N» <= v and «N» >= v %}" + IFE, "T"),
    NumSite("if-le", "{% if «N» <= v %}" + IFE, "T"),
    NumSite("if-lt-control", "{% if «N» < v %}" + IFE, "F-same"),
    NumSite("if-ge-control", "{% if «N» >= v %}" + IFE, "F"),
    NumSite("case-subject", "{% case «N» %}{% when v %}T{% else %}F{% endcase %}", "T"),
    NumSite("case-when", "{% case v %}{% when «N» %}T{% else %}F{% endcase %}", "T"),
    NumSite("case-when-control", "{% case v %}{% when «N» %}T{% else %}F{% endcase %}", "F"),
    NumSite("ternary-cond", "{{ 'T' if «N» == v else 'F' }}", "T"),
    NumSite("liquid-if", "{% liquid if «N» == v\n echo 'T'\n else\n echo 'F'\n endif %}", "T"),
]
NUMSITE = {s.name: s for s in NUM_SITES}

_NPH = re.compile("(«N[01]?»)")
_RE_INT_OUT = re.compile(r"-?[0-9]+\Z")


def num_class(text: str) -> str:
    """'int' when the spelling denotes an integer-class literal, else 'float'."""
    t = text.lower()
    if "." in t or "e-" in t:
        return "float"
    return "int"


def exact_value(text: str) -> Any:
    d = Decimal(text)
    if num_class(text) == "int":
        assert d == d.to_integral_value()
        return int(d)
    return float(d)


def eval_number(h: Harness, site: NumSite, text: str, *, use_async: bool = False,
                written: str | None = None):
    """Evaluate literal *text* at *site*.  *written* (counterfactual, used only to name
    the mechanism) plants a different spelling while expectations stay those of *text*."""
    cls = num_class(text)
    exp = exact_value(text)
    if cls == "int":
        neighbour: Any = exp + 1
    else:
        neighbour = math.nextafter(exp, math.inf)
    m = {"«N»": written if written is not None else text}
    if site.int_only:
        m["«N1»"] = str(exp + 1)
        m["«N0»"] = str(exp - 1)
    src = "".join(m.get(p, p) for p in _NPH.split(site.src))
    data: dict[str, Any] = {"g": 1}
    want = site.mode[0]
    if site.mode in ("T", "F-same"):
        data["v"] = exp
    elif site.mode == "F":
        data["v"] = neighbour
    o = h.render(src, dict(site.partials), data, use_async=use_async)
    info = {"src": src, "expected": exp, "data": data}
    if o.kind != "ok":
        return o, info
    out = o.out
    if site.mode != "print":
        if out != want:
            return Outcome("wrong", observed=out, out=out), info
        return o, info
    if not (out.startswith("<<") and out.endswith(">>")):
        return Outcome("wrong", observed=out, out=out), info
    txt = out[2:-2]
    try:
        if cls == "int":
            got: Any = int(txt) if _RE_INT_OUT.match(txt) else Decimal(txt)
            ok = got == exp
        else:
            got = float(txt)
            ok = got == exp and not (isinstance(got, float) and math.isnan(got))
    except (ValueError, ArithmeticError):
        return Outcome("wrong", observed=txt, out=out), info
    if not ok:
        return Outcome("wrong", observed=got, out=out), info
    return o, info


def number_key(h: Harness, site: NumSite, text: str, o: Outcome, info: dict[str, Any],
               use_async: bool) -> str:
    cls = num_class(text)
    if cls == "float":
        lit = "float-literal"
    else:
        lit = "int-literal" if _RE_INT_OUT.match(text) else "int-exp-literal"
    if o.kind == "wrong":
        exp = info["expected"]
        what = "wrong-value"
        if cls == "int":
            # counterfactuals: does the engine treat the literal exactly as it treats the
            # integer obtained by rounding the text (a) to a double, (b) to the 28
            # significant digits of the default decimal context?
            cands: list[tuple[str, Any]] = []
            try:
                cands.append(("through-float", int(float(text))))
            except (OverflowError, ValueError):
                pass
            cands.append(("through-decimal-context",
                          int(decimal.Context(prec=28).create_decimal(text))))
            for name, via in cands:
                if via == exp:
                    continue
                hit = site.mode == "print" and o.observed == via
                if not hit:
                    # a branch (or an emptied range) does not show the value: ask the engine
                    # whether the literal equals via
                    o2 = h.render("{% if " + text + " == v %}T{% else %}F{% endif %}", {},
                                  {"v": via, "g": 1})
                    hit = o2.kind == "ok" and o2.out == "T"
                if hit:
                    what = name
                    break
        elif site.mode == "print" and isinstance(o.observed, float):
            if o.observed == float(int(exp)):
                what = "truncated"
            elif o.observed == float(decimal.Context(prec=28).create_decimal(text)):
                what = "through-decimal-context"
        return f"{lit}:{what}"
    if o.kind == "rejected":
        return f"{lit}:rejected@{site.name}"
    return f"{lit}:{o.kind}@{site.name}"


def check_number(h: Harness, site: NumSite, text: str) -> None:
    ctx = h.ctx
    if site.int_only and num_class(text) != "int":
        return
    h.n += 1
    use_async = h.n % 7 == 0
    o, info = eval_number(h, site, text, use_async=use_async)
    ctx.ev()
    ctx.count("number_evaluations")
    ctx.seen("number_sites", site.name)
    ctx.seen("sites", "num:" + site.name)
    if sum(ch.isdigit() for ch in text) >= 2:
        mark_nontrivial(ctx, "n", site.name, text)
    if h.n % 20011 == 1:
        ctx.sample({"kind": "number", "site": site.name, "source": info["src"],
                    "expected": info["expected"]})
    if o.kind == "ok":
        return
    key = number_key(h, site, text, o, info, use_async)
    what = (f"site {site.name}: literal {text} denotes {info['expected']!r}; "
            + (f"engine gave {o.observed!r}" if o.kind == "wrong" else f"{o.kind} {o.detail}"))
    ctx.violation(key, what, {
        "kind": "number", "site": site.name, "text": text, "expected": info["expected"],
        "source": info["src"], "observed": _jsonable(o.observed) if not isinstance(o.observed, Decimal)
        else str(o.observed), "outcome": o.kind, "async": use_async,
    })


def int_texts(rng: random.Random, n: int) -> list[str]:
    vals: set[int] = set()
    for k in range(0, 41):
        for d in (-2, -1, 0, 1, 2, 3):
            vals.add(10**k + d)
    for k in (31, 32, 52, 53, 54, 63, 64, 100, 127, 128):
        for d in (-3, -2, -1, 0, 1, 2, 3):
            vals.add(2**k + d)
    vals.update(range(0, 130))
    vals.update((9007199254740993, 9007199254740995, 18014398509481985, 4611686018427387905,
                 12345678901234567890, 99999999999999999999, 10**40, 10**40 - 1,
                 123456789012345678901234567890123456789))
    for _ in range(n):
        digits = rng.randint(1, 41)
        v = rng.randrange(10 ** (digits - 1), 10**digits)
        if v <= 10**40:
            vals.add(v)
    out = []
    for v in sorted(x for x in vals if 0 <= x <= 10**40 + 3):
        out.append(str(v))
        out.append("-" + str(v))
    return out


def sci_texts(rng: random.Random, n: int) -> list[str]:
    out = ["1e3", "1E3", "1e+3", "1E+3", "2.5e2", "1e-2", "1E-2", "1.2e3", "1e0", "0e0", "1e1",
           "-1e3", "-2.5e2", "-1e-2", "1e22", "1e23", "1e25", "1e40", "9e15", "9007199254740993e0",
           "12e+2", "5e+0", "1.5e+3", "1.5E-3", "2.50e+02", "1e-10", "123e-2", "1.0e0",
           "1e03", "1e+03", "1.5e-03", "7e00", "007", "-007", "00", "0", "-0", "010e1"]
    for _ in range(n):
        m = rng.choice([str(rng.randint(0, 9)), str(rng.randint(10, 9999)),
                        str(rng.randrange(10**16, 10**18))])
        e = rng.randint(0, 40 - len(m)) if len(m) < 40 else 0
        sign = rng.choice(["", "-"])
        out.append(f"{sign}{m}{rng.choice(['e', 'E', 'e+', 'E+'])}{e}")
    return out


def float_texts(rng: random.Random, n: int) -> list[str]:
    out = ["0.0", "-0.0", "0.1", "0.5", "1.0", "1.5", "2.25", "3.14159", "0.30000000000000004",
           "1.10", "100.001", "0.000001", "0.0000001", "123456789.123456789",
           "9007199254740993.0", "0.1e1", "1.7976931348623157e308", "2.2250738585072014e-308",
           "5e-324", "4.9e-324", "1.0e-5", "1e-5", "1.0e16", "1.0e15", "99999999999999999.0",
           "0.3e-3", "7.0E+2", "7.25E2", "-7.25e-2", "179.99999999999997", "8.5", "16777217.0",
           "1.0000000000000002", "0.999999999999999944488848768742172978818416595458984375"]
    for _ in range(n):
        a = str(rng.randint(0, 10 ** rng.randint(1, 17)))
        b = "".join(rng.choice("0123456789") for _ in range(rng.randint(1, 18)))
        t = f"{rng.choice(['', '-'])}{a}.{b}"
        r = rng.random()
        if r < 0.4:
            t += f"{rng.choice('eE')}{rng.choice(['', '+', '-'])}{rng.randint(0, 30)}"
        out.append(t)
    for _ in range(n // 3):
        out.append(f"{rng.choice(['', '-'])}{rng.randint(0, 99999)}{rng.choice('eE')}-{rng.randint(0, 30)}")
    return out


EXP_MARKS = ("e", "E", "e+", "E+")
ROUNDING_POSITIONS = (15, 16, 17, 18, 27, 28, 29, 30, 34, 38)  # double, decimal28, decimal34


def _mantissas(rng: random.Random, L: int) -> list[str]:
    """Digit strings with exactly L significant digits: random, runs of 9s, a 5 (and
    5 followed by a non-zero digit) at the positions where a double or a decimal context
    would have to round."""
    first = rng.choice("123456789")
    rnd = first + "".join(rng.choice("0123456789") for _ in range(L - 1))
    out = [rnd, "9" * L]
    if L >= 2:
        out.append(first + "9" * (L - 1))
        out.append(rnd[:-1] + rng.choice("123456789"))  # last digit significant
        k = rng.randrange(1, L)
        out.append(rnd[:k] + "9" * (L - k - 1) + "5" if L - k - 1 >= 0 else rnd)
    for pos in ROUNDING_POSITIONS:
        if pos < L:
            # digit number pos+1 is a 5: exactly half / just above half / just below half
            head = rnd[:pos]
            tail_len = L - pos - 1
            out.append(head + "5" + "0" * (tail_len - 1) + ("1" if tail_len else ""))
            out.append(head + "5" + "0" * tail_len)
            if tail_len:
                out.append(head + "4" + "9" * tail_len)
                even = head[:-1] + rng.choice("02468") if len(head) > 1 else head
                out.append(even + "5" + "0" * (tail_len - 1) + "5")
    res = []
    for m in out:
        m = m[:L] if len(m) > L else m
        if len(m) == L and m[0] != "0" and m not in res:
            res.append(m)
    return res


def long_int_exp_texts(rng: random.Random, per_len: int, maxlen: int = 60) -> list[str]:
    """Exponent-form integer literals whose mantissa has 1..maxlen significant digits."""
    out: list[str] = []
    for L in range(1, maxlen + 1):
        ms = _mantissas(rng, L)
        for j, m in enumerate(ms):
            picks = [(EXP_MARKS[(L + j) % 4], rng.randint(0, 40))]
            if j < per_len:
                picks += [(mk, rng.choice([0, 1, rng.randint(0, 40), 40])) for mk in EXP_MARKS]
            for mk, e in picks:
                sign = "-" if rng.random() < 0.3 else ""
                out.append(f"{sign}{m}{mk}{e}")
        # plain digits of the same length, too
        out.append(ms[0])
        out.append("-" + ms[-1])
    return out


def _midpoint_texts(rng: random.Random, n: int) -> list[str]:
    """Decimal expansions at / next to the exact midpoint of two adjacent doubles
    (round-half-even must decide; the deciding digit lies far beyond 17 or 28 digits)."""
    out: list[str] = []
    ctx = decimal.Context(prec=2000)
    for _ in range(n):
        x = rng.choice([rng.uniform(0.001, 1000.0), rng.uniform(1e5, 1e15), rng.random(),
                        float(rng.randrange(2**52, 2**53)), rng.uniform(1e-5, 1e-3)])
        y = math.nextafter(x, math.inf)
        mid = ctx.divide(ctx.add(Decimal(x), Decimal(y)), Decimal(2))
        t = format(mid, "f")
        if "." not in t:
            t += ".0"
        sign = "-" if rng.random() < 0.25 else ""
        out.append(sign + t)  # exact tie
        out.append(sign + t + "1")  # just above
        d = t.rstrip("0")
        if d[-1] not in ".0":
            out.append(sign + d[:-1] + str(int(d[-1]) - 1) + "9")  # just below
        # the same value in scientific spelling
        ip, fp = t.split(".")
        if len(ip) > 1:
            out.append(f"{sign}{ip[0]}.{ip[1:]}{fp}{rng.choice('eE')}{rng.choice(['', '+'])}{len(ip) - 1}")
        else:
            out.append(f"{sign}{ip}{fp[:1]}.{fp[1:] or '0'}{rng.choice('eE')}-1")
    return out


def long_float_texts(rng: random.Random, per_len: int, maxlen: int = 60) -> list[str]:
    out: list[str] = []
    for L in range(2, maxlen + 1):
        for j, m in enumerate(_mantissas(rng, L)):
            if j >= per_len + 3:
                break
            k = rng.randint(1, L - 1)
            t = f"{m[:k]}.{m[k:]}"
            r = rng.random()
            if r < 0.35:
                t += f"{rng.choice('eE')}{rng.choice(['', '+', '-'])}{rng.randint(0, 40)}"
            elif r < 0.5:
                t = f"0.{'0' * rng.randint(0, 8)}{m}"
            out.append(("-" if rng.random() < 0.3 else "") + t)
        m = _mantissas(rng, L)[0]
        out.append(f"{m}{rng.choice('eE')}-{rng.randint(0, 40)}")  # FLOAT by negative exponent
    return out + _midpoint_texts(rng, 12 * per_len)


LIMIT_SITES = ("output", "output-json", "assign", "filter-arg", "if-eq", "if-eq-right", "if-le",
               "case-when", "case-subject", "liquid-echo")


def _limit_probes(h: Harness) -> None:
    """The library's integer digit limit (liquid2.limits.MAX_STR_INT): a literal clearly
    within it is exact; beyond it the only acceptable failure is a LiquidError."""
    from liquid2 import limits

    ctx = h.ctx
    lim = limits.MAX_STR_INT
    if not lim:
        ctx.note("MAX_STR_INT is 0 (unlimited): limit probes skipped")
        return
    rng = random.Random("limit")
    digits = lambda n: rng.choice("123456789") + "".join(rng.choice("0123456789") for _ in range(n - 1))  # noqa: E731
    probes: list[tuple[str, str]] = []  # (text, zone)
    for total in (lim - 1, lim - 2, lim - 50, lim // 2):
        probes.append((digits(total), "within"))
        probes.append(("-" + digits(total - 1), "within"))
        for mk in EXP_MARKS:
            mlen = rng.choice([1, 2, 17, 29, 60])
            probes.append((f"{digits(mlen)}{mk}{total - mlen}", "within"))
        probes.append((f"-{digits(30)}e{total - 31}", "within"))
    for total in (lim, lim + 1):
        probes.append((digits(total), "edge"))
        probes.append((f"{digits(3)}e{total - 3}", "edge"))
        probes.append((f"-{digits(3)}E+{total - 3}", "edge"))
    for total in (lim + 2, lim + 3, lim + 100, 2 * lim, 10 * lim):
        probes.append((digits(total), "beyond"))
        probes.append(("-" + digits(total), "beyond"))
        for mk in EXP_MARKS:
            probes.append((f"{digits(rng.choice([1, 5, 40]))}{mk}{total}", "beyond"))
    # far beyond: the harness itself must not build the number, only the refusal is checked
    probes += [("1e99999999", "extreme"), ("7E+123456789012345678901234567890", "extreme"),
               ("-3e" + "9" * 5000, "extreme")]
    guard_seen = True
    for text, zone in probes:
        if zone == "extreme" and not guard_seen:
            # without a working guard the engine would try to build the number: skip
            ctx.count("limit_probes_extreme_skipped", len(LIMIT_SITES))
            continue
        for name in LIMIT_SITES:
            if not check_limit_probe(h, name, text, zone) and zone == "beyond":
                guard_seen = False


def check_limit_probe(h: Harness, name: str, text: str, zone: str) -> bool:
    """True when the literal was refused with a LiquidError."""
    from liquid2 import limits

    ctx = h.ctx
    site = NUMSITE[name]
    if zone == "extreme":
        src = site.src.replace("«N»", text)
        o = h.render(src, dict(site.partials), {"g": 1, "v": 0})
        if o.kind == "ok":  # cannot be right: the value has millions of digits
            o = Outcome("wrong", observed=o.out[:40], out=o.out[:40])
    else:
        o, _info = eval_number(h, site, text)
    ctx.ev()
    ctx.count("number_evaluations")
    ctx.count("limit_probes_" + zone)
    refused = o.kind.startswith("liquid-error:")
    if zone != "within" and refused:
        ctx.count("limit_probes_refused_with_LiquidError")
    if o.kind == "ok" or (zone != "within" and refused):
        return refused
    shape = "exp" if "e" in text.lower() else "plain"
    key = f"int-limit:{zone}:{o.kind if o.kind != 'wrong' else 'wrong-value'}:{shape}"
    short_text = text if len(text) < 80 else f"{text[:20]}...({len(text)} chars)...{text[-20:]}"
    ctx.violation(key, f"site {name}: integer literal {short_text} ({zone} the digit limit "
                       f"{limits.MAX_STR_INT}): {o.kind} {o.detail}",
                  {"kind": "limit", "site": name, "text": text, "zone": zone,
                   "outcome": o.kind, "detail": o.detail})
    return refused


# ---------------------------------------------------------------------------
# number literals as tag / filter ARGUMENTS
# ---------------------------------------------------------------------------
# A number written at an argument position must act as exactly that number.  Three
# comparisons per (site, spelling): against a small reference model of the documented
# semantics (first k items, skip k items, s[k], min(5, k), ...), against the canonical
# spelling of the same number, and against the same number supplied through a variable.

XS = list(range(1, 13))  # 1..12
XS_TXT = [str(i) for i in XS]
ABC = "abcdefghijklmnop"
_RE_TD = re.compile(r"<td[^>]*>(.*?)</td>")
_RE_TR = re.compile(r"<tr[^>]*>(.*?)</tr>", re.S)


def _join(items: list[Any]) -> str:
    return ",".join(str(i) for i in items) if items else "E"


def _rows(out: str) -> str:
    """tablerow output -> 'a,b|c,d' (cells per row)."""
    return "|".join(",".join(_RE_TD.findall(r)) for r in _RE_TR.findall(out))


def _chunk(items: list[Any], k: int) -> str:
    return "|".join(",".join(str(i) for i in items[j:j + k]) for j in range(0, len(items), k))


FOR_BODY = "{{ x }}{% unless forloop.last %},{% endunless %}{% else %}E{% endfor %}"


class ArgSite:
    def __init__(self, name: str, src: str, model: Callable[[int], str] | None,
                 *, lo: int = 0, hi: int = 13, post: Callable[[str], str] | None = None,
                 plain_only: bool = False, floats: bool = False):
        self.name = name
        self.src = src  # «N» = the number (literal or the variable n)
        self.model = model  # expected output for an int value in [lo, hi]; None = relational only
        self.lo, self.hi = lo, hi
        self.post = post
        self.plain_only = plain_only  # position lexed as `-?[0-9]+` only (path index)
        self.floats = floats  # float values make sense here (relational)


ARG_SITES = [
    ArgSite("for-limit", "{% for x in xs limit: «N» %}" + FOR_BODY, lambda v: _join(XS[:v])),
    ArgSite("for-offset", "{% for x in xs offset: «N» %}" + FOR_BODY, lambda v: _join(XS[v:])),
    ArgSite("for-limit-with-offset", "{% for x in xs limit: «N» offset: 2 %}" + FOR_BODY,
            lambda v: _join(XS[2:2 + v])),
    ArgSite("for-offset-with-limit", "{% for x in xs limit: 3 offset: «N» %}" + FOR_BODY,
            lambda v: _join(XS[v:v + 3])),
    ArgSite("for-limit-offset-same", "{% for x in xs offset: «N» limit: «N» %}" + FOR_BODY,
            lambda v: _join(XS[v:2 * v])),
    ArgSite("for-limit-eq", "{% for x in xs limit=«N» %}" + FOR_BODY, lambda v: _join(XS[:v])),
    ArgSite("for-limit-then-continue",
            "{% for x in xs limit: «N» %}" + FOR_BODY + "|{% for x in xs offset: continue %}" + FOR_BODY,
            lambda v: _join(XS[:v]) + "|" + _join(XS[v:])),
    ArgSite("for-range-limit", "{% for x in (1..12) limit: «N» %}" + FOR_BODY,
            lambda v: _join(XS[:v])),
    ArgSite("liquid-for-limit", "{% liquid for x in xs limit: «N»\n echo x\n echo ';'\n else\n echo 'E'\n endfor %}",
            lambda v: "".join(f"{i};" for i in XS[:v]) or "E"),
    ArgSite("tablerow-limit", "{% tablerow x in xs limit: «N» %}{{ x }}{% endtablerow %}",
            lambda v: ",".join(XS_TXT[:v]), post=lambda o: ",".join(_RE_TD.findall(o))),
    ArgSite("tablerow-offset", "{% tablerow x in xs offset: «N» %}{{ x }}{% endtablerow %}",
            lambda v: ",".join(XS_TXT[v:]), post=lambda o: ",".join(_RE_TD.findall(o))),
    ArgSite("tablerow-limit-with-offset",
            "{% tablerow x in xs limit: «N» offset: 2 %}{{ x }}{% endtablerow %}",
            lambda v: ",".join(XS_TXT[2:2 + v]), post=lambda o: ",".join(_RE_TD.findall(o))),
    ArgSite("tablerow-cols", "{% tablerow x in xs cols: «N» %}{{ x }}{% endtablerow %}",
            lambda v: _chunk(XS_TXT, v), lo=1, post=_rows),
    ArgSite("tablerow-cols-limit", "{% tablerow x in xs cols: 2 limit: «N» %}{{ x }}{% endtablerow %}",
            lambda v: _chunk(XS_TXT[:v], 2), post=_rows),
    ArgSite("range-start", "{{ («N»..12) | join: ',' }}", lambda v: ",".join(XS_TXT[v - 1:]), lo=1, hi=12),
    ArgSite("range-stop", "{{ (1..«N») | join: ',' }}", lambda v: ",".join(XS_TXT[:v]), lo=1, hi=12),
    ArgSite("for-range-start", "{% for x in («N»..3) %}" + FOR_BODY,
            lambda v: _join(list(range(v, 4))), hi=5),
    ArgSite("for-range-stop", "{% for x in (0..«N») %}" + FOR_BODY,
            lambda v: _join(list(range(0, v + 1))), hi=12),
    ArgSite("path-index", "{{ xs[«N»] }}", lambda v: str(XS[v]), lo=-12, hi=11, plain_only=True),
    ArgSite("path-index-nested", "{{ m.rows[«N»][«N»] }}", lambda v: f"r{v}c{v}", hi=3,
            plain_only=True),
    ArgSite("slice-1", "{{ abc | slice: «N» }}", lambda v: ABC[v], lo=-16, hi=15),
    ArgSite("slice-start", "{{ abc | slice: «N», 3 }}", lambda v: ABC[v:v + 3], hi=15),
    ArgSite("slice-length", "{{ abc | slice: 2, «N» }}", lambda v: ABC[2:2 + v], hi=13),
    ArgSite("truncate", "{{ abc | truncate: «N», '' }}", lambda v: ABC[:v], hi=20),
    ArgSite("truncatewords", "{{ 'a b c d e f g h' | truncatewords: «N», '' }}",
            lambda v: " ".join("abcdefgh"[:v]), lo=1, hi=8),
    ArgSite("round", "{{ 3.14159265 | round: «N» }}",
            lambda v: str(round(3.14159265, v)) if v else "3", hi=8),
    ArgSite("at-most", "{{ 5 | at_most: «N» }}", lambda v: str(min(5, v)), lo=-13, floats=True),
    ArgSite("at-least", "{{ 5 | at_least: «N» }}", lambda v: str(max(5, v)), lo=-13, floats=True),
    ArgSite("plus", "{{ 5 | plus: «N» }}", lambda v: str(5 + v), lo=-13, floats=True),
    ArgSite("minus", "{{ 5 | minus: «N» }}", lambda v: str(5 - v), lo=-13, floats=True),
    ArgSite("times", "{{ 5 | times: «N» }}", lambda v: str(5 * v), lo=-13, floats=True),
    ArgSite("array-first-n", "{{ xs | slice: 0, «N» | join: ',' }}", lambda v: ",".join(XS_TXT[:v])),
    ArgSite("if-size", "{% if xs.size > «N» %}T{% else %}F{% endif %}",
            lambda v: "T" if 12 > v else "F", lo=-13, hi=14, floats=True),
    ArgSite("cycle-number-items", "{% for i in (1..3) %}{% cycle «N», 77 %};{% endfor %}",
            lambda v: f"{v};77;{v};", lo=-13, floats=False),
    ArgSite("default-number", "{{ nosuch | default: «N» }}", lambda v: str(v), lo=-13, floats=True),
]
ARGSITE = {s.name: s for s in ARG_SITES}
ARG_DATA = {"xs": XS, "abc": ABC, "g": 1,
            "m": {"rows": [[f"r{r}c{c}" for c in range(4)] for r in range(4)]}}


def int_spellings(v: int) -> list[str]:
    """Spellings of the integer v (integer-class literals); the first is canonical."""
    sign, a = ("-", -v) if v < 0 else ("", v)
    out = [f"{sign}{a}", f"{sign}0{a}", f"{sign}00{a}", f"{sign}{a}e0", f"{sign}{a}E0", f"{sign}{a}e+0",
           f"{sign}{a}E+0", f"{sign}0{a}e00"]
    if v == 0:
        out += ["-0", "-00", "0e5", "0E+3", "0e40", "-0e0", "00e1", "-0E+7"]
    if a and a % 10 == 0:
        out += [f"{sign}{a // 10}e1", f"{sign}{a // 10}E+1", f"{sign}{a // 10}e01"]
    seen: list[str] = []
    for t in out:
        if t not in seen:
            seen.append(t)
    return seen


def float_spellings(v: int) -> list[tuple[str, float]]:
    """Float-class spellings whose value is integral (v.0) or v + 0.5."""
    sign, a = ("-", -v) if v < 0 else ("", v)
    return [(f"{sign}{a}.0", float(v)), (f"{sign}{a}.00", float(v)), (f"{sign}{a}0e-1", float(v)),
            (f"{sign}{a}.0e0", float(v)), (f"{sign}0.{a}e1" if a < 10 else f"{sign}{a}.0E+0", float(v)),
            (f"{sign}{a}.5", float(f"{sign}{a}.5")), (f"{sign}{a}5e-1", float(f"{sign}{a}.5"))]


def run_arg(h: Harness, site: ArgSite, written: str, n: Any = None) -> tuple[str, str]:
    data = dict(ARG_DATA)
    if n is not None:
        data["n"] = n
    o = h.render(site.src.replace("«N»", written), {}, data)
    out = o.out
    if o.kind == "ok" and site.post:
        out = site.post(out)
    return o.kind, out


def check_arg(h: Harness, site: ArgSite, text: str, value: Any, vclass: str) -> None:
    ctx = h.ctx
    got = run_arg(h, site, text)
    canon = repr(value) if isinstance(value, float) else str(value)
    ref_canon = run_arg(h, site, canon) if canon != text else got
    ref_var = run_arg(h, site, "n", value)
    ctx.ev(3 if canon != text else 2)
    ctx.count("number_evaluations", 3 if canon != text else 2)
    ctx.count("number_arg_checks")
    ctx.seen("number_arg_sites", site.name)
    ctx.seen("sites", "numarg:" + site.name)
    if sum(c.isdigit() for c in text) >= 2:
        mark_nontrivial(ctx, "a", site.name, text)
    expected = None
    if site.model is not None and isinstance(value, int) and site.lo <= value <= site.hi:
        expected = ("ok", site.model(value))
        ctx.count("number_arg_model_checks")
    what = None
    if expected is not None and got != expected:
        # is it this spelling, the literal position, or the value itself?
        if ref_var != expected and ref_canon != expected:
            what = "value-mishandled"  # even the variable / canonical form acts differently
        elif ref_canon == expected:
            what = "spelling-differs-from-canonical"
        else:
            what = "literal-differs-from-variable"
    elif got != ref_canon:
        what = "spelling-differs-from-canonical"
    elif got != ref_var:
        what = "literal-differs-from-variable"
    if what is None:
        return
    key = f"{site.name}:{vclass}:{what}"
    ctx.violation(
        key,
        f"site {site.name}: `{text}` (= {value!r}) gave {got}; canonical `{canon}` gave "
        f"{ref_canon}; variable n={value!r} gave {ref_var}"
        + (f"; documented behaviour {expected}" if expected is not None else ""),
        {"kind": "number-arg", "site": site.name, "text": text, "value": value, "vclass": vclass,
         "source": site.src.replace("«N»", text)})


def _number_args(h: Harness, spec: dict[str, Any]) -> None:
    values = list(range(-13, 15))
    for idx, site in enumerate(ARG_SITES):
        if idx % spec["n"] != spec["i"]:
            continue
        for v in values:
            vclass = "zero" if v == 0 else ("negative-int" if v < 0 else "small-int")
            for text in int_spellings(v):
                if site.plain_only and ("e" in text.lower()):
                    continue
                if v < 0 and site.lo >= 0 and site.model is not None and not site.floats:
                    # negative sizes are refused or clamped (C02's business); still compared
                    # relationally, but only in the canonical and one other spelling
                    if text not in (str(v), f"-0{-v}"):
                        continue
                check_arg(h, site, text, v, vclass)
            if site.floats:
                for text, fv in float_spellings(v):
                    check_arg(h, site, text, fv, "float")
        h.ctx.check_deadline()
    if spec["i"] == 0:
        # boundary magnitudes at the positions that take any number
        big = [2**31 - 1, 2**31, 2**53 + 1, 10**18 + 1, 10**25 + 1, -(2**63) - 1, 10**40]
        for name in ("at-most", "at-least", "plus", "minus", "if-size", "default-number",
                     "cycle-number-items"):
            for v in big:
                for text in (str(v), f"{v}e0", f"{v}E+0"):
                    check_arg(h, ARGSITE[name], text, v, "big-int")


def _numbers(h: Harness, spec: dict[str, Any]) -> None:
    rng = random.Random(f"{spec['seed']}:num:{spec['i']}")
    n = spec["count"]
    texts = int_texts(rng, n) + sci_texts(rng, n) + float_texts(rng, n)
    per_len = 1 if spec["tier"] == "quick" else 6
    lrng = random.Random(f"{spec['seed']}:longnum")  # same list in every shard; split by index
    long_int: list[str] = []
    long_float: list[str] = []
    for _ in range(1 if spec["tier"] == "quick" else 8):
        long_int += long_int_exp_texts(lrng, per_len)
        long_float += long_float_texts(lrng, per_len)
    for t in long_int + long_float:
        h.ctx.mx("max:mantissa_digits", sum(c.isdigit() for c in t.lower().split("e")[0]))
    h.ctx.counters["long_mantissa_literals"] = 0
    texts += long_int + long_float
    n_long = len(long_int) + len(long_float)
    for j, text in enumerate(texts):
        if j % spec["n"] != spec["i"]:
            continue
        for site in NUM_SITES:
            check_number(h, site, text)
        h.ctx.count("number_literals")
        if j >= len(texts) - n_long:
            h.ctx.count("long_mantissa_literals")
        h.ctx.check_deadline()
    if spec["i"] == spec["n"] - 1:
        _limit_probes(h)
    _number_args(h, spec)
    # small indexes through a bracketed path (the lexer converts these itself)
    if spec["i"] == 0:
        arr = list(range(100, 160))
        for k in list(range(0, 60)) + list(range(-60, 0)):
            o = h.render("<<{{ arr[%d] }}>>" % k, {}, {"arr": arr})
            h.ctx.ev()
            h.ctx.count("number_evaluations")
            h.ctx.seen("sites", "num:path-index")
            if o.kind != "ok" or o.out != "<<%d>>" % arr[k]:
                h.ctx.violation("int-literal:path-index", f"arr[{k}] gave {o.out!r} ({o.kind})",
                                {"kind": "index", "k": k})


# ---------------------------------------------------------------------------
# json
# ---------------------------------------------------------------------------

JSON_VARIANTS = {
    "json": ("{{ x | json }}", False),
    "json-indent": ("{{ x | json: 2 }}", False),
    "json-indent-kw": ("{{ x | json: indent: 3 }}", False),
    "json-assign": ("{% assign j = x | json %}{{ j }}", False),
    "json-nested-path": ("{{ d.k[0] | json }}", False),
    "json-autoescape": ("{{ x | json }}", True),
    "json-autoescape-indent": ("{{ x | json: 1 }}", True),
}


def json_equal(a: Any, b: Any) -> bool:
    """Equality of decoded JSON with its input; bools are not numbers."""
    if isinstance(a, bool) or isinstance(b, bool) or a is None or b is None:
        return type(a) is type(b) and a == b
    if isinstance(a, (int, float)) and isinstance(b, (int, float)):
        return a == b
    if isinstance(a, str) and isinstance(b, str):
        return a == b
    if isinstance(a, list) and isinstance(b, list):
        return len(a) == len(b) and all(json_equal(x, y) for x, y in zip(a, b))
    if isinstance(a, dict) and isinstance(b, dict):
        return a.keys() == b.keys() and all(json_equal(a[k], b[k]) for k in a)
    return False


def json_leaves(v: Any):
    if isinstance(v, list):
        yield v
        for x in v:
            yield from json_leaves(x)
    elif isinstance(v, dict):
        yield v
        for k, x in v.items():
            yield k
            yield from json_leaves(x)
    else:
        yield v


def random_json(rng: random.Random, depth: int = 0) -> Any:
    r = rng.random()
    if depth >= 4 or r < 0.55:
        k = rng.randrange(9)
        if k == 0:
            return None
        if k == 1:
            return rng.random() < 0.5
        if k == 2:
            return rng.randint(-1000, 1000)
        if k == 3:
            return rng.choice([1, -1]) * rng.randrange(10 ** rng.randint(1, 45))
        if k == 4:
            return rng.choice([0.0, -0.0, 0.1, 1.5, 1e22, 1e-7, 5e-324, 1.7976931348623157e308,
                               -2.5, 1 / 3, 1e16, 123456.789, rng.random(),
                               rng.uniform(-1e9, 1e9), rng.random() * 10 ** rng.randint(-300, 300)])
        if k == 5:
            return rng.choice(["", "<b>&amp;'\"</b>", "\\", "\"", "\u2028", "\x08\x0c\n\r\t",
                               "\x7f\x00\x1f", "\U0001f600", "</script>", "\u00e9", "&#34;", "&quot;",
                               "${x}", "{{ x }}", "\ufffe\uffff", "a\U0010ffffb"])
        return random_string(rng)
    if r < 0.78:
        return [random_json(rng, depth + 1) for _ in range(rng.randint(0, 4))]
    return {random_string(rng, 5): random_json(rng, depth + 1) for _ in range(rng.randint(0, 4))}


def eval_json(h: Harness, variant: str, v: Any):
    src, ae = JSON_VARIANTS[variant]
    data = {"x": v, "d": {"k": [v]}, "g": 1}
    o = h.render(src, {}, data, env=h.env_ae if ae else h.env)
    if o.kind != "ok":
        return o
    text = html.unescape(o.out) if ae else o.out
    try:
        got = json.loads(text)
    except ValueError as e:
        return Outcome("invalid-json", observed=o.out, detail=str(e)[:80], out=o.out)
    if not json_equal(got, v):
        return Outcome("wrong", observed=got, out=o.out)
    return o


def check_json(h: Harness, variant: str, v: Any) -> None:
    ctx = h.ctx
    o = eval_json(h, variant, v)
    ctx.ev()
    ctx.count("json_evaluations")
    ctx.seen("json_variants", variant)
    ctx.seen("sites", "json:" + variant)
    if isinstance(v, (list, dict)) or (isinstance(v, str) and json.dumps(v, ensure_ascii=False) != f'"{v}"'):
        mark_nontrivial(ctx, "j", variant, repr(v))
    if o.kind == "ok":
        return
    # minimise: the smallest sub-value that fails the same way on its own
    small = v
    best = len(repr(v))
    for leaf in json_leaves(v):
        if len(repr(leaf)) < best:
            try:
                o2 = eval_json(h, variant, leaf)
            except Exception:  # noqa: BLE001
                continue
            if o2.kind == o.kind:
                small, best, o = leaf, len(repr(leaf)), o2
    if isinstance(small, str) and len(small) > 1:
        chars = ddmin(list(small), lambda cs: eval_json(h, variant, "".join(cs)).kind == o.kind, 200)
        small = "".join(chars)
        o = eval_json(h, variant, small)
    key = f"{variant}:{o.kind}:{type(small).__name__}"
    ctx.violation(key, f"{variant}: json of {small!r} rendered {o.out!r} "
                       f"({o.kind} {o.detail}; decoded {o.observed!r})",
                  {"kind": "json", "variant": variant, "value": small,
                   "rendered": _jsonable(o.out), "outcome": o.kind})


def _json(h: Harness, spec: dict[str, Any]) -> None:
    rng = random.Random(f"{spec['seed']}:json:{spec['i']}")
    variants = list(JSON_VARIANTS)
    fixed: list[Any] = [None, True, False, 0, -1, 2**53 + 1, 10**40, -(10**40) - 7, 0.1, -0.0, 1e22,
                        5e-324, "", "\"", "\\", "\x08", "\x7f", "\u2028", "\U0001f600", "<&>'\"",
                        [], {}, [[]], {"": ""}, {"a": [1, {"b": None}]}, [1, 1.0, True, "1"]]
    if spec["i"] == 0:
        for v in fixed:
            for var in variants:
                check_json(h, var, v)
        for cp in list(range(0, 0x100)) + BMP_EDGES + [0x1F600, 0x10000, 0x10FFFF]:
            for var in ("json", "json-autoescape"):
                check_json(h, var, "a" + chr(cp) + "b")
    for _ in range(spec["count"]):
        v = random_json(rng)
        for var in rng.sample(variants, 3):
            check_json(h, var, v)
        h.ctx.count("json_values")
        h.ctx.check_deadline()


# ---------------------------------------------------------------------------
# strings given to the `for` tag's limit:/offset: arguments
# ---------------------------------------------------------------------------
# What the tag does with the string ("continue" is the documented special value of offset:,
# numeric strings are coerced) is tag semantics, not literal denotation.  What the property
# does demand is that every spelling of the same string behaves like its minimal spelling.

FOR_ARG_SITES = {
    "for-limit": ("{% for x in xs limit: «L» %}{{ x }}{% endfor %}", ("2", "0", "12")),
    "for-offset": ("{% for x in xs offset: «L» %}{{ x }}{% endfor %}", ("4", "0", "continue")),
    "for-offset-continue": (
        "{% for x in xs limit: 2 %}{{ x }}{% endfor %}|{% for x in xs offset: «L» %}{{ x }}{% endfor %}",
        ("continue",)),
}


def eval_for_arg(h: Harness, name: str, pieces: list[Piece], quote: str):
    tmpl, _ = FOR_ARG_SITES[name]
    s = "".join(c for c, _m in pieces)
    data = {"xs": [1, 2, 3, 4, 5, 6], "g": 1}
    lit = quote + body_of(normalise(pieces)) + quote
    ref_lit = quote + body_of(minimal_pieces(s, quote)) + quote
    o = h.render(tmpl.replace("«L»", lit), {}, data)
    ref = h.render(tmpl.replace("«L»", ref_lit), {}, data)
    same = (o.kind, o.out) == (ref.kind, ref.out)
    return same, o, ref, lit, ref_lit


def _for_args(h: Harness, rng: random.Random) -> None:
    import itertools

    ctx = h.ctx
    for name, (_tmpl, targets) in FOR_ARG_SITES.items():
        for s in targets:
            for quote in QUOTES:
                per_char = [modes_for(ch, quote) for ch in s]
                if len(s) <= 2:
                    spellings = [list(zip(s, ms)) for ms in itertools.product(*per_char)]
                else:
                    spellings = [maximal_pieces(s, quote), maximal_pieces(s, quote, upper=True),
                                 alternating_pieces(s, quote, 0), alternating_pieces(s, quote, 1)]
                    for i in range(len(s)):  # one escaped character at a time
                        for m in ("u", "U"):
                            sp = minimal_pieces(s, quote)
                            sp[i] = (s[i], m)
                            spellings.append(sp)
                    spellings += [random_pieces(s, quote, rng) for _ in range(6)]
                # the same string as a template string (`${p}` supplies its tail): both quote
                # styles must be treated alike, and like the plain string when accepted
                if quote == "'":
                    tmpl = FOR_ARG_SITES[name][0]
                    for k in range(len(s)):
                        outs = []
                        for q in QUOTES:
                            lit_t = q + s[:k] + "${p}" + q
                            data = {"xs": [1, 2, 3, 4, 5, 6], "g": 1, "p": s[k:]}
                            ot = h.render(tmpl.replace("«L»", lit_t), {}, data)
                            outs.append((ot.kind, ot.out, lit_t))
                            ctx.ev()
                            ctx.count("string_evaluations")
                            ctx.count("for_arg_evaluations")
                        ref = h.render(tmpl.replace("«L»", "'" + s + "'"), {},
                                       {"xs": [1, 2, 3, 4, 5, 6], "g": 1})
                        bad = outs[0][:2] != outs[1][:2] or any(
                            kd == "ok" and out != ref.out for kd, out, _l in outs)
                        if bad:
                            ctx.violation(
                                f"{name}:template-string",
                                f"site {name}: {outs[0][2]} -> {outs[0][:2]}, {outs[1][2]} -> "
                                f"{outs[1][:2]}, plain '{s}' -> {(ref.kind, ref.out)} (p={s[k:]!r})",
                                {"kind": "for-arg-tstring", "site": name, "s": s, "k": k})
                for sp in spellings:
                    same, o, ref, lit, ref_lit = eval_for_arg(h, name, sp, quote)
                    ctx.ev()
                    ctx.count("string_evaluations")
                    ctx.count("for_arg_evaluations")
                    ctx.seen("sites", name)
                    if needs_or_has_escape(sp):
                        mark_nontrivial(ctx, "s", name, lit)
                    if same:
                        continue
                    feats = "+".join(sorted({feature(c, m) for c, m in sp if m != "raw"})) or "raw"
                    ctx.violation(
                        f"{name}:{feats}",
                        f"site {name}: {lit} and {ref_lit} spell the same string but behave "
                        f"differently: {o.kind} {o.out!r} vs {ref.kind} {ref.out!r}",
                        {"kind": "for-arg", "site": name, "quote": quote,
                         "pieces": [[c, m] for c, m in sp], "literal": lit,
                         "reference_literal": ref_lit, "observed": _jsonable(o.out),
                         "reference": _jsonable(ref.out)})


# ---------------------------------------------------------------------------
# invalid spellings (informational only; the property does not speak about them)
# ---------------------------------------------------------------------------

INVALID = [r"'\ud83d'", r"'\ude00'", r"'\ud83dA'", r"'\ud83dA'", r"'\u0000'", r"'\u0007'",
           r"'\x41'", r"'\a'", r"'\u12'", r"'\u12G4'", '"\\\'"', "'\\\"'", r"'\{'", r"'\u'",
           r"'\ud83d\ud83d'", r"'\U0001F600'"]


def _invalid(h: Harness) -> None:
    for lit in INVALID:
        o = h.render("{{ " + lit + " }}", {}, {})
        h.ctx.count("invalid_spellings_probed")
        if o.kind == "rejected":
            h.ctx.count("invalid_spellings_rejected")
        else:
            h.ctx.note(f"invalid spelling {lit} was not rejected: {o.kind} {o.out!r}")


# ---------------------------------------------------------------------------
# framework interface
# ---------------------------------------------------------------------------


def _ranges(lo: int, hi: int, n: int) -> list[tuple[int, int]]:
    step = (hi - lo + n - 1) // n
    return [(a, min(hi, a + step)) for a in range(lo, hi, step)]


def shards(tier: str, seed: int) -> list[dict[str, Any]]:
    quick = tier == "quick"
    specs: list[dict[str, Any]] = []
    # U+0008..U+00FF: exhaustive, all spellings x all sites x both quotes x embeddings
    for i, (a, b) in enumerate(_ranges(0x08, 0x100, 4 if quick else 8)):
        specs.append({"kind": "latin", "i": i, "lo": a, "hi": b})
    # BMP beyond Latin-1: stride sweep (quick), full sweep (thorough)
    nb = 3 if quick else 12
    for i, (a, b) in enumerate(_ranges(0x100, 0x10000, nb)):
        specs.append({"kind": "bmp", "i": i, "lo": a, "hi": b, "stride": 29 if quick else 1})
    na = 2 if quick else 8
    for i in range(na):
        specs.append({"kind": "astral", "i": i, "n": na, "extra": 300 if quick else 15000})
    nadv = 4 if quick else 8
    for i in range(nadv):
        specs.append({"kind": "adversarial", "i": i, "n": nadv})
    nr = 3 if quick else 12
    for i in range(nr):
        specs.append({"kind": "random", "i": i, "n": nr, "count": 2500 if quick else 60000})
    nn = 2 if quick else 6
    for i in range(nn):
        specs.append({"kind": "numbers", "i": i, "n": nn, "count": 120 if quick else 4000})
    nj = 2 if quick else 6
    for i in range(nj):
        specs.append({"kind": "json", "i": i, "n": nj, "count": 4000 if quick else 100000})
    return specs


def floors(tier: str) -> dict[str, int]:
    q = tier == "quick"
    return {
        "evaluations": 500_000 if q else 10_000_000,
        "string_evaluations": 450_000 if q else 8_000_000,
        "number_evaluations": 80_000 if q else 1_000_000,
        "json_evaluations": 15_000 if q else 1_000_000,
        "distinct_nontrivial": 350_000 if q else 2_000_000,
        # every string site, number site and json variant must have been exercised
        "set:sites": len(STRING_SITES) + len(NUM_SITES) + len(JSON_VARIANTS),
        "distinct_codepoints": 4_000 if q else 150_000,
        "set:codepoints": 280 if q else 1_500,
        "adversarial_strings": 1_464,  # = all strings of length <= 3 over HOSTILE
        "random_strings": 7_000 if q else 600_000,
        "long_mantissa_literals": 2_000 if q else 20_000,
        "max:mantissa_digits": 60,
        "for_arg_evaluations": 100,
        "number_arg_checks": 7_000,
        "number_arg_model_checks": 4_500,
        "set:number_arg_sites": len(ARG_SITES),
        "tstring_evaluations": 250_000 if q else 2_000_000,
        # (site, quote style) pairs at which a template string was accepted and denoted the
        # right string; fewer means some position stopped taking template strings at all
        "set:tstring_accepting": 150,
        "limit_probes_within": 250,
        "limit_probes_refused_with_LiquidError": 300,
    }


def run_shard(spec: dict[str, Any], ctx: Ctx) -> None:
    h = Harness(ctx)
    kind = spec["kind"]
    if kind == "latin":
        sweep_codepoints(h, list(range(spec["lo"], spec["hi"])), all_sites=True, embeds=(0, 1, 2))
        if spec["i"] == 0:
            _invalid(h)
            _for_args(h, random.Random(f"{spec['seed']}:forargs"))
    elif kind == "bmp":
        cps = [cp for cp in range(spec["lo"], spec["hi"], spec["stride"])
               if not 0xD800 <= cp <= 0xDFFF]
        cps += [cp for cp in BMP_EDGES if spec["lo"] <= cp < spec["hi"] and cp not in set(cps)]
        sweep_codepoints(h, sorted(cps), all_sites=False, embeds=(0, 2), salt=spec["i"])
    elif kind == "astral":
        rng = random.Random(f"{spec['seed']}:astral:{spec['i']}")
        cps = set(_astral_boundaries()[spec["i"]:: spec["n"]])
        # random astral code points from this shard's residue class (disjoint between shards)
        for _ in range(spec["extra"]):
            cp = rng.randrange(0x10000, 0x110000)
            cp -= (cp - spec["i"]) % spec["n"]
            if cp >= 0x10000 and cp % spec["n"] == spec["i"] % spec["n"] and cp not in _ASTRAL_B:
                cps.add(cp)
        sweep_codepoints(h, sorted(cps), all_sites=False, embeds=(0, 2), salt=spec["i"])
        if spec["i"] == 0:
            # a few astral code points at every site
            sweep_codepoints(h, [0x1F600, 0x10000, 0x10FFFF], all_sites=True, embeds=(1,))
            ctx.counters["distinct_codepoints"] -= 3  # counted above already
    elif kind == "adversarial":
        _adversarial(h, spec)
    elif kind == "random":
        _random(h, spec)
    elif kind == "numbers":
        _numbers(h, spec)
    elif kind == "json":
        _json(h, spec)
    else:
        raise ValueError(kind)


_ASTRAL_B = frozenset(_astral_boundaries())


def exhaustive(tier: str, merged: dict[str, Any]) -> bool:  # noqa: ARG001
    """The two bounded-exhaustive sub-spaces were completed: every string of length <= 3
    over HOSTILE, and every code point U+0008..U+00FF under every spelling at every site."""
    cps = merged["sets"].get("codepoints", set())
    return (merged["counters"].get("adversarial_strings", 0) >= len(HOSTILE) ** 3 + len(HOSTILE) ** 2
            + len(HOSTILE) + 1
            and all("%04X" % cp in cps for cp in range(0x08, 0x100)))


def replay(wit: dict[str, Any], ctx: Ctx) -> None:
    h = Harness(ctx)
    kind = wit.get("kind")
    if kind == "string":
        site = SITE[wit["site"]]
        pieces = [(c, m) for c, m in wit["pieces"]]
        interp = wit.get("interp")
        o, info = h.eval_string(site, pieces, wit["quote"], use_async=bool(wit.get("async")),
                                interp=interp)
        print(f"replay C20 string site={site.name} interpolation={interp}")
        print(f"  source    : {info['src']!r}")
        if info["tpls"]:
            print(f"  templates : {info['tpls']!r}")
        print(f"  literal   : {info['lit']}   denotes {info['s']!r}")
        print(f"  outcome   : {o.kind} observed={o.observed!r} output={o.out!r} {o.detail}")
        if o.kind != "ok":
            if interp and (o.kind == "rejected" or o.kind.startswith("liquid-error:")):
                h.report_tstring_refused(site, info["pieces"], wit["quote"], interp, o, info,
                                         bool(wit.get("async")))
            else:
                h.report_string(site, info["pieces"], wit["quote"], o, info,
                                bool(wit.get("async")), interp)
    elif kind == "number":
        site_n = NUMSITE[wit["site"]]
        o, info = eval_number(h, site_n, wit["text"], use_async=bool(wit.get("async")))
        print(f"replay C20 number site={site_n.name} source={info['src']!r} data={info['data']!r}")
        print(f"  literal {wit['text']} denotes {info['expected']!r}; outcome {o.kind} "
              f"observed={o.observed!r} output={o.out!r}")
        if o.kind != "ok":
            check_number(h, site_n, wit["text"])
    elif kind == "json":
        o = eval_json(h, wit["variant"], wit["value"])
        print(f"replay C20 json variant={wit['variant']} value={wit['value']!r}")
        print(f"  outcome {o.kind} rendered={o.out!r} decoded={o.observed!r} {o.detail}")
        if o.kind != "ok":
            check_json(h, wit["variant"], wit["value"])
    elif kind == "for-arg":
        pieces = [(c, m) for c, m in wit["pieces"]]
        same, o, ref, lit, ref_lit = eval_for_arg(h, wit["site"], pieces, wit["quote"])
        print(f"replay C20 for-arg site={wit['site']} {lit} -> {o.kind} {o.out!r}; "
              f"{ref_lit} -> {ref.kind} {ref.out!r}")
        if not same:
            ctx.violation(f"{wit['site']}:replayed", "spellings of one string behave differently", wit)
    elif kind == "number-arg":
        print(f"replay C20 number argument site={wit['site']} source={wit['source']!r}")
        check_arg(h, ARGSITE[wit["site"]], wit["text"], wit["value"], wit["vclass"])
    elif kind == "limit":
        print(f"replay C20 limit probe site={wit['site']} zone={wit['zone']} "
              f"text={wit['text'][:40]}...({len(wit['text'])} chars)")
        check_limit_probe(h, wit["site"], wit["text"], wit["zone"])
    elif kind == "index":
        k = wit["k"]
        o = h.render("<<{{ arr[%d] }}>>" % k, {}, {"arr": list(range(100, 160))})
        print(f"replay C20 index {k}: {o.kind} {o.out!r}")
    else:
        print(f"replay C20: unknown witness kind {kind!r}")
