"""C03 — async rendering is observationally identical to sync rendering.

Differential runtime oracle on (output | (error class, template name, token offset)) for
render / get_template / analyze vs their *_async twins, and schedule independence:
every coroutine's result under every explored interleaving of k concurrent renders equals
its solo result.  Coroutines are driven by hand (vf.instr.sched) so that schedules are
enumerated / replayable; file-system loaders run under asyncio (schedules uncontrolled).
"""

from __future__ import annotations

import asyncio
import copy
import os
import random
import re
import shutil
import tempfile
from collections.abc import Mapping
from typing import Any

from ..core import Ctx
from ..gen import corpus
from ..gen import emit as E
from ..gen.programs import Gen
from ..gen.programs import Profile
from ..instr import sched

ID = "C03"
LEVEL = "exploration"
RULE = (
    "cases = compliance-corpus templates (partials renamed into sub-directories), programs from "
    "the shared typed grammar with partials named 'snippets/partN.html', and hand-written "
    "inheritance / macro / translate fixtures; data wrapped in lazily awaited drops "
    "(__getitem_async__ awaiting a scheduler gate at every item access); loaders: DictLoader, "
    "CachingDictLoader (with namespace_key), gated async dict loader, FileSystemLoader, "
    "CachingFileSystemLoader, ChoiceLoader. Schedules: k in {2,3} concurrent renders, all "
    "interleavings when <= 2000, else 500 seeded samples. distinct = hash of (sources, data, "
    "loader kind[, schedule]); non-trivial = the async run awaited at >= 1 gate or loaded >= 1 partial."
)
ASSUMPTIONS = [
    "with dict-based loaders liquid2's async path awaits only what the harness supplies, so "
    "driving coroutines with send(None) explores every interleaving at await points",
    "file-system loaders use run_in_executor: their runs are compared sync vs async but their "
    "interleavings are not controlled",
]


# ------------------------------------------------------------------ lazy drops


class ADrop(Mapping):
    """Mapping whose items are fetched lazily; async access awaits a gate."""

    def __init__(self, d: dict[str, Any], counter: list[int]):
        self._d = d
        self._c = counter

    def _log(self, k: Any) -> None:
        # counter lists may carry an access log as their second element
        if len(self._c) > 1:
            self._c[1].append(k if isinstance(k, (str, int)) else repr(k))

    def __getitem__(self, k: Any) -> Any:
        self._log(k)
        return wrap(self._d[k], self._c)

    async def __getitem_async__(self, k: Any) -> Any:
        self._c[0] += 1
        self._log(k)
        await sched.Gate(("item", k))
        return wrap(self._d[k], self._c)

    def __iter__(self):
        return iter(self._d)

    def __aiter__(self):
        # the asynchronous counterpart of __iter__ (keys), as lazily loading collections
        # offer it; the engine documents that loops do not use it
        async def keys():
            for k in list(self._d):
                yield k

        return keys()

    def __len__(self) -> int:
        return len(self._d)

    def __str__(self) -> str:
        return "ADrop"


def wrap(v: Any, c: list[int]) -> Any:
    if isinstance(v, dict):
        return ADrop(v, c)
    if isinstance(v, list):
        return [wrap(x, c) for x in v]
    return v


def lazy(data: dict[str, Any], c: list[int]) -> dict[str, Any]:
    return {k: wrap(v, c) for k, v in data.items()}


# ------------------------------------------------------------------ environments


def make_env(kind: str, templates: dict[str, str], counter: list[int], root: str | None = None,
             env_kwargs: dict[str, Any] | None = None):
    import liquid2
    from liquid2 import CachingDictLoader
    from liquid2 import CachingFileSystemLoader
    from liquid2 import ChoiceLoader
    from liquid2 import DictLoader
    from liquid2 import Environment
    from liquid2 import FileSystemLoader

    class GatedDictLoader(DictLoader):
        async def get_source_async(self, env, template_name, *, context=None, **kwargs):  # noqa: ANN001
            counter[0] += 1
            await sched.Gate(("load", template_name))
            return self.get_source(env, template_name, context=context, **kwargs)

    class GatedCachingDictLoader(CachingDictLoader):
        async def get_source_async(self, env, template_name, *, context=None, **kwargs):  # noqa: ANN001
            counter[0] += 1
            await sched.Gate(("load", template_name))
            return self.get_source(env, template_name, context=context, **kwargs)

    class GatedUptodateLoader(CachingDictLoader):
        """Caching loader whose freshness check really suspends (like run_in_executor)."""

        def get_source(self, env, template_name, *, context=None, **kwargs):  # noqa: ANN001
            src = super().get_source(env, template_name, context=context, **kwargs)

            loader = self

            async def uptodate() -> bool:
                counter[0] += 1
                await sched.Gate(("uptodate", template_name))
                # `stale` names report "modified" (as after an edit of the source)
                return template_name not in getattr(loader, "stale", ())

            return src._replace(uptodate=uptodate)

        async def get_source_async(self, env, template_name, *, context=None, **kwargs):  # noqa: ANN001
            if getattr(self, "slow", False):
                counter[0] += 1
                await sched.Gate(("load", template_name))
            return self.get_source(env, template_name, context=context, **kwargs)

    if kind == "dict":
        loader: Any = DictLoader(templates)
    elif kind == "gated-uptodate":
        loader = GatedUptodateLoader(templates)
    elif kind == "gated-stale":
        loader = GatedUptodateLoader(templates)
        loader.stale = set(templates)
    elif kind == "gated-stale-slow":
        # stale entries AND a source read that suspends: reloads overlap
        loader = GatedUptodateLoader(templates)
        loader.stale = set(templates)
        loader.slow = True
    elif kind == "gated":
        loader = GatedDictLoader(templates)
    elif kind == "caching":
        loader = CachingDictLoader(templates)
    elif kind == "caching-ns":
        loader = CachingDictLoader(templates, namespace_key="site")
    elif kind == "gated-caching":
        loader = GatedCachingDictLoader(templates)
    elif kind == "fs":
        loader = FileSystemLoader(root)
    elif kind == "caching-fs":
        loader = CachingFileSystemLoader(root)
    elif kind == "choice":
        loader = ChoiceLoader([DictLoader({}), FileSystemLoader(root)])
    elif kind in ("fs-sync-override", "caching-fs-sync-override"):
        # the customisation documented in docs/loading_templates.md: a file-system loader
        # subclass that overrides get_source() only (partials come from a sub-directory)
        base = FileSystemLoader if kind == "fs-sync-override" else CachingFileSystemLoader

        class SnippetsLoader(base):  # type: ignore[misc, valid-type]
            def get_source(self, env, template_name, *, context=None, **kwargs):  # noqa: ANN001
                if kwargs.get("tag") in ("include", "render") or kwargs.get("variant") == "alt":
                    template_name = "snippets__/" + template_name
                return super().get_source(env, template_name, context=context, **kwargs)

        loader = SnippetsLoader(root)
    elif kind == "fs-both-override":
        # ... and a subclass that customises both entry points the same way, each calling super()
        class SnippetsLoader2(FileSystemLoader):
            def get_source(self, env, template_name, *, context=None, **kwargs):  # noqa: ANN001
                if kwargs.get("tag") in ("include", "render") or kwargs.get("variant") == "alt":
                    template_name = "snippets__/" + template_name
                return super().get_source(env, template_name, context=context, **kwargs)

            async def get_source_async(self, env, template_name, *, context=None, **kwargs):  # noqa: ANN001
                if kwargs.get("tag") in ("include", "render") or kwargs.get("variant") == "alt":
                    template_name = "snippets__/" + template_name
                return await super().get_source_async(env, template_name, context=context, **kwargs)

        loader = SnippetsLoader2(root)
    elif kind in ("package", "package-sync-override"):
        # templates of a Python package (the file tree of the case, made importable)
        import importlib
        import sys

        from liquid2 import PackageLoader

        parent, pkg = os.path.split(root.rstrip(os.sep))
        init = os.path.join(root, "__init__.py")
        if not os.path.exists(init):
            open(init, "w").close()
        if parent not in sys.path:
            sys.path.insert(0, parent)
        importlib.invalidate_caches()
        if kind == "package":
            loader = PackageLoader(pkg, package_path=".")
        else:
            class SnippetsPackageLoader(PackageLoader):
                def get_source(self, env, template_name, *, context=None, **kwargs):  # noqa: ANN001
                    if kwargs.get("tag") in ("include", "render") or kwargs.get("variant") == "alt":
                        template_name = "snippets__/" + template_name
                    return super().get_source(env, template_name, context=context, **kwargs)

            loader = SnippetsPackageLoader(pkg, package_path=".")
    elif kind in ("choice-ctx-dict", "caching-choice-ctx-dict", "choice-fs-sync-override", "choice-tag-first"):
        # load-context-aware loaders (docs/loading_templates.md, "Load context") that implement
        # get_source() ONLY, used as a delegate of a choice loader: the tag name and the keyword
        # arguments of get_template() must reach them on the async path too
        class CtxDictLoader(DictLoader):
            def get_source(self, env, template_name, *, context=None, **kwargs):  # noqa: ANN001
                if kwargs.get("tag") in ("include", "render", "extends") or kwargs.get("variant") == "alt":
                    alt = "snippets__/" + template_name
                    if alt in self.templates:
                        template_name = alt
                return super().get_source(env, template_name, context=context, **kwargs)

        class SnippetsLoader3(FileSystemLoader):
            def get_source(self, env, template_name, *, context=None, **kwargs):  # noqa: ANN001
                if kwargs.get("tag") in ("include", "render", "extends") or kwargs.get("variant") == "alt":
                    template_name = "snippets__/" + template_name
                return super().get_source(env, template_name, context=context, **kwargs)

        both = {**templates, **{"snippets__/" + n: "S!" + t for n, t in templates.items()}}
        if kind == "choice-tag-first":
            # the first delegate answers only for partial-loading tags (the snippets convention),
            # the second for everything: which delegate serves a name depends on the load
            # context of THIS request, never on who served the name before
            class TagOnlyLoader(DictLoader):
                def get_source(self, env, template_name, *, context=None, **kwargs):  # noqa: ANN001
                    if kwargs.get("tag") not in ("include", "render"):
                        from liquid2.exceptions import TemplateNotFoundError

                        raise TemplateNotFoundError(template_name)
                    return super().get_source(env, template_name, context=context, **kwargs)

            loader = ChoiceLoader([TagOnlyLoader({n: "S!" + t for n, t in templates.items()}), DictLoader(templates)])
        elif kind == "choice-ctx-dict":
            loader = ChoiceLoader([DictLoader({}), CtxDictLoader(both)])
        elif kind == "caching-choice-ctx-dict":
            from liquid2 import CachingChoiceLoader

            loader = CachingChoiceLoader([DictLoader({}), CtxDictLoader(both)])
        else:
            loader = ChoiceLoader([DictLoader({}), SnippetsLoader3(root)])
    else:
        raise ValueError(kind)
    del liquid2
    kw = dict(env_kwargs or {})
    limits = kw.pop("_limits", None)
    if kw.pop("_shopify", False):
        # the environment with the optional tags and filters (tablerow, base64_*)
        from liquid2.shopify import Environment as Environment  # noqa: PLC0414
    if limits:
        # resource limits are class attributes of the environment
        class LimitedEnv(Environment):
            pass

        for k, v in limits.items():
            setattr(LimitedEnv, k, v)
        return LimitedEnv(loader=loader, **kw)
    return Environment(loader=loader, **kw)


VARIANTS = ["default", "strict", "autoescape", "falsy-strict", "autoescape+strict", "limits-tight", "limits-mid", "shopify"]

# Small resource limits: both APIs must refuse the same programs at the same place.  (A
# context copied once too often, or a carry lost, on ONE path shows as an error on that path
# only — with the default limits that needs 30 nested contexts or 31 items.)
LIMITS = {
    "limits-tight": {"context_depth_limit": 4},
    "limits-mid": {"context_depth_limit": 8, "loop_iteration_limit": 60, "local_namespace_limit": 1500,
                   "output_stream_limit": 400},
}


def env_variant(v: str) -> dict[str, Any]:
    from liquid2 import FalsyStrictUndefined
    from liquid2 import StrictUndefined

    kw: dict[str, Any] = {}
    if v in LIMITS:
        kw["_limits"] = LIMITS[v]
    if v == "shopify":
        kw["_shopify"] = True
    if "autoescape" in v:
        kw["auto_escape"] = True
    if v.endswith("falsy-strict"):
        kw["undefined"] = FalsyStrictUndefined
    elif "strict" in v:
        kw["undefined"] = StrictUndefined
    return kw


DICT_KINDS = ["dict", "gated", "caching", "caching-ns", "gated-caching", "gated-uptodate", "gated-stale", "gated-stale-slow",
              "choice-ctx-dict", "caching-choice-ctx-dict", "choice-tag-first"]
FS_KINDS = ["fs", "caching-fs", "choice", "fs-sync-override", "caching-fs-sync-override", "fs-both-override",
            "choice-fs-sync-override", "package", "package-sync-override"]
# loaders that look at the keyword arguments of get_template()
KWARG_KINDS = {"choice-ctx-dict", "caching-choice-ctx-dict", "choice-fs-sync-override", "fs-sync-override",
               "caching-fs-sync-override", "fs-both-override", "package-sync-override"}


def outcome(fn) -> tuple:  # noqa: ANN001
    from liquid2.exceptions import LiquidError

    try:
        return ("ok", fn())
    except LiquidError as e:
        tok = e.token
        return ("err", type(e).__name__, e.template_name, getattr(tok, "start", None) if tok is not None else None)
    except RecursionError:
        return ("err", "RecursionError", None, None)
    except Exception as e:  # noqa: BLE001
        return ("exc", type(e).__name__)


def run_async(kind: str, make_coro) -> tuple:  # noqa: ANN001
    if kind in FS_KINDS:
        return outcome(lambda: asyncio.run(make_coro()))
    return outcome(lambda: sched.drive(make_coro()))


# ------------------------------------------------------------------ case sources


def subdir_rename(case: dict[str, Any]) -> tuple[str, dict[str, str]]:
    """Move a corpus case's partials into sub-directories (names are string literals)."""
    tpls = case["templates"]
    if not tpls:
        return case["template"], {}
    mapping = {n: f"snippets/{n}" if "/" not in n else n for n in tpls}

    def rw(src: str) -> str:
        for old, new in mapping.items():
            src = src.replace(f"'{old}'", f"'{new}'").replace(f'"{old}"', f'"{new}"')
        return src

    return rw(case["template"]), {mapping[n]: rw(s) for n, s in tpls.items()}


ANALYSIS_ONLY: list[dict[str, str]] = [
    {"root": "{% assign theme = 'dark' %}{% render 'panel', title: 'x' %}{{ currency }}",
     "panel": "{% include 'panel_body' %}{{ title }}", "panel_body": "{{ theme }}{{ title }}{{ missing }}{% assign currency = 1 %}"},
    {"root": "{% render 'setup' %}{{ currency }}", "setup": "{% include 'inc' %}", "inc": "{% assign currency = 'x' %}{{ rate }}"},
    {"root": "{% assign theme = 1 %}{% render 'rp' %}", "rp": "{% extends 'lay' %}{% block b %}{{ theme }}{% endblock %}",
     "lay": "<{% block b %}{% endblock %}{{ theme }}{% include 'foot' %}>", "foot": "{{ theme }}{{ year }}"},
    {"root": "{% for i in xs %}{% render 'a', n: i %}{% endfor %}", "a": "{% include 'b' with n as m %}", "b": "{{ m }}{{ i }}{{ n }}{{ g }}"},
]

FIXTURES: list[tuple[str, dict[str, str], dict[str, Any]]] = [
    # when-lists and and/or whose later operands are never needed, literal arguments that
    # contain markup, conditions read from lazily fetched data
    ("{% case day.name %}{% when 'Saturday', holiday.name %}weekend{% when nosuch or 'x' %}q{% else %}e{% endcase %}"
     "{% if flags.a or flags.nosuch == 1 %}A{% elsif flags.b and flags.c %}B{% elsif flags.c %}C{% else %}D{% endif %}"
     "{% unless flags.b or flags.zz %}U{% elsif flags.c %}V{% endunless %}",
     {}, {"day": {"name": "Saturday"}, "flags": {"a": False, "b": False, "c": True}}),
    ("{{ user.name | append: '<br>' }}{{ xs.items | map: 'v' | join: '<b>' }}{{ user.nick | default: '<i>n/a</i>' }}"
     "{% render 'tags', sep: '</li><li>', items: xs.items %}{% with sep: '<wbr>' %}{{ sep }}{{ user.name }}{% endwith %}"
     "{% include 'tags', sep: \"<hr class='x'>\", items: xs.items %}{{ '<p>' if user.name else '</p>' }}{{ \"<${user.name}>\" }}",
     {"tags": "{% for i in items %}{{ i.v }}{{ sep }}{% endfor %}"},
     {"user": {"name": "Tom & <Jerry>"}, "xs": {"items": [{"v": "a<"}, {"v": "b"}]}}),
    ("{% extends 'layouts/base.html' %}{% block content %}Hi {{ user.name }} {{ block.super }}{% endblock %}",
     {"layouts/base.html": "<{% block title %}{{ site.title }}{% endblock %}|{% block content %}base {{ user.id }}{% endblock %}>"},
     {"user": {"name": "Al", "id": 7}, "site": {"title": "T"}}),
    ("{% extends 'a/mid' %}{% block b %}leaf {{ block.super }}{% endblock %}",
     {"a/mid": "{% extends 'a/root' %}{% block b %}mid {{ x.y }} {{ block.super }}{% endblock %}",
      "a/root": "[{% block b %}root {{ x.z }}{% endblock %}]"},
     {"x": {"y": 1, "z": 2}}),
    ("{% macro 'price' p, sale: false %}{% if sale %}!{{ p.price }}{% else %}{{ p.price }}{% endif %}{% endmacro %}"
     "{% for p in ps %}{% call 'price' p, sale: p.sale %},{% endfor %}",
     {}, {"ps": [{"price": 3, "sale": True}, {"price": 4, "sale": False}]}),
    ("{% translate x: user.name, count: n.v %}Hello {{ x }}{% plural %}Hellos {{ x }} {{ count }}{% endtranslate %}"
     "{{ 'hi %(who)s' | t: who: user.name }}{{ 'a' | ngettext: 'b', n.v }}",
     {}, {"user": {"name": "Al"}, "n": {"v": 2}}),
    ("{% include 'snippets/foo.html' with user %}{% render 'snippets/foo.html' with user %}"
     "{% include 'snippets/foo.html' for us %}{% render 'snippets/foo.html' for us as u %}",
     {"snippets/foo.html": "[{{ foo.name }}{{ u.name }}{{ forloop.index }}]"},
     {"user": {"name": "Al"}, "us": [{"name": "B"}, {"name": "C"}]}),
    ("{% for x in xs.items %}{{ x.v | plus: base.n }}{% render 'p/q' , v: x.v %}{% else %}none{% endfor %}{{ xs.missing.deep }}",
     {"p/q": "<{{ v }}{{ nosuch.thing }}{% include 'p/r' %}>", "p/r": "r"},
     {"xs": {"items": [{"v": 1}, {"v": 2}]}, "base": {"n": 10}}),
    ("{{ a.b.c | default: d.e }}{% if a.b.c == d.e or a.x %}t{% endif %}{% case a.b.c %}{% when d.e %}w{% else %}e{% endcase %}"
     "{{ a.b.c if d.e else a.x || append: d.e }}{{ ys | map: 'k' | join: ',' }}{{ ys | where: 'k', a.b.c | size }}",
     {}, {"a": {"b": {"c": 5}, "x": None}, "d": {"e": 5}, "ys": [{"k": 5}, {"k": 6}]}),
    ("{% include 'card' with products[1], products: featured, label: 'x' %}{% include 'row' with rows, rows: other %}"
     "{% include 'row' for rows, rows: other %}{% include 'row' with rows.last as row, rows: other %}"
     "{% render 'card' with products[1], products: featured, label: 'y' %}{% render 'row' for rows, rows: other %}",
     {"card": "[{{ card.t }}|{{ label }}]", "row": "<{{ row }}>"},
     {"products": [{"t": "A"}, {"t": "B"}], "featured": [{"t": "F0"}, {"t": "F1"}], "rows": [1, 2, 3], "other": [7, 8, 9]}),
    ("{% assign theme = 'dark' %}{% render 'panel', title: 'x' %}{{ currency }}{% render 'setup' %}{{ currency }}",
     {"panel": "{{ title }}{% render 'panel_body', title: title %}", "panel_body": "{{ theme }}{{ title }}{{ missing.deep }}",
      "setup": "{% render 'money' %}", "money": "{% assign currency = 'EUR' %}{{ currency }}{{ rate | times: 2 }}"},
     {"rate": 2}),
    ("{% render 'rp' %}", {"rp": "{% extends 'lay' %}{% block b %}{{ theme }}{{ inner }}{% endblock %}",
                           "lay": "<{% block b %}{% endblock %}{{ theme | upcase }}>"}, {"theme": "t"}),
    ("{% for i in xs.items %}[{{ i.v }}{% render 'p/brk', v: i.v %}]{% endfor %} done",
     {"p/brk": "{% if v > 1 %}{% break %}{% endif %}{{ v }}"}, {"xs": {"items": [{"v": 1}, {"v": 2}, {"v": 3}]}}),
    ("{% for i in xs.items %}[{{ i.v }}{% render 'p/cnt', v: i.v %}]{% endfor %} done",
     {"p/cnt": "{% continue %}x"}, {"xs": {"items": [{"v": 1}, {"v": 2}]}}),
    ("{% for i in xs.items %}[{% include 'p/ibrk' %}]{% endfor %}{% render 'p/cnt' %}",
     {"p/ibrk": "{{ i.v }}{% if i.v == 2 %}{% break %}{% endif %}", "p/cnt": "{% continue %}x"},
     {"xs": {"items": [{"v": 1}, {"v": 2}, {"v": 3}]}}),
    ("{% for i in xs.items %}{% render 'p/nest' for xs.items as j %}{% endfor %}",
     {"p/nest": "{{ j.v }}{% render 'p/brk', v: j.v %}", "p/brk": "{% if v > 1 %}{% break %}{% endif %}"},
     {"xs": {"items": [{"v": 1}, {"v": 2}]}}),
    ("{% macro m x %}{% if x > 1 %}{% break %}{% endif %}{{ x }}{% endmacro %}{% for i in xs.items %}{% call m i.v %}{% endfor %}",
     {}, {"xs": {"items": [{"v": 1}, {"v": 2}]}}),
    # more items than the (small) context depth limit of the limits-* configurations, on every
    # tag that makes a context per item or per call
    ("{% render 'row' for rows %}|{% render 'row' for rows as row, k: 1 %}|{% include 'row' for rows %}|"
     "{% for r in rows %}{% render 'row', row: r %}{% include 'row' with r as row %}{% endfor %}|"
     "{% macro m x %}({{ x }}){% endmacro %}{% for r in rows %}{% call m r %}{% endfor %}|"
     "{% for r in rows %}{% with q: r %}{{ q }}{% endwith %}{% endfor %}",
     {"row": "<{{ row }}{% for i in (1..2) %}{{ i }}{% endfor %}>"}, {"rows": list(range(1, 12))}),
    ("{% extends 'lay2' %}{% block b %}{% for r in rows %}{% render 'cell' for rows as c %}{% endfor %}{% endblock %}",
     {"lay2": "[{% block b %}{% endblock %}]", "cell": "{{ c }}"}, {"rows": list(range(1, 7))}),
    # tablerow (optional tag; a syntax error in the other configurations): interrupts from every cell
    ("{% tablerow x in rows cols: 2 %}{{ x }}{% if x == stop.a %}{% break %}{% endif %}{% if x == stop.b %}{% continue %}{% endif %}!{% endtablerow %}|"
     "{% tablerow x in rows cols: 1 %}{{ x }}{% if x == stop.a %}{% break %}{% endif %}{% endtablerow %}|"
     "{% tablerow x in rows cols: 3 limit: 5 %}{{ tablerowloop.col }}{% if x == stop.c %}{% break %}{% endif %}{% endtablerow %}|"
     "{% for r in xs.items %}{% tablerow x in rows cols: 2 %}{% if x == r.v %}{% break %}{% endif %}{{ x }}{% endtablerow %}{% endfor %}",
     {}, {"rows": list(range(1, 7)), "stop": {"a": 2, "b": 3, "c": 3}, "xs": {"items": [{"v": 1}, {"v": 2}, {"v": 4}, {"v": 6}]}}),
    ("{% tablerow x in rows cols: 2 %}{{ x }}{% if x == stop.a %}{% break %}{% endif %}{% endtablerow %}"
     "{% tablerow p in ps cols: 2 %}{{ p.v }}{% render 'cellp', v: p.v %}{% if p.last %}{% break %}{% endif %}{% endtablerow %}",
     {"cellp": "({{ v }})"}, {"rows": [1, 2, 3, 4], "stop": {"a": 4}, "ps": [{"v": 1}, {"v": 2, "last": True}, {"v": 3}]}),
    ("{% capture c %}{{ a.b }}{% endcapture %}{{ c }}{% assign z = a.b | append: a.c %}{{ z }}{% with q: a.c %}{{ q }}{% endwith %}"
     "{% cycle a.b, a.c %}{% cycle a.b, a.c %}{{ 'x${a.b}y' }}{% for i in (a.lo..a.hi) %}{{ i }}{% endfor %}",
     {}, {"a": {"b": "B", "c": "C", "lo": 1, "hi": 3}}),
]


class Work:
    def __init__(self, ctx: Ctx, spec: dict[str, Any]):
        self.ctx = ctx
        self.rng = random.Random(f"{spec['seed']}:{spec['kind']}:{spec['i']}")
        self.tier = spec["tier"]
        self.tmp: str | None = None

    def close(self) -> None:
        if self.tmp:
            shutil.rmtree(self.tmp, ignore_errors=True)

    def fs_root(self, templates: dict[str, str]) -> str:
        if self.tmp is None:
            self.tmp = tempfile.mkdtemp(prefix="vf-c03-")
        root = tempfile.mkdtemp(dir=self.tmp, prefix="vfpkg")
        for name, src in templates.items():
            # (a second copy for loaders that serve partials from a sub-directory; names
            # without a suffix also under the package loader's default extension)
            ext = "" if os.path.splitext(name)[1] else ".liquid"
            for p, text in ((os.path.join(root, name), src),
                            (os.path.join(root, "snippets__", name), "S!" + src),
                            *(((os.path.join(root, name + ext), src),
                               (os.path.join(root, "snippets__", name + ext), "S!" + src)) if ext else ())):
                os.makedirs(os.path.dirname(p), exist_ok=True)
                with open(p, "w", encoding="utf-8", newline="") as f:
                    f.write(text)
        return root

    # -------------------------------------------------------------- differential
    def differential(self, source: str, templates: dict[str, str], data: dict[str, Any], kind: str,
                     origin: str, variant: str | None = None) -> None:
        ctx = self.ctx
        if variant is None:
            # the default configuration, and one of the others in rotation
            self.differential(source, templates, data, kind, origin, "default")
            self._rot = getattr(self, "_rot", 0) + 1
            variant = VARIANTS[1 + self._rot % (len(VARIANTS) - 1)]
        kw = env_variant(variant)
        cnt: list[Any] = [0, []]
        cnt_s: list[Any] = [0, []]
        root = self.fs_root(templates) if kind in FS_KINDS else None
        env_s = make_env(kind, templates, cnt_s, root, kw)
        env_a = make_env(kind, templates, cnt, root, kw)
        d_s = lazy(copy.deepcopy(data), cnt_s)
        d_a = lazy(copy.deepcopy(data), cnt)
        if kind == "caching-ns":
            d_s["site"] = d_a["site"] = "siteA"
        sync = outcome(lambda: env_s.from_string(source).render(**d_s))
        asy = run_async(kind, lambda: env_a.from_string(source).render_async(**d_a))
        ctx.ev(2)
        ctx.count("sync_async_pairs")
        ctx.count("sync_async_pairs:" + variant)
        ctx.seen("loader_kinds", kind)
        if sync[0] == "err":
            ctx.count("error_pairs")
        if cnt[0] or templates:
            ctx.nt(source, sorted(templates.items()), repr(data), kind, variant)
        vs = "" if variant == "default" else f"[{variant}]"
        wit = {"op": "render", "source": source, "templates": templates, "data": data, "kind": kind, "variant": variant}
        if sync != asy:
            key = f"render{vs}:{_diffkind(sync, asy)}@{origin}:{kind if kind in FS_KINDS else 'dict-like' if kind in ('dict', 'gated') else kind}"
            ctx.violation(key, f"sync={_short(sync)} async={_short(asy)}", wit)
        elif cnt_s[1] != cnt[1]:
            # same result, but the data was read differently: which items of lazily
            # fetched objects are looked up, how often and in which order
            ctx.count("access_logs_differ")
            i = next((j for j, (x, y) in enumerate(zip(cnt_s[1], cnt[1])) if x != y), min(len(cnt_s[1]), len(cnt[1])))
            more = "async" if len(cnt[1]) > len(cnt_s[1]) else "sync" if len(cnt_s[1]) > len(cnt[1]) else "order"
            ctx.violation(f"data-access{vs}:{more}-differs@{origin}",
                          f"item lookups differ from position {i}: sync {cnt_s[1][max(0, i - 2): i + 3]} async {cnt[1][max(0, i - 2): i + 3]} "
                          f"({len(cnt_s[1])} vs {len(cnt[1])} lookups)", wit)
        else:
            ctx.count("access_logs_equal")
        if root:
            shutil.rmtree(root, ignore_errors=True)

    def globals_ops(self, templates: dict[str, str], kind: str) -> None:
        """Repeated loads of one template by name on an environment WITH globals (the second and
        third are hits for caching loaders), with and without template globals: every load renders
        the same through both APIs."""
        ctx = self.ctx
        tpls = {**templates, "gprobe__": "{{ site_g }}|{{ tg }}|{% include 'gpart__' %}", "gpart__": "[{{ site_g }}{{ tg }}]"}
        root = self.fs_root(tpls) if kind in FS_KINDS else None
        kw = {"globals": {"site_g": "SG", **({"site": "siteA"} if kind == "caching-ns" else {})}}
        env_s = make_env(kind, tpls, [0], root, kw)
        env_a = make_env(kind, tpls, [0], root, kw)
        for i, g in enumerate((None, {"tg": "T1"}, None, {"tg": "T2"}, None)):
            s = outcome(lambda: env_s.get_template("gprobe__", globals=g).render())

            async def load_render():  # noqa: ANN202
                t = await env_a.get_template_async("gprobe__", globals=g)
                return await t.render_async()

            a = run_async(kind, load_render)
            ctx.ev(2)
            ctx.count("globals_load_pairs")
            if s != a:
                ctx.violation(f"get_template-globals:{_diffkind(s, a)}:{kind}:load-{i + 1}",
                              f"load {i + 1} with globals={g}: sync={_short(s)} async={_short(a)}",
                              {"op": "globals", "templates": templates, "kind": kind})
                break
        if root:
            shutil.rmtree(root, ignore_errors=True)

    def template_ops(self, templates: dict[str, str], data: dict[str, Any], kind: str) -> None:
        """get_template / analyze vs async twins, for every template of the set."""
        ctx = self.ctx
        self.globals_ops(templates, kind)
        root = self.fs_root(templates) if kind in FS_KINDS else None
        for name in templates:
            env_s = make_env(kind, templates, [0], root)
            env_a = make_env(kind, templates, [0], root)
            g = {"site": "siteA"} if kind == "caching-ns" else None

            def desc(t) -> tuple:  # noqa: ANN001
                return (t.name, str(t.path), t.full_name(), str(t))

            s = outcome(lambda: desc(env_s.get_template(name, globals=g)))
            a = run_async(kind, lambda: _desc_async(env_a, name, g, desc))
            ctx.ev(2)
            ctx.count("get_template_pairs")
            if s != a:
                ctx.violation(f"get_template:{_diffkind(s, a)}:{'name-in-subdir' if '/' in name else 'plain-name'}:{kind}",
                              f"sync={_short(s)} async={_short(a)}",
                              {"op": "get_template", "name": name, "templates": templates, "data": data, "kind": kind})
                continue
            # second load (cache hit path for caching loaders)
            s2 = outcome(lambda: desc(env_s.get_template(name, globals=g)))
            a2 = run_async(kind, lambda: _desc_async(env_a, name, g, desc))
            if s2 != a2:
                ctx.violation(f"get_template-2nd:{_diffkind(s2, a2)}:{kind}", f"sync={_short(s2)} async={_short(a2)}",
                              {"op": "get_template", "name": name, "templates": templates, "data": data, "kind": kind})
            # the same name again, now through the partial-loading tags of a template rendered
            # by the SAME environment (what an earlier direct load leaves behind in the loader
            # must not decide who serves it now)
            tagsrc = "{%% include '%s' %%}|{%% render '%s' %%}" % (name, name)
            s4 = outcome(lambda: env_s.from_string(tagsrc).render(**copy.deepcopy(data)))
            a4 = run_async(kind, lambda: env_a.from_string(tagsrc).render_async(**copy.deepcopy(data)))
            ctx.ev(2)
            ctx.count("load_then_tag_pairs")
            if s4 != a4:
                ctx.violation(f"load-then-tag:{_diffkind(s4, a4)}:{kind}", f"sync={_short(s4)} async={_short(a4)}",
                              {"op": "get_template", "name": name, "templates": templates, "data": data, "kind": kind})
            if kind in KWARG_KINDS:
                # keyword arguments of get_template() are load context for the loader
                s3 = outcome(lambda: desc(env_s.get_template(name, globals=g, variant="alt")))
                a3 = run_async(kind, lambda: _desc_async(env_a, name, g, desc, variant="alt"))
                ctx.ev(2)
                ctx.count("get_template_pairs:load-context-kwargs")
                if s3 != a3:
                    ctx.violation(f"get_template-kwargs:{_diffkind(s3, a3)}:{kind}", f"sync={_short(s3)} async={_short(a3)}",
                                  {"op": "get_template", "name": name, "templates": templates, "data": data, "kind": kind})
            if s[0] != "ok":
                continue

            def an(t) -> Any:  # noqa: ANN001
                r = t.analyze()
                return _analysis_key(r)

            sa = outcome(lambda: an(env_s.get_template(name, globals=g)))
            aa = run_async(kind, lambda: _analyze_async(env_a, name, g))
            ctx.ev(2)
            ctx.count("analyze_pairs")
            if sa != aa:
                ctx.violation(f"analyze:{_diffkind(sa, aa)}:{kind}", f"sync={_short(sa)} async={_short(aa)}",
                              {"op": "analyze", "name": name, "templates": templates, "data": data, "kind": kind})
        if root:
            shutil.rmtree(root, ignore_errors=True)

    # -------------------------------------------------------------- schedules
    def schedules(self, source: str, templates: dict[str, str], datas: list[dict[str, Any]], kind: str,
                  origin: str) -> None:
        ctx = self.ctx
        cnt = [0]
        k = len(datas)
        # solo results on fresh objects
        solo = []
        for d in datas:
            env = make_env(kind, templates, [0])
            t = env.from_string(source)
            solo.append(outcome(lambda: sched.drive(t.render_async(**lazy(copy.deepcopy(d), [0])))))

        def build():  # noqa: ANN202
            env = make_env(kind, templates, cnt)
            t = env.from_string(source)  # ONE shared Template object
            return [(lambda d=d: t.render_async(**lazy(copy.deepcopy(d), cnt))) for d in datas]

        lengths = [sched.count_awaits(f) for f in build()]
        if sum(lengths) == k:
            ctx.count("schedule_sets_without_awaits")
            return
        alls = sched.all_schedules(lengths, 2000)
        if alls is not None:
            todo = list(alls)
            ctx.count("schedule_sets_exhaustive")
        else:
            todo = []
            for _ in range(500 if self.tier == "thorough" else 120):
                pool = [i for i, n in enumerate(lengths) for _ in range(n)]
                self.rng.shuffle(pool)
                todo.append(pool)
            ctx.count("schedule_sets_sampled")
        ctx.count("schedule_sets")
        for sch in todo:
            outs, taken = sched.run_schedule(build(), sched.follow(sch))
            got = [_o2outcome(o) for o in outs]
            ctx.ev()
            ctx.count("schedules_explored")
            ctx.nt(source, repr(datas), kind, tuple(taken))
            if got != solo:
                who = next(i for i in range(k) if got[i] != solo[i])
                ctx.violation(f"schedule-dependence:{_diffkind(solo[who], got[who])}@{origin}:{kind}",
                              f"coroutine {who}: solo={_short(solo[who])} interleaved={_short(got[who])} schedule={taken}",
                              {"op": "schedule", "source": source, "templates": templates, "datas": datas,
                               "kind": kind, "schedule": taken})
                return


async def _desc_async(env, name, g, desc, **kwargs):  # noqa: ANN001
    t = await env.get_template_async(name, globals=g, **kwargs)
    return desc(t)


async def _analyze_async(env, name, g):  # noqa: ANN001
    t = await env.get_template_async(name, globals=g)
    return _analysis_key(await t.analyze_async())


def _analysis_key(r) -> Any:  # noqa: ANN001
    def spans(m) -> Any:  # noqa: ANN001
        out = []
        for k, vs in sorted(m.items(), key=lambda kv: str(kv[0])):
            locs = []
            for v in vs:
                sp = getattr(v, "span", v)
                locs.append((str(v), getattr(sp, "template_name", None), getattr(sp, "start", None), getattr(sp, "end", None)))
            out.append((str(k), sorted(locs, key=repr)))
        return out

    return tuple((f, spans(getattr(r, f))) for f in ("variables", "locals", "globals", "filters", "tags")
                 if hasattr(r, f))


def _o2outcome(o: sched.Outcome) -> tuple:
    from liquid2.exceptions import LiquidError

    if o.error is None:
        return ("ok", o.value)
    e = o.error
    if isinstance(e, LiquidError):
        tok = e.token
        return ("err", type(e).__name__, e.template_name, getattr(tok, "start", None) if tok is not None else None)
    return ("exc", type(e).__name__)


def _diffkind(a: tuple, b: tuple) -> str:
    if a[0] != b[0]:
        return f"{a[0]}-vs-{b[0]}"
    if a[0] == "ok":
        return "output-differs"
    if a[0] == "exc":
        return "exception-differs"
    if a[1] != b[1]:
        return f"error-class:{a[1]}-vs-{b[1]}"
    if a[2] != b[2]:
        return "error-template-name-differs"
    return "error-offset-differs"


def _short(o: tuple) -> str:
    s = repr(o)
    return s if len(s) < 300 else s[:300] + "…"


def load_render_jobs(w: "Work", name: str, templates: dict[str, str], datas: list[dict[str, Any]], kind: str) -> None:
    """k concurrent `get_template_async(name, globals=g_i)` + `render_async()` on ONE
    shared environment / caching loader (warm and cold cache): every caller must get
    its own globals; each result must equal the solo sync result."""
    ctx = w.ctx
    cnt = [0]

    def solo(g):  # noqa: ANN001, ANN202
        env = make_env(kind, templates, [0])
        return outcome(lambda: env.get_template(name, globals=copy.deepcopy(g)).render())

    expected = [solo(g) for g in datas]
    for warm in (False, True):
        def build():  # noqa: ANN202
            env = make_env(kind, templates, cnt)
            if warm:
                sched.drive(env.get_template_async(name, globals={"warm": 1}))

            async def job(g):  # noqa: ANN001, ANN202
                t = await env.get_template_async(name, globals=lazy(copy.deepcopy(g), cnt))
                return await t.render_async()

            return [(lambda g=g: job(g)) for g in datas]

        lengths = [sched.count_awaits(f) for f in build()]
        if sum(lengths) == len(datas):
            ctx.count("schedule_sets_without_awaits")
            continue
        alls = sched.all_schedules(lengths, 1500)
        todo = list(alls) if alls is not None else []
        if alls is None:
            for _ in range(150):
                pool = [i for i, n in enumerate(lengths) for _ in range(n)]
                w.rng.shuffle(pool)
                todo.append(pool)
        ctx.count("load_render_sets")
        for sch in todo:
            outs, taken = sched.run_schedule(build(), sched.follow(sch))
            got = [_o2outcome(o) for o in outs]
            ctx.ev()
            ctx.count("schedules_explored")
            ctx.count("load_render_schedules")
            ctx.nt(name, repr(datas), kind, warm, tuple(taken))
            if got != expected:
                who = next(i for i in range(len(datas)) if got[i] != expected[i])
                ctx.violation(
                    f"schedule-dependence:load+render:{_diffkind(expected[who], got[who])}:{kind}:{'warm' if warm else 'cold'}-cache",
                    f"caller {who}: solo-sync={_short(expected[who])} interleaved={_short(got[who])} schedule={taken}",
                    {"op": "load_render", "name": name, "templates": templates, "datas": datas, "kind": kind},
                )
                return


# ------------------------------------------------------------------ framework hooks


def shards(tier: str, seed: int) -> list[dict[str, Any]]:
    n = 6 if tier == "quick" else 16
    specs = [{"kind": "corpus", "i": i, "n": n} for i in range(n)]
    specs += [{"kind": "gen", "i": i, "n": n, "per": 90 if tier == "quick" else 2500} for i in range(n)]
    m = 4 if tier == "quick" else 12
    specs += [{"kind": "sched", "i": i, "n": m, "per": 50 if tier == "quick" else 700} for i in range(m)]
    return specs


def floors(tier: str) -> dict[str, int]:
    k = 1 if tier == "quick" else 15
    return {"sync_async_pairs": 1000 * k, "schedules_explored": 2000 * k, "schedule_sets_exhaustive": 50 * k,
            "get_template_pairs": 200 * k, "get_template_pairs:load-context-kwargs": 40 * k, "analyze_pairs": 100 * k, "set:loader_kinds": 17, "load_then_tag_pairs": 200 * k, "globals_load_pairs": 300 * k,
            "sync_async_pairs:limits-tight": 60 * k, "sync_async_pairs:limits-mid": 60 * k, "sync_async_pairs:shopify": 60 * k, "error_pairs": 50 * k,
            "load_render_schedules": 300 * k}


def gen_case(rng: random.Random) -> tuple[str, dict[str, str], dict[str, Any], Gen]:
    g = Gen(rng, Profile(partial_prefix="snippets/", partial_suffix=".html", partial_interrupts=True, partial_kw_shadow=True))
    prog = g.program()
    em = E.emit(prog, E.Layout(random.Random(rng.random()), p_marker=0.1, alt_forms=True))
    return em.source, em.partials, g.data(), g


def run_shard(spec: dict[str, Any], ctx: Ctx) -> None:
    w = Work(ctx, spec)
    rng = w.rng
    try:
        if spec["kind"] == "corpus":
            for ci, c in enumerate(corpus.cases()):
                if ci % spec["n"] != spec["i"]:
                    continue
                src, tpls = subdir_rename(c)
                kinds = ["dict"] if not tpls else (DICT_KINDS + ([rng.choice(FS_KINDS)] if rng.random() < 0.5 else []))
                for kind in kinds:
                    w.differential(src, tpls, c["data"], kind, "corpus")
                if tpls and rng.random() < 0.7:
                    w.template_ops(tpls, c["data"], rng.choice(DICT_KINDS + FS_KINDS))
            for src, tpls, data in FIXTURES:
                for kind in DICT_KINDS + FS_KINDS:
                    w.differential(src, dict(tpls), data, kind, "fixture")
                    if tpls:
                        # the root is served by the loader too, so that it is analysed
                        w.template_ops({**tpls, "root__": src}, data, kind)
            for tset in ANALYSIS_ONLY:
                for kind in DICT_KINDS + FS_KINDS:
                    w.template_ops(dict(tset), {}, kind)
            ctx.sample({"kind": "corpus", "source": src, "templates": tpls})
        elif spec["kind"] == "gen":
            from ..core import CaseBudget
            from ..core import case_budget

            for _ in range(spec["per"]):
                src, tpls, data, _g = gen_case(rng)
                kind = rng.choice(DICT_KINDS if tpls else ["dict", "gated"])
                try:
                    with case_budget(120):
                        w.differential(src, tpls, data, kind, "gen")
                        if tpls and rng.random() < 0.2:
                            w.differential(src, tpls, data, rng.choice(FS_KINDS), "gen")
                        if tpls and rng.random() < 0.25:
                            w.template_ops(tpls, data, rng.choice(DICT_KINDS + FS_KINDS))
                except CaseBudget:
                    ctx.count("cases_skipped:wall-clock-watchdog")
            ctx.sample({"kind": "gen", "source": src, "templates": tpls, "data": data})
        else:
            done = 0
            fixtures = [f for f in FIXTURES if "tablerow" not in f[0]]  # (optional tag: not in these environments)
            while done < spec["per"]:
                if rng.random() < 0.35:
                    src, tpls, data = rng.choice(fixtures)
                    tpls = dict(tpls)
                    datas = [data] + [_vary(data, rng) for _ in range(rng.choice([1, 1, 2]))]
                    origin = "fixture"
                else:
                    src, tpls, data, g = gen_case(rng)
                    datas = [data, g.data()] + ([g.data()] if rng.random() < 0.25 else [])
                    origin = "gen"
                kind = rng.choice(["gated", "gated-caching", "dict", "caching"])
                w.schedules(src, tpls, datas, kind, origin)
                done += 1
                if done % 3 == 0:
                    # concurrent loads of one cached template with different globals
                    gl = [{"who": {"name": n}, "n": {"v": i}} for i, n in enumerate(["alice", "bob", "carol"][: rng.choice([2, 3])])]
                    lt = {"page": "Hello {{ who.name }} {{ n.v }}{% include 'part' %}", "part": "[{{ who.name }}]"}
                    load_render_jobs(w, "page", lt, gl, rng.choice(["gated-uptodate", "gated-stale", "gated-stale-slow", "gated-stale-slow", "gated-caching", "caching"]))
            ctx.sample({"kind": "schedule-set", "source": src, "templates": tpls, "datas": datas, "loader": kind})
    finally:
        w.close()


def _vary(data: Any, rng: random.Random) -> Any:
    if isinstance(data, dict):
        return {k: _vary(v, rng) for k, v in data.items()}
    if isinstance(data, list):
        return [_vary(v, rng) for v in data]
    if isinstance(data, bool) or data is None:
        return data
    if isinstance(data, int):
        return data + rng.choice([1, 2, 10])
    if isinstance(data, str):
        return data + rng.choice(["x", "Y"])
    return data


def replay(wit: dict[str, Any], ctx: Ctx) -> None:
    w = Work(ctx, {"seed": 0, "kind": "replay", "i": 0, "tier": "quick"})
    try:
        op = wit["op"]
        if op == "render":
            w.differential(wit["source"], wit["templates"], wit["data"], wit["kind"], "replay", wit.get("variant", "default"))
        elif op == "globals":
            w.globals_ops(wit["templates"], wit["kind"])
        elif op in ("get_template", "analyze"):
            w.template_ops(wit["templates"], wit["data"], wit["kind"])
        elif op == "schedule":
            w.schedules(wit["source"], wit["templates"], wit["datas"], wit["kind"], "replay")
        elif op == "load_render":
            load_render_jobs(w, wit["name"], wit["templates"], wit["datas"], wit["kind"])
        for v in ctx.violations.values():
            print("replay C03:", v["key"], v["what"])
        if not ctx.violations:
            print("replay C03: no divergence")
    finally:
        w.close()
